"""pyvc.nnmodel -- ASSUMED contracts of torch.nn base classes (constructors: which
attributes they set, which virtual methods they call), nn.Parameter, nn.init, containers.
Validated at run time against the installed torch by trusted/validate_torch.py (bounded).
"""
from __future__ import annotations

from fractions import Fraction
from typing import Any, Callable, Dict, List, Optional, Tuple

import z3

from .interp import Builtin, ClassVal, ExtClass, ObjVal, TypeTok
from .sym import SB, SV, OutOfReach, PyRaise, num_binop, num_cmp
from . import tensor as tz
from .tensor import DTYPES, LinComb, Opaque, Shape, Storage, SymTensor
from .torchmodel import REQ, normalise


def fill(st: Storage, what: Any) -> None:
    st.__dict__["fill"] = what


def fill_of(t: SymTensor) -> Any:
    return t.storage.__dict__.get("fill")


def new_param(ctx: Any, name: str, shape: Shape, init: Any) -> SymTensor:
    t = tz.new_leaf_tensor(ctx, name, shape, origin="fresh")
    t.is_parameter = True
    fill(t.storage, init)
    t.attrs = {}
    return t


def mk_parameter(interp: Any, args: List[Any], kwargs: Dict[str, Any]) -> Any:
    """nn.Parameter(data, requires_grad=True): a new Parameter object sharing data's storage,
    with NO instance attributes."""
    data = args[0] if args else kwargs.get("data")
    rg = args[1] if len(args) > 1 else kwargs.get("requires_grad", True)
    if not isinstance(data, SymTensor):
        raise OutOfReach("nn.Parameter of a non-tensor")
    p = SymTensor(data.shape, data.dtype, data.val, tz.Leaf(interp.ctx.fresh("param")), data.storage, data.name or "param", rg)
    p.is_parameter = True
    p.attrs = {}
    return p


PARAMETER = ExtClass("Parameter", (), {"__new__": lambda it, a, k: mk_parameter(it, a[1:], k)})


def init_normal_(interp: Any, args: List[Any], kwargs: Dict[str, Any]) -> Any:
    t, mean, std = normalise("normal_", [("tensor", REQ), ("mean", Fraction(0)), ("std", Fraction(1)), ("generator", None)], args, kwargs)[:3]
    interp.ctx.effects.append(("inplace", t.storage, "normal_"))
    fill(t.storage, ("normal", mean, std))
    return t


# ---------------------------------------------------------------- nn.Module


def is_module(v: Any) -> bool:
    return isinstance(v, ObjVal) and any(getattr(c, "name", "") == "Module" for c in v.cls.mro())


def module_init(interp: Any, args: List[Any], kwargs: Dict[str, Any]) -> Any:
    obj = args[0]
    obj.attrs.setdefault("training", interp.ctx.__dict__.get("training_flag", True))
    return None


def module_call(interp: Any, args: List[Any], kwargs: Dict[str, Any]) -> Any:
    obj = args[0]
    return interp.call(interp.getattr(obj, "forward"), list(args[1:]), kwargs)


def named_parameters_of(interp: Any, obj: Any, prefix: str = "") -> List[Tuple[str, Any]]:
    out: List[Tuple[str, Any]] = []
    gen = obj.attrs.get("__generic_children__")
    if gen is not None:
        return gen
    for k, v in obj.attrs.items():
        if isinstance(v, SymTensor) and v.is_parameter:
            out.append((prefix + k, v))
        elif is_module(v):
            out += named_parameters_of(interp, v, prefix + k + ".")
        elif k == "__items__":
            for i, m in enumerate(v):
                if is_module(m):
                    out += named_parameters_of(interp, m, f"{prefix}{i}.")
    return out


def module_named_parameters(interp: Any, args: List[Any], kwargs: Dict[str, Any]) -> Any:
    return named_parameters_of(interp, args[0])


def module_parameters(interp: Any, args: List[Any], kwargs: Dict[str, Any]) -> Any:
    r = named_parameters_of(interp, args[0])
    if isinstance(r, list):
        return [p for _, p in r]
    return r


def named_modules_of(obj: Any, prefix: str = "") -> List[Tuple[str, Any]]:
    out = [(prefix, obj)]
    for k, v in obj.attrs.items():
        if is_module(v):
            out += named_modules_of(v, (prefix + "." if prefix else "") + k)
        elif k == "__items__":
            for i, m in enumerate(v):
                if is_module(m):
                    out += named_modules_of(m, (prefix + "." if prefix else "") + str(i))
    return out


MODULE = ExtClass(
    "Module",
    (),
    {
        "__init__": module_init,
        "__call__": module_call,
        "named_parameters": module_named_parameters,
        "parameters": module_parameters,
        "named_modules": lambda it, a, k: named_modules_of(a[0]),
        "named_children": lambda it, a, k: [(n, v) for n, v in a[0].attrs.items() if is_module(v)],
    },
)


def _simple(name: str, sig: List[Tuple[str, Any]], post: Optional[Callable[[Any, Any, Dict[str, Any]], None]] = None) -> ExtClass:
    def init(interp: Any, args: List[Any], kwargs: Dict[str, Any]) -> Any:
        obj = args[0]
        module_init(interp, [obj], {})
        vals = normalise(name, sig, list(args[1:]), kwargs)
        b = dict(zip([n for n, _ in sig], vals))
        for k, v in b.items():
            if k not in ("device", "dtype"):
                obj.attrs[k] = v
        obj.attrs["__base_init__"] = (name, b)
        if post is not None:
            post(interp, obj, b)
        return None

    return ExtClass(name, (MODULE,), {"__init__": init})


def _dropout_post(interp: Any, obj: Any, b: Dict[str, Any]) -> None:
    p = b["p"]
    bad = num_cmp("<", p, 0)
    bad2 = num_cmp(">", p, 1)
    if interp.truth(bad) or interp.truth(bad2):
        raise PyRaise("ValueError", "dropout probability has to be between 0 and 1")


def _linear_post(interp: Any, obj: Any, b: Dict[str, Any]) -> None:
    ctx = interp.ctx
    obj.attrs.pop("bias", None)
    obj.attrs["weight"] = new_param(ctx, "weight", Shape([b["out_features"], b["in_features"]]), "base-class init (kaiming)")
    has_bias = b["bias"]
    obj.attrs["bias"] = new_param(ctx, "bias", Shape([b["out_features"]]), "base-class init (uniform)") if interp.truth(has_bias) else None
    obj.attrs["__device_dtype__"] = (b["device"], b["dtype"])
    interp.call(interp.getattr(obj, "reset_parameters"), [], {})  # virtual call


def _conv1d_post(interp: Any, obj: Any, b: Dict[str, Any]) -> None:
    ctx = interp.ctx
    for k in ("kernel_size", "stride", "padding", "dilation"):
        v = b[k]
        if not isinstance(v, (tuple, str)):
            obj.attrs[k] = (v,)
    pm = b["padding_mode"]
    if isinstance(pm, str) and pm not in ("zeros", "reflect", "replicate", "circular"):
        raise PyRaise("ValueError", "padding_mode must be one of zeros/reflect/replicate/circular")
    pad = b["padding"]
    obj.attrs["_reversed_padding_repeated_twice"] = [pad, pad] if not isinstance(pad, (tuple, str)) else [pad[0], pad[0]] if isinstance(pad, tuple) else [0, 0]
    obj.attrs.pop("bias", None)
    cg = num_binop(ctx, "//", b["in_channels"], b["groups"])
    obj.attrs["weight"] = new_param(ctx, "weight", Shape([b["out_channels"], cg, b["kernel_size"]]), "base-class init (kaiming)")
    obj.attrs["bias"] = new_param(ctx, "bias", Shape([b["out_channels"]]), "base-class init (uniform)") if interp.truth(b["bias"]) else None
    obj.attrs["__device_dtype__"] = (b["device"], b["dtype"])
    interp.call(interp.getattr(obj, "reset_parameters"), [], {})


def _layernorm_post(interp: Any, obj: Any, b: Dict[str, Any]) -> None:
    ctx = interp.ctx
    ns = b["normalized_shape"]
    if isinstance(ns, (int, SV)):
        ns = (ns,)
    ns = tuple(interp.iterate(ns))
    obj.attrs["normalized_shape"] = ns
    obj.attrs.pop("bias", None)
    if interp.truth(b["elementwise_affine"]):
        obj.attrs["weight"] = new_param(ctx, "weight", Shape(list(ns)), "ones")
        obj.attrs["bias"] = new_param(ctx, "bias", Shape(list(ns)), "zeros") if interp.truth(b["bias"]) else None
    else:
        obj.attrs["weight"] = None
        obj.attrs["bias"] = None
    obj.attrs["__device_dtype__"] = (b["device"], b["dtype"])


def _embedding_post(interp: Any, obj: Any, b: Dict[str, Any]) -> None:
    ctx = interp.ctx
    pi = b["padding_idx"]
    if pi is not None and isinstance(pi, SV):
        # negative padding_idx is normalised by num_embeddings
        neg = num_cmp("<", pi, 0)
        if interp.truth(neg):
            obj.attrs["padding_idx"] = num_binop(ctx, "+", pi, b["num_embeddings"])
    if b["_weight"] is None:
        obj.attrs["weight"] = new_param(ctx, "weight", Shape([b["num_embeddings"], b["embedding_dim"]]), ("normal", Fraction(0), Fraction(1)))
    else:
        w = mk_parameter(interp, [b["_weight"]], {})
        obj.attrs["weight"] = w
    obj.attrs.pop("_weight", None)
    obj.attrs["__device_dtype__"] = (b["device"], b["dtype"])


GELU = _simple("GELU", [("approximate", "none")])
SILU = _simple("SiLU", [("inplace", False)])
SOFTMAX = _simple("Softmax", [("dim", None)])
DROPOUT = _simple("Dropout", [("p", Fraction(1, 2)), ("inplace", False)], _dropout_post)
LINEAR = _simple("Linear", [("in_features", REQ), ("out_features", REQ), ("bias", True), ("device", None), ("dtype", None)], _linear_post)
CONV1D = _simple(
    "Conv1d",
    [("in_channels", REQ), ("out_channels", REQ), ("kernel_size", REQ), ("stride", 1), ("padding", 0), ("dilation", 1), ("groups", 1), ("bias", True), ("padding_mode", "zeros"), ("device", None), ("dtype", None)],
    _conv1d_post,
)
LAYERNORM = _simple("LayerNorm", [("normalized_shape", REQ), ("eps", Fraction("1e-5")), ("elementwise_affine", True), ("bias", True), ("device", None), ("dtype", None)], _layernorm_post)
EMBEDDING = _simple(
    "Embedding",
    [("num_embeddings", REQ), ("embedding_dim", REQ), ("padding_idx", None), ("max_norm", None), ("norm_type", Fraction(2)), ("scale_grad_by_freq", False), ("sparse", False), ("_weight", None), ("_freeze", False), ("device", None), ("dtype", None)],
    _embedding_post,
)
CROSSENTROPY = _simple("CrossEntropyLoss", [("weight", None), ("size_average", None), ("ignore_index", -100), ("reduce", None), ("reduction", "mean"), ("label_smoothing", Fraction(0))])


# ---------------------------------------------------------------- containers


def _container_init(kind: str) -> Callable[..., Any]:
    def init(interp: Any, args: List[Any], kwargs: Dict[str, Any]) -> Any:
        obj = args[0]
        module_init(interp, [obj], {})
        glen = interp.ctx.__dict__.pop("generic_star_len", None)
        if kind == "ModuleList":
            mods = args[1] if len(args) > 1 else kwargs.get("modules")
            gen = getattr(mods, "generic_children", None)
            if gen is not None:
                obj.attrs["__generic_children__"] = gen
                obj.attrs["__len__"] = mods.sym_len
                return None
            items = list(interp.iterate(mods)) if mods is not None else []
        else:
            items = list(args[1:])
        for a in list(args[1:]):
            gen = getattr(a, "generic_children", None)
            if gen is not None:
                obj.attrs["__generic_children__"] = gen
                obj.attrs["__len__"] = a.sym_len
                return None
        obj.attrs["__items__"] = items
        obj.attrs["__len__"] = glen if glen is not None else len(items)
        return None

    return init


def _container_len(interp: Any, args: List[Any], kwargs: Dict[str, Any]) -> Any:
    return args[0].attrs["__len__"]


def _container_iter(interp: Any, args: List[Any], kwargs: Dict[str, Any]) -> Any:
    return list(args[0].attrs.get("__items__", []))


def _sequential_forward(interp: Any, args: List[Any], kwargs: Dict[str, Any]) -> Any:
    obj, x = args[0], args[1]
    for m in obj.attrs.get("__items__", []):
        x = interp.call(m, [x], {})
    for k, v in obj.attrs.items():
        if is_module(v) and not k.startswith("__"):
            x = interp.call(v, [x], {})
    return x


MODULELIST = ExtClass("ModuleList", (MODULE,), {"__init__": _container_init("ModuleList"), "__len__": _container_len, "__iter__": _container_iter})
SEQUENTIAL = ExtClass("Sequential", (MODULE,), {"__init__": _container_init("Sequential"), "__len__": _container_len, "__iter__": _container_iter, "forward": _sequential_forward})


class GenericModules:
    """an arbitrary collection of `sym_len` modules whose parameters are represented by one
    generic (name, parameter) pair (loop-invariant style, see harness.GenericSeq)"""

    def __init__(self, sym_len: Any, generic_children: Any):
        self.sym_len = sym_len
        self.generic_children = generic_children

    def pyvc_types(self) -> Any:
        return {"list", "Iterable"}


def nn_entries(interp: Any) -> Dict[str, Any]:
    from .torchmodel import _mod

    init = _mod("torch.nn.init", {"normal_": Builtin("nn.init.normal_", init_normal_)})
    return {
        "Module": MODULE,
        "Parameter": PARAMETER,
        "GELU": GELU,
        "SiLU": SILU,
        "Softmax": SOFTMAX,
        "Dropout": DROPOUT,
        "Linear": LINEAR,
        "Conv1d": CONV1D,
        "LayerNorm": LAYERNORM,
        "Embedding": EMBEDDING,
        "CrossEntropyLoss": CROSSENTROPY,
        "ModuleList": MODULELIST,
        "Sequential": SEQUENTIAL,
        "init": init,
    }


def hook(interp: Any, name: str) -> Any:
    """external_hook for interpreters that need torch.nn"""
    if name == "torch.nn":
        return nn_entries(interp)
    if name == "torch":
        return {"nn": interp.get_module("torch.nn")} if False else None
    if name == "einops":
        return {"rearrange": Builtin("einops.rearrange", einops_rearrange)}
    return None


def einops_rearrange(interp: Any, args: List[Any], kwargs: Dict[str, Any]) -> Any:
    """ASSUMED: einops.rearrange is a pure re-indexing (uninterpreted here)."""
    from .torchmodel import op_app

    x, pattern = args[0], args[1]
    vals = [x, pattern] + [kwargs[k] for k in sorted(kwargs)]
    r = op_app(interp, "rearrange", vals, Shape([tz.Run(interp.ctx, "rearranged")]), x.dtype)
    if isinstance(pattern, str) and "->" in pattern and pattern.split("->")[1].strip().startswith("z "):
        z = kwargs.get("z")
        if isinstance(z, int):
            return [op_app(interp, "rearrange_part", vals + [i], Shape([tz.Run(interp.ctx, "rearranged")]), x.dtype) for i in range(z)]
    return r
