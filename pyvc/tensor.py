"""pyvc.tensor -- symbolic shapes, tensor values (linear combinations over an
uninterpreted term algebra) and a symbolic reverse-mode autograd DAG.

Trusted core (A7).  The algebra of tensor values assumed here (A2): tensors form a
real vector space (scalar multiplication distributes, 1*x = x), the elementwise product
is associative/commutative/bilinear, every torch op is a deterministic uninterpreted
function of its (normalised) arguments, and every VJP is linear in the upstream gradient.
"""
from __future__ import annotations

import itertools
from fractions import Fraction
from typing import Any, Dict, List, Optional, Sequence, Tuple

import z3

from .sym import (
    SB,
    SV,
    Ctx,
    OutOfReach,
    PyRaise,
    as_concrete,
    bool_and,
    is_concrete_num,
    mk_bool,
    mk_num,
    num_binop,
    num_cmp,
    zint,
    zreal,
)

# ----------------------------------------------------------------------------------
# sorts

T = z3.DeclareSort("T")
DT, _dts = z3.EnumSort("DT", ["f64", "f32", "bf16", "f16", "i64", "i32", "i8", "boolean"])
DTYPES = dict(zip(["float64", "float32", "bfloat16", "float16", "int64", "int32", "int8", "bool"], _dts))
FLOAT_DTYPES = [DTYPES[n] for n in ("float64", "float32", "bfloat16", "float16")]

V = z3.Datatype("V")
V.declare("VNone")
V.declare("VR", ("vr", z3.RealSort()))
V.declare("VB", ("vb", z3.BoolSort()))
V.declare("VS", ("vs", z3.IntSort()))
V.declare("VT", ("vt", T))
V.declare("VD", ("vd", DT))
V.declare("VO", ("vo", z3.IntSort()))
V.declare("VNil")
V.declare("VCons", ("hd", V), ("tl", V))
V = V.create()

ONE = z3.Const("ONE", T)  # the constant-one tensor (broadcastable)
TZERO = z3.Const("TZERO", T)
_SMUL = z3.Function("smul", z3.RealSort(), T, T)
_TADD = z3.Function("tadd", T, T, T)
_TMUL = z3.Function("tmul", T, T, T)
_TDIV = z3.Function("tdiv", T, T, T)

_strings: Dict[str, int] = {}


def str_id(s: str) -> int:
    if s not in _strings:
        _strings[s] = len(_strings) + 1
    return _strings[s]


class Opaque:
    """A value of unknown type that is only passed through (e.g. `approximate`,
    `attn_mask`, `training`): a V-sorted constant."""

    def __init__(self, z: z3.ExprRef, name: str = ""):
        self.z = z
        self.name = name or str(z)

    def __repr__(self) -> str:
        return f"Opaque<{self.name}>"


# ----------------------------------------------------------------------------------
# shapes


class Run:
    """An abstract run of n >= 0 dimensions with product P >= 1 (all dims >= 1)."""

    def __init__(self, ctx: Ctx, name: str, min_len: int = 0, max_len: Optional[int] = None):
        self.name = ctx.fresh(name)
        self.n = z3.Int(self.name + ".n")
        self.P = z3.Int(self.name + ".P")
        ctx.axiom(self.n >= min_len)
        if max_len is not None:
            ctx.axiom(self.n <= max_len)
        ctx.axiom(self.P >= 1)
        ctx.axiom(z3.Implies(self.n == 0, self.P == 1))
        self.first: Optional[Tuple[SV, "Run"]] = None  # lazily split d0 ++ rest

    def split_first(self, ctx: Ctx) -> Tuple[SV, "Run"]:
        """Only valid on paths where n >= 1."""
        if self.first is None:
            d0 = ctx.fresh_int(self.name + ".d0")
            rest = Run(ctx, self.name + ".rest")
            ctx.axiom(z3.Implies(self.n >= 1, z3.And(d0.z >= 1, rest.n == self.n - 1, self.P == d0.z * rest.P)))
            self.first = (d0, rest)
        return self.first

    def __repr__(self) -> str:
        return f"Run<{self.name}>"


Dim = (int, SV)


class Shape:
    """torch.Size: a list of segments, each a dim (int | SV int) or a Run."""

    def __init__(self, segs: Sequence[Any]):
        self.segs = list(segs)

    def __repr__(self) -> str:
        return f"Shape{self.segs}"

    # -- basic queries -----------------------------------------------------------
    def numel(self, ctx: Ctx) -> Any:
        r: Any = 1
        for s in self.segs:
            r = num_binop(ctx, "*", r, SV(s.P, "int") if isinstance(s, Run) else s)
        return r

    def length(self, ctx: Ctx) -> Any:
        r: Any = 0
        for s in self.segs:
            r = num_binop(ctx, "+", r, SV(s.n, "int") if isinstance(s, Run) else 1)
        return r

    def concrete_rank(self) -> Optional[int]:
        if any(isinstance(s, Run) for s in self.segs):
            return None
        return len(self.segs)

    def dims(self) -> List[Any]:
        if self.concrete_rank() is None:
            raise OutOfReach("iterating a shape of symbolic rank")
        return list(self.segs)

    def _trailing_dims(self) -> int:
        k = 0
        for s in reversed(self.segs):
            if isinstance(s, Run):
                break
            k += 1
        return k

    def _leading_dims(self) -> int:
        k = 0
        for s in self.segs:
            if isinstance(s, Run):
                break
            k += 1
        return k

    def getitem(self, ctx: Ctx, idx: Any) -> Any:
        if isinstance(idx, slice):
            return self.getslice(ctx, idx)
        if isinstance(idx, SV):
            c = as_concrete(idx.z)
            if c is None:
                return self._symbolic_index(ctx, idx)
            idx = int(c)
        if not isinstance(idx, int):
            raise OutOfReach(f"shape index {idx!r}")
        rank = self.concrete_rank()
        if rank is not None:
            if not -rank <= idx < rank:
                raise PyRaise("IndexError", "tuple index out of range")
            return self.segs[idx]
        if idx < 0:
            k = -idx
            if k <= self._trailing_dims():
                return self.segs[idx]
            raise OutOfReach("negative index reaching into an abstract run")
        # non-negative index on a shape with a run
        if idx < self._leading_dims():
            return self.segs[idx]
        lead = self._leading_dims()
        run = self.segs[lead]
        tail = self.segs[lead + 1 :]
        if any(isinstance(s, Run) for s in tail):
            raise OutOfReach("positive index into a shape with two runs")
        j = idx - lead  # position relative to the start of the run
        # fork on how long the run is: n <= j (index falls into the tail) or n > j
        cur = run
        for step in range(j + 1):
            if ctx.branch(cur.n == 0):
                # run exhausted after `step` dims; index j-step into tail
                pos = j - step
                if pos >= len(tail):
                    raise PyRaise("IndexError", "tuple index out of range")
                return tail[pos]
            d0, rest = cur.split_first(ctx)
            if step == j:
                return d0
            cur = rest
        raise OutOfReach("unreachable")

    def _symbolic_index(self, ctx: Ctx, idx: SV) -> Any:
        """shape[dim] for a symbolic dim: an uninterpreted dim >= 1, with the
        IndexError outcome when dim is outside [-rank, rank)."""
        rank = self.length(ctx)
        ok = bool_and(num_cmp(">=", idx, num_binop(ctx, "-", 0, rank)), num_cmp("<", idx, rank))
        if not ctx.branch(ok):
            raise PyRaise("IndexError", "tuple index out of range")
        f = z3.Function("dimat", z3.IntSort(), z3.IntSort(), z3.IntSort())
        norm = z3.If(idx.z < 0, idx.z + zint(rank), idx.z)
        d = f(z3.IntVal(id(self) % (1 << 30)), norm)
        ctx.axiom(d >= 1)
        ctx.axiom(zint(self.numel(ctx)) >= d)
        return SV(d, "int")

    def getslice(self, ctx: Ctx, sl: slice) -> "Shape":
        if sl.step is not None:
            raise OutOfReach("shape slice with step")
        lo, hi = sl.start, sl.stop
        rank = self.concrete_rank()
        if rank is not None and all(x is None or isinstance(x, int) for x in (lo, hi)):
            return Shape(self.segs[sl])
        nt = self._trailing_dims()
        nl = self._leading_dims()
        if lo is None and isinstance(hi, int) and hi < 0 and -hi <= nt:
            return Shape(self.segs[:hi])
        if hi is None and isinstance(lo, int) and lo < 0 and -lo <= nt:
            return Shape(self.segs[lo:])
        if lo is None and isinstance(hi, int) and 0 <= hi <= nl:
            return Shape(self.segs[:hi])
        if hi is None and isinstance(lo, int) and 0 <= lo <= nl:
            return Shape(self.segs[lo:])
        raise OutOfReach(f"shape slice {sl} on {self}")

    def unpack(self, ctx: Ctx, before: int, star: bool, after: int) -> Tuple[List[Any], Optional["Shape"], List[Any]]:
        """a, b, *rest, c = shape"""
        rank = self.concrete_rank()
        need = before + after
        if rank is not None:
            if (not star and rank != need) or (star and rank < need):
                raise PyRaise("ValueError", "wrong number of values to unpack")
            mid = Shape(self.segs[before : rank - after]) if star else None
            return self.segs[:before], mid, self.segs[rank - after :] if after else []
        if not star:
            # the symbolic rank must equal `need`: expand runs dimension by dimension
            ln = self.length(ctx)
            if not ctx.branch(num_cmp("==", ln, need)):
                raise PyRaise("ValueError", "wrong number of values to unpack")
            dims = self._expand_exact(ctx, need)
            return dims[:before], None, dims[before:]
        if before > self._leading_dims() or after > self._trailing_dims():
            ln = self.length(ctx)
            if not ctx.branch(num_cmp(">=", ln, need)):
                raise PyRaise("ValueError", "not enough values to unpack")
            raise OutOfReach("star-unpack reaching into an abstract run")
        mid = Shape(self.segs[before : len(self.segs) - after])
        return self.segs[:before], mid, self.segs[len(self.segs) - after :] if after else []

    def _expand_exact(self, ctx: Ctx, total: int) -> List[Any]:
        """Under the path condition len(self) == total, list all dims."""
        fixed = sum(1 for s in self.segs if not isinstance(s, Run))
        runs = [s for s in self.segs if isinstance(s, Run)]
        if len(runs) != 1:
            raise OutOfReach("exact expansion of a shape with several runs")
        out: List[Any] = []
        for s in self.segs:
            if isinstance(s, Run):
                cur = s
                for _ in range(total - fixed):
                    d0, rest = cur.split_first(ctx)
                    out.append(d0)
                    cur = rest
            else:
                out.append(s)
        return out

    def eq(self, ctx: Ctx, other: "Shape") -> Any:
        if self is other:
            return True
        if len(self.segs) == len(other.segs) and all(
            (a is b) if isinstance(a, Run) or isinstance(b, Run) else True for a, b in zip(self.segs, other.segs)
        ):
            return bool_and(
                *[num_cmp("==", a, b) for a, b in zip(self.segs, other.segs) if not isinstance(a, Run)]
            )
        ra, rb = self.concrete_rank(), other.concrete_rank()
        if ra is not None and rb is not None:
            return False  # different concrete ranks
        b = ctx.fresh_bool("shape_eq")
        ctx.axiom(
            z3.Implies(
                b.z,
                z3.And(
                    zint(self.numel(ctx)) == zint(other.numel(ctx)),
                    zint(self.length(ctx)) == zint(other.length(ctx)),
                ),
            )
        )
        return b

    def concat(self, other: "Shape") -> "Shape":
        return Shape(self.segs + other.segs)


def shape_V(ctx: Ctx, sh: Shape) -> z3.ExprRef:
    items = []
    for s in sh.segs:
        if isinstance(s, Run):
            items.append(V.VO(z3.Int("run!" + s.name)))
        else:
            items.append(V.VR(zreal(s)))
    r = V.VNil
    for it in reversed(items):
        r = V.VCons(it, r)
    return r


# ----------------------------------------------------------------------------------
# linear combinations of tensor terms


class LinComb:
    def __init__(self, terms: Sequence[Tuple[z3.ExprRef, z3.ArithRef]] = ()):
        self.terms: List[Tuple[z3.ExprRef, z3.ArithRef]] = []
        for t, c in terms:
            self._add(t, c)

    def _add(self, t: z3.ExprRef, c: z3.ArithRef) -> None:
        c = z3.simplify(c)
        for i, (u, d) in enumerate(self.terms):
            if u.eq(t):
                nc = z3.simplify(d + c)
                self.terms[i] = (u, nc)
                return
        self.terms.append((t, c))

    def drop_zeros(self) -> "LinComb":
        out = LinComb()
        for t, c in self.terms:
            v = as_concrete(c)
            if v is not None and v == 0:
                continue
            out.terms.append((t, c))
        return out

    @staticmethod
    def of(t: z3.ExprRef) -> "LinComb":
        return LinComb([(t, z3.RealVal(1))])

    @staticmethod
    def const(c: Any) -> "LinComb":
        return LinComb([(ONE, zreal(c))])

    def scale(self, c: Any) -> "LinComb":
        cz = zreal(c)
        return LinComb([(t, d * cz) for t, d in self.terms]).drop_zeros()

    def plus(self, other: "LinComb") -> "LinComb":
        return LinComb(self.terms + other.terms).drop_zeros()

    def is_const(self) -> bool:
        return len(self.terms) == 1 and self.terms[0][0].eq(ONE)

    def __repr__(self) -> str:
        return " + ".join(f"({c})*{t}" for t, c in self.terms) or "0"


def smul(ctx: Ctx, c: z3.ArithRef, t: z3.ExprRef) -> z3.ExprRef:
    cv = as_concrete(c)
    if cv is not None and cv == 1:
        return t
    r = _SMUL(c, t)
    ctx.axiom(z3.Implies(c == 1, r == t))
    # smul(a, smul(b, x)) = smul(a*b, x) for nested applications
    if z3.is_app(t) and t.decl().name() == "smul":
        inner_c, inner_t = t.arg(0), t.arg(1)
        ctx.axiom(r == _SMUL(z3.simplify(c * inner_c), inner_t))
    return r


def materialise(ctx: Ctx, lc: LinComb) -> z3.ExprRef:
    terms = lc.terms
    if not terms:
        return TZERO
    parts = sorted((smul(ctx, z3.simplify(c), t) for t, c in terms), key=lambda e: e.sexpr())
    r = parts[-1]
    for p in reversed(parts[:-1]):
        r = _TADD(p, r)
    return r


def _factors(t: z3.ExprRef) -> List[z3.ExprRef]:
    if z3.is_app(t) and t.decl().name() == "tmul":
        return _factors(t.arg(0)) + _factors(t.arg(1))
    if t.eq(ONE):
        return []
    return [t]


def tprod(fs: List[z3.ExprRef]) -> z3.ExprRef:
    fs = sorted(fs, key=lambda e: e.sexpr())
    if not fs:
        return ONE
    r = fs[-1]
    for p in reversed(fs[:-1]):
        r = _TMUL(p, r)
    return r


def lc_mul(a: LinComb, b: LinComb) -> LinComb:
    out = LinComb()
    for t, c in a.terms:
        for u, d in b.terms:
            out._add(tprod(_factors(t) + _factors(u)), c * d)
    return out.drop_zeros()


def lc_div(ctx: Ctx, a: LinComb, b: LinComb) -> LinComb:
    if len(b.terms) != 1:
        bt = materialise(ctx, b)
        return LinComb([(_TDIV(t, bt), c) for t, c in a.terms])
    u, d = b.terms[0]
    if u.eq(ONE):
        return LinComb([(t, c / d) for t, c in a.terms])
    return LinComb([(_TDIV(t, u), c / d) for t, c in a.terms])


# ----------------------------------------------------------------------------------
# autograd DAG


class Node:
    _ids = itertools.count()

    def __init__(self, inputs: Sequence[Optional["Node"]]):
        self.id = next(Node._ids)
        self.inputs = list(inputs)

    def vjp(self, ctx: Ctx, g: LinComb, interp: Any) -> List[Optional[LinComb]]:
        raise NotImplementedError


class Leaf(Node):
    def __init__(self, name: str):
        super().__init__([])
        self.name = name

    def __repr__(self) -> str:
        return f"Leaf<{self.name}>"


class LinNode(Node):
    """out = sum_i c_i * in_i  (c_i real scalars); optional un-broadcast per input."""

    def __init__(self, inputs: Sequence[Optional[Node]], coefs: Sequence[z3.ArithRef], unb: Sequence[Optional[z3.ExprRef]]):
        super().__init__(inputs)
        self.coefs = list(coefs)
        self.unb = list(unb)

    def vjp(self, ctx: Ctx, g: LinComb, interp: Any) -> List[Optional[LinComb]]:
        out: List[Optional[LinComb]] = []
        for c, u in zip(self.coefs, self.unb):
            gi = g
            if u is not None:
                f = z3.Function("unbroadcast", T, V, T)
                gi = LinComb([(f(t, u), d) for t, d in g.terms])
            out.append(gi.scale(SV(c, "real")))
        return out


class ScaleNode(Node):
    """Contract of scale_fwd / scale_bwd: value * fwd, gradient * bwd."""

    def __init__(self, inp: Optional[Node], fwd: z3.ArithRef, bwd: z3.ArithRef):
        super().__init__([inp])
        self.fwd = fwd
        self.bwd = bwd

    def vjp(self, ctx: Ctx, g: LinComb, interp: Any) -> List[Optional[LinComb]]:
        return [g.scale(SV(self.bwd, "real"))]


class MulNode(Node):
    """Elementwise product of two tensors (exact product rule)."""

    def __init__(self, a: Optional[Node], b: Optional[Node], av: LinComb, bv: LinComb):
        super().__init__([a, b])
        self.av = av
        self.bv = bv

    def vjp(self, ctx: Ctx, g: LinComb, interp: Any) -> List[Optional[LinComb]]:
        return [lc_mul(g, self.bv), lc_mul(g, self.av)]


class OpNode(Node):
    """A torch op treated as an uninterpreted function; VJP uninterpreted, linear in g."""

    def __init__(self, op: str, args_v: List[z3.ExprRef], tensor_pos: List[int], inputs: Sequence[Optional[Node]]):
        super().__init__(inputs)
        self.op = op
        self.args_v = args_v
        self.tensor_pos = tensor_pos

    def vjp(self, ctx: Ctx, g: LinComb, interp: Any) -> List[Optional[LinComb]]:
        out: List[Optional[LinComb]] = []
        for pos in self.tensor_pos:
            f = z3.Function(f"vjp!{self.op}!{pos}", *([V] * len(self.args_v)), T, T)
            out.append(LinComb([(f(*self.args_v, t), c) for t, c in g.terms]))
        return out


class FunctionNode(Node):
    """torch.autograd.Function subclass defined in the repo: backward is interpreted."""

    def __init__(self, cls: Any, fctx: Any, inputs: Sequence[Optional[Node]], n_args: int, tensor_arg_idx: List[int], out_shape: Any, out_dtype: Any):
        super().__init__(inputs)
        self.cls = cls
        self.fctx = fctx
        self.n_args = n_args
        self.tensor_arg_idx = tensor_arg_idx
        self.out_shape = out_shape
        self.out_dtype = out_dtype

    def vjp(self, ctx: Ctx, g: LinComb, interp: Any) -> List[Optional[LinComb]]:
        return interp.run_function_backward(self, g)


class Storage:
    _ids = itertools.count()

    def __init__(self, origin: str):
        self.id = next(Storage._ids)
        self.origin = origin  # 'input:<name>' or 'fresh'

    def __repr__(self) -> str:
        return f"Storage<{self.id}:{self.origin}>"


class SymTensor:
    def __init__(
        self,
        shape: Shape,
        dtype: z3.ExprRef,
        val: LinComb,
        node: Optional[Node],
        storage: Optional[Storage] = None,
        name: str = "",
        requires_grad: Any = True,
    ):
        self.shape = shape
        self.dtype = dtype
        self.val = val
        self.node = node
        self.storage = storage or Storage("fresh")
        self.name = name
        self.requires_grad = requires_grad
        self.attrs: Dict[str, Any] = {}
        self.is_parameter = False

    def __repr__(self) -> str:
        return f"SymTensor<{self.name or '?'} {self.shape} val={self.val}>"

    def __bool__(self) -> bool:
        raise OutOfReach("truth value of a tensor")

    __hash__ = object.__hash__


def new_leaf_tensor(ctx: Ctx, name: str, shape: Shape, dtype: Any = None, origin: Optional[str] = None) -> SymTensor:
    nm = ctx.fresh(name)
    t = z3.Const("t!" + nm, T)
    if dtype is None:
        dtype = z3.Const("dt!" + nm, DT)
    return SymTensor(shape, dtype, LinComb.of(t), Leaf(nm), Storage(origin or f"input:{nm}"), nm)


def to_V(ctx: Ctx, x: Any) -> z3.ExprRef:
    if x is None:
        return V.VNone
    if isinstance(x, bool):
        return V.VB(z3.BoolVal(x))
    if isinstance(x, SB):
        return V.VB(x.z)
    if isinstance(x, (int, Fraction, SV)):
        return V.VR(zreal(x))
    if isinstance(x, str):
        return V.VS(z3.IntVal(str_id(x)))
    if isinstance(x, SymTensor):
        return V.VT(materialise(ctx, x.val))
    if isinstance(x, Opaque):
        return x.z
    if isinstance(x, Shape):
        return shape_V(ctx, x)
    if isinstance(x, (tuple, list)):
        r = V.VNil
        for it in reversed(list(x)):
            r = V.VCons(to_V(ctx, it), r)
        return r
    if z3.is_expr(x) and x.sort() == DT:
        return V.VD(x)
    if z3.is_expr(x) and x.sort() == V:
        return x
    raise OutOfReach(f"cannot encode {type(x).__name__} value as a torch argument: {x!r}")


def backward(ctx: Ctx, out: SymTensor, g: LinComb, interp: Any, all_nodes: bool = False) -> Dict[int, Tuple[Node, LinComb]]:
    """Symbolic reverse mode: returns {leaf.id: (leaf, grad)} (every node with all_nodes)."""
    grads: Dict[int, LinComb] = {}
    nodes: Dict[int, Node] = {}
    if out.node is None:
        return {}
    grads[out.node.id] = g
    nodes[out.node.id] = out.node
    # discover
    stack = [out.node]
    seen = set()
    while stack:
        n = stack.pop()
        if n.id in seen:
            continue
        seen.add(n.id)
        nodes[n.id] = n
        for i in n.inputs:
            if i is not None:
                stack.append(i)
    result: Dict[int, Tuple[Node, LinComb]] = {}
    for nid in sorted(seen, reverse=True):  # creation order is topological
        n = nodes[nid]
        gn = grads.get(nid)
        if gn is None:
            continue
        if isinstance(n, Leaf) or all_nodes:
            result[nid] = (n, gn)
        if isinstance(n, Leaf):
            continue
        parts = n.vjp(ctx, gn, interp)
        for inp, p in zip(n.inputs, parts):
            if inp is None or p is None:
                continue
            grads[inp.id] = grads[inp.id].plus(p) if inp.id in grads else p
    return result
