"""pyvc.builtins_model -- Python builtins, attribute protocol, object construction.

Part of the trusted core (A7): this is the executor's encoding of Python semantics.
"""
from __future__ import annotations

from fractions import Fraction
from typing import Any, Dict, List

import z3

from .sym import SB, SV, OutOfReach, PyRaise, bool_not, bool_or, is_concrete_num, kind_of, mk_bool, mk_num, num_binop, num_cmp, zreal
from . import tensor as tz
from .tensor import Opaque, Shape, SymTensor


def _types_of(interp: Any, v: Any) -> Any:
    """Set of type names v is an instance of, or None when unknown."""
    from .interp import BoundMethod, Builtin, ClassVal, ExtClass, FuncVal, GenList, ObjVal, OpaqueStr

    if v is None:
        return {"NoneType"}
    if isinstance(v, bool):
        return {"bool", "int"}
    if isinstance(v, SB):
        return {"bool", "int"}
    if isinstance(v, int):
        return {"int"}
    if isinstance(v, (Fraction, float)):
        return {"float"}
    if isinstance(v, SV):
        return {"int"} if v.kind == "int" else {"float"}
    if isinstance(v, (str, OpaqueStr)):
        return {"str", "Iterable"}
    if isinstance(v, tuple):
        return {"tuple", "Iterable", "Sequence"}
    if isinstance(v, list):
        return {"list", "Iterable", "Sequence"}
    if isinstance(v, dict):
        return {"dict", "Iterable"}
    if isinstance(v, (set, frozenset)):
        return {"set", "Iterable"}
    if isinstance(v, GenList):
        return {"generator", "Iterable"}
    if isinstance(v, Shape):
        return {"Size", "tuple", "Iterable", "Sequence"}
    if isinstance(v, SymTensor):
        s = {"Tensor"}
        if v.is_parameter:
            s.add("Parameter")
        return s
    if isinstance(v, ObjVal):
        return {getattr(c, "name", str(c)) for c in v.cls.mro()} | {"object"}
    if isinstance(v, Builtin) and getattr(v, "c_builtin", False):
        return {"BuiltinFunctionType", "builtin_function_or_method", "Callable"}  # a C-implemented function
    if isinstance(v, (FuncVal, Builtin, BoundMethod)):
        return {"function", "FunctionType", "Callable"}
    if isinstance(v, (ClassVal, ExtClass)):
        return {"type"}
    h = getattr(v, "pyvc_types", None)
    if h is not None:
        return h()
    return None


def _type_names(interp: Any, t: Any) -> List[str]:
    from .interp import ClassVal, ExtClass, TypeTok

    if isinstance(t, tuple):
        out: List[str] = []
        for x in t:
            out += _type_names(interp, x)
        return out
    if isinstance(t, TypeTok):
        return [t.name]
    if isinstance(t, (ClassVal, ExtClass)):
        return [t.name]
    raise OutOfReach(f"isinstance against {t!r}")


def b_isinstance(interp: Any, args: List[Any], kwargs: Dict[str, Any]) -> Any:
    v, t = args
    names = _type_names(interp, t)
    tys = _types_of(interp, v)
    if tys is None:
        if isinstance(v, Opaque):
            # unknown dynamic type: an uninterpreted predicate per type name
            f = z3.Function("isinst", tz.V, z3.IntSort(), z3.BoolSort())
            return mk_bool(z3.Or(*[f(v.z, z3.IntVal(tz.str_id(n))) for n in names]))
        raise OutOfReach(f"isinstance of {type(v).__name__}")
    return any(n in tys for n in names)


def _b_delattr(interp: Any, obj: Any, name: str) -> None:
    attrs = getattr(obj, "attrs", None)
    if not isinstance(attrs, dict) or name not in attrs:
        raise PyRaise("AttributeError", name)
    interp.ctx.effects.append(("setattr", obj, name))
    del attrs[name]


def b_len(interp: Any, args: List[Any], kwargs: Dict[str, Any]) -> Any:
    from .interp import GenList, ObjVal

    (v,) = args
    if getattr(v, "sym_len", None) is not None:
        return v.sym_len
    if isinstance(v, (tuple, list, dict, set, str)):
        return len(v)
    if isinstance(v, Shape):
        return v.length(interp.ctx)
    if isinstance(v, GenList):
        raise PyRaise("TypeError", "len of generator")
    if isinstance(v, ObjVal):
        m = interp.find_method(v, "__len__")
        if m is not None:
            return interp.call(m, [], {})
    h = getattr(v, "pyvc_len", None)
    if h is not None:
        return h(interp)
    raise OutOfReach(f"len of {type(v).__name__}")


def b_sum(interp: Any, args: List[Any], kwargs: Dict[str, Any]) -> Any:
    items = interp.iterate(args[0])
    r: Any = args[1] if len(args) > 1 else 0
    for x in items:
        r = interp.binop("+", r, x)
    return r


def b_prod(interp: Any, args: List[Any], kwargs: Dict[str, Any]) -> Any:
    v = args[0]
    if isinstance(v, Shape):
        return v.numel(interp.ctx)
    r: Any = kwargs.get("start", 1)
    for x in interp.iterate(v):
        r = interp.binop("*", r, x)
    return r


class GenericItems(list):
    """items of an iteration over a range of symbolic length: ONE generic element"""

    sym_len: Any = None


class SymRange:
    """range(n) for a symbolic n: iterating yields one generic index i with 0 <= i < n
    (the statement proved about i holds for every index)."""

    def __init__(self, n: Any):
        self.n = n

    def pyvc_iter(self, interp: Any) -> Any:
        ctx = interp.ctx
        i = ctx.fresh_int("i")
        ctx.assume(z3.And(i.z >= 0, i.z < self.n.z))
        ctx.__dict__.setdefault("generic_indices", []).append((i, self.n))
        g = GenericItems([i])
        g.sym_len = self.n
        return g


def b_range(interp: Any, args: List[Any], kwargs: Dict[str, Any]) -> Any:
    if len(args) == 1 and isinstance(args[0], SV) and args[0].kind == "int":
        return SymRange(args[0])
    if not all(isinstance(a, int) for a in args):
        h = None
        for a in args:
            h = h or getattr(a, "pyvc_range", None)
        raise OutOfReach("range over a symbolic bound (needs a loop invariant)")
    return range(*args)


def b_tuple(interp: Any, args: List[Any], kwargs: Dict[str, Any]) -> Any:
    if not args:
        return ()
    if isinstance(args[0], Shape):
        return args[0]  # tuple(shape): keep the abstract shape
    return tuple(interp.iterate(args[0]))


def b_list(interp: Any, args: List[Any], kwargs: Dict[str, Any]) -> Any:
    if not args:
        return []
    h = getattr(args[0], "pyvc_list", None)
    if h is not None:
        return h(interp)
    return list(interp.iterate(args[0]))


def b_dict(interp: Any, args: List[Any], kwargs: Dict[str, Any]) -> Any:
    d: Dict[Any, Any] = {}
    if args:
        src = args[0]
        if isinstance(src, dict):
            d.update(src)
        else:
            for k, v in interp.iterate(src):
                d[k] = v
    d.update(kwargs)
    return d


def b_float(interp: Any, args: List[Any], kwargs: Dict[str, Any]) -> Any:
    (v,) = args
    if isinstance(v, str):
        if v in ("inf", "-inf"):
            return Infinity(v == "inf")
        return Fraction(v)
    if isinstance(v, (bool, int)):
        return Fraction(int(v))
    if isinstance(v, Fraction):
        return v
    if isinstance(v, SV):
        return SV(zreal(v), "real")
    if isinstance(v, SymTensor):
        from . import torchmodel

        return torchmodel.tensor_item(interp, v)
    h = getattr(v, "pyvc_float", None)
    if h is not None:
        return h(interp)
    raise OutOfReach(f"float({type(v).__name__})")


class Infinity:
    def __init__(self, pos: bool):
        self.pos = pos

    def pyvc_compare(self, interp: Any, op: str, a: Any, b: Any) -> Any:
        # only comparisons against finite ints are needed
        if a is self:
            return {"<": not self.pos, "<=": not self.pos, ">": self.pos, ">=": self.pos}[op]
        return {"<": self.pos, "<=": self.pos, ">": not self.pos, ">=": not self.pos}[op]

    def pyvc_equals(self, interp: Any, a: Any, b: Any) -> Any:
        return isinstance(a, Infinity) and isinstance(b, Infinity) and a.pos == b.pos


def t_mentions_tensor(e: Any) -> bool:
    seen = set()
    stack = [e]
    while stack:
        x = stack.pop()
        if x.get_id() in seen:
            continue
        seen.add(x.get_id())
        if x.sort() == tz.T:
            return True
        stack.extend(x.children())
    return False


def b_int(interp: Any, args: List[Any], kwargs: Dict[str, Any]) -> Any:
    (v,) = args
    if isinstance(v, (bool, int)):
        return int(v)
    if isinstance(v, Fraction):
        return int(v)
    if isinstance(v, SV) and v.kind == "int":
        return v
    if isinstance(v, (SV, SymTensor)):
        # truncation towards zero of a symbolic real / of the item of a tensor:  t = trunc(x)
        from . import torchmodel

        x = zreal(torchmodel.tensor_item(interp, v)) if isinstance(v, SymTensor) else zreal(v)
        t = interp.ctx.fresh_int("trunc")
        tz_ = z3.ToReal(t.z)
        interp.ctx.axiom(z3.If(x >= 0, z3.And(tz_ <= x, x < tz_ + 1), z3.And(tz_ >= x, x > tz_ - 1)))
        if isinstance(v, SymTensor) or t_mentions_tensor(x):
            interp.ctx.__dict__.setdefault("data_derived", []).append(t.z)  # a scalar derived from tensor DATA
        return t
    raise OutOfReach("int() of symbolic")


def b_bool(interp: Any, args: List[Any], kwargs: Dict[str, Any]) -> Any:
    (v,) = args
    if isinstance(v, (SB, bool)):
        return v
    return interp.truth(v)


def b_abs(interp: Any, args: List[Any], kwargs: Dict[str, Any]) -> Any:
    (v,) = args
    if is_concrete_num(v):
        return abs(v)
    return mk_num(z3.If(v.z >= 0, v.z, -v.z), v.kind)


def b_minmax(is_max: bool) -> Any:
    def f(interp: Any, args: List[Any], kwargs: Dict[str, Any]) -> Any:
        items = interp.iterate(args[0]) if len(args) == 1 else list(args)
        r = items[0]
        for x in items[1:]:
            c = num_cmp(">" if is_max else "<", x, r)
            if isinstance(c, bool):
                r = x if c else r
            else:
                k = "int" if kind_of(x) == "int" and kind_of(r) == "int" else "real"
                zx, zr = (tz.zint(x), tz.zint(r)) if k == "int" else (zreal(x), zreal(r))
                r = mk_num(z3.If(c.z, zx, zr), k)
        return r

    return f


def b_getattr(interp: Any, args: List[Any], kwargs: Dict[str, Any]) -> Any:
    obj, name = args[0], args[1]
    if not isinstance(name, str):
        if isinstance(name, (int, Fraction, SV, SB, type(None), tuple, list)):
            raise PyRaise("TypeError", "attribute name must be string")
        raise OutOfReach("getattr with a symbolic name")
    if len(args) == 3:
        try:
            return interp.getattr(obj, name)
        except PyRaise as e:
            if e.exc == "AttributeError":
                return args[2]
            raise
    return interp.getattr(obj, name)


def b_hasattr(interp: Any, args: List[Any], kwargs: Dict[str, Any]) -> Any:
    obj, name = args
    try:
        interp.getattr(obj, name)
        return True
    except PyRaise as e:
        if e.exc == "AttributeError":
            return False
        raise


def b_setattr(interp: Any, args: List[Any], kwargs: Dict[str, Any]) -> Any:
    obj, name, v = args
    interp.setattr(obj, name, v)
    return None


def b_callable(interp: Any, args: List[Any], kwargs: Dict[str, Any]) -> Any:
    from .interp import BoundMethod, Builtin, ClassVal, ExtClass, FuncVal, ObjVal

    (v,) = args
    if isinstance(v, (FuncVal, Builtin, BoundMethod, ClassVal, ExtClass)):
        return True
    if isinstance(v, ObjVal):
        return interp.find_method(v, "__call__") is not None
    if hasattr(v, "pyvc_call"):
        return True
    return False


def b_type(interp: Any, args: List[Any], kwargs: Dict[str, Any]) -> Any:
    from .interp import ObjVal, TypeTok

    if len(args) == 1:
        v = args[0]
        if v is None:
            return TypeTok("NoneType")
        if isinstance(v, ObjVal):
            return v.cls
        if isinstance(v, SymTensor):
            return TypeTok("Parameter" if v.is_parameter else "Tensor")
        if isinstance(v, (bool, SB)):
            return TypeTok("bool")
        if isinstance(v, int) or (isinstance(v, SV) and v.kind == "int"):
            return TypeTok("int")
        if isinstance(v, (Fraction, SV)):
            return TypeTok("float")
        raise OutOfReach(f"type() of {type(v).__name__}")
    name, bases, ns = args
    if not isinstance(name, str) or not isinstance(ns, dict):
        raise OutOfReach("3-argument type() with symbolic name")
    from .interp import ClassVal

    mod = next((b.module for b in bases if isinstance(b, ClassVal)), None)
    cv = ClassVal(name, list(bases), mod, name)
    cv.attrs.update(ns)
    return cv


class MapIter:
    """map(f, xs): a ONE-SHOT lazy iterator (a second iteration yields nothing)"""

    def __init__(self, f: Any, xs: Any):
        self.f, self.xs, self.used = f, xs, False

    def _items(self, interp: Any, items: List[Any]) -> List[Any]:
        return [interp.call(self.f, [x], {}) for x in items]

    def pyvc_iter(self, interp: Any) -> List[Any]:
        if self.used:
            return []
        self.used = True
        return self._items(interp, interp.iterate(self.xs))

    def pyvc_generic_loop(self, interp: Any, env: Any) -> List[Any]:
        if self.used:
            return []
        self.used = True
        g = getattr(self.xs, "pyvc_generic_loop", None)
        return self._items(interp, g(interp, env) if g is not None else interp.iterate(self.xs))

    def pyvc_types(self) -> Any:
        return {"map", "Iterable"}


def b_map(interp: Any, args: List[Any], kwargs: Dict[str, Any]) -> Any:
    if len(args) != 2:
        raise OutOfReach("map with several iterables")
    return MapIter(args[0], args[1])


def b_round(interp: Any, args: List[Any], kwargs: Dict[str, Any]) -> Any:
    if all(isinstance(a, (int, Fraction)) for a in args):
        r = round(*args)
        return r
    raise OutOfReach("round() of a symbolic number")


def b_zip(interp: Any, args: List[Any], kwargs: Dict[str, Any]) -> Any:
    return list(zip(*[interp.iterate(a) for a in args]))


def b_enumerate(interp: Any, args: List[Any], kwargs: Dict[str, Any]) -> Any:
    start = args[1] if len(args) > 1 else kwargs.get("start", 0)
    return list(enumerate(interp.iterate(args[0]), start))


def b_reversed(interp: Any, args: List[Any], kwargs: Dict[str, Any]) -> Any:
    return list(reversed(interp.iterate(args[0])))


def b_any(interp: Any, args: List[Any], kwargs: Dict[str, Any]) -> Any:
    return any(interp.truth(x) for x in interp.iterate(args[0]))


def b_all(interp: Any, args: List[Any], kwargs: Dict[str, Any]) -> Any:
    return all(interp.truth(x) for x in interp.iterate(args[0]))


def b_str(interp: Any, args: List[Any], kwargs: Dict[str, Any]) -> Any:
    from .interp import OpaqueStr

    if args and isinstance(args[0], str):
        return args[0]
    return OpaqueStr()


def b_id(interp: Any, args: List[Any], kwargs: Dict[str, Any]) -> Any:
    return id(args[0])


def b_iter_passthrough(interp: Any, args: List[Any], kwargs: Dict[str, Any]) -> Any:
    return interp.iterate(args[0])


def b_cast(interp: Any, args: List[Any], kwargs: Dict[str, Any]) -> Any:
    return args[1]


def make_builtins(interp: Any) -> Dict[str, Any]:
    from .interp import Builtin, TypeTok

    B = Builtin
    d: Dict[str, Any] = {
        "isinstance": B("isinstance", b_isinstance),
        "len": B("len", b_len),
        "sum": B("sum", b_sum),
        "__prod__": B("prod", b_prod),
        "range": B("range", b_range),
        "tuple": TypeTok("tuple", b_tuple),
        "list": TypeTok("list", b_list),
        "dict": TypeTok("dict", b_dict),
        "set": TypeTok("set", lambda it, a, k: set(it.iterate(a[0])) if a else set()),
        "float": TypeTok("float", b_float),
        "int": TypeTok("int", b_int),
        "bool": TypeTok("bool", b_bool),
        "str": TypeTok("str", b_str),
        "abs": B("abs", b_abs),
        "min": B("min", b_minmax(False)),
        "max": B("max", b_minmax(True)),
        "getattr": B("getattr", b_getattr),
        "hasattr": B("hasattr", b_hasattr),
        "setattr": B("setattr", b_setattr),
        "callable": B("callable", b_callable),
        "vars": B("vars", lambda it, a, k: get_attribute(it, a[0], "__dict__")),
        "filter": B("filter", lambda it, a, k: [x for x in it.iterate(a[1]) if it.truth(x if a[0] is None else it.call(a[0], [x], {}))]),
        "repr": B("repr", lambda it, a, k: repr(a[0]) if isinstance(a[0], (str, int, bool, type(None))) else __import__("pyvc.interp", fromlist=["OpaqueStr"]).OpaqueStr()),
        "format": B("format", lambda it, a, k: __import__("pyvc.interp", fromlist=["OpaqueStr"]).OpaqueStr()),
        "slice": B("slice", lambda it, a, k: slice(*a)),
        "delattr": B("delattr", lambda it, a, k: _b_delattr(it, a[0], a[1])),
        "issubclass": B("issubclass", lambda it, a, k: any(n in {getattr(c, "name", str(c)) for c in (a[0].mro() if hasattr(a[0], "mro") else [a[0]])} for n in _type_names(it, a[1]))),
        "type": B("type", b_type),
        "zip": B("zip", b_zip),
        "map": B("map", b_map),
        "round": B("round", b_round),
        "divmod": B("divmod", lambda it, a, k: (it.binop("//", a[0], a[1]), it.binop("%", a[0], a[1]))),
        "pow": B("pow", lambda it, a, k: it.binop("**", a[0], a[1])),
        "frozenset": TypeTok("frozenset", lambda it, a, k: frozenset(it.iterate(a[0])) if a else frozenset()),
        "enumerate": B("enumerate", b_enumerate),
        "reversed": B("reversed", b_reversed),
        "any": B("any", b_any),
        "all": B("all", b_all),
        "id": B("id", b_id),
        "sorted": B("sorted", lambda it, a, k: sorted(it.iterate(a[0]))),
        "iter": B("iter", b_iter_passthrough),
        "print": B("print", lambda it, a, k: None),
        "object": TypeTok("object"),
        "Exception": TypeTok("Exception"),
        "ValueError": TypeTok("ValueError"),
        "TypeError": TypeTok("TypeError"),
        "RuntimeError": TypeTok("RuntimeError"),
        "AssertionError": TypeTok("AssertionError"),
        "NotImplementedError": TypeTok("NotImplementedError"),
        "True": True,
        "False": False,
        "None": None,
        "Ellipsis": Ellipsis,
    }
    return d


# ----------------------------------------------------------------------------------
# attribute protocol


def get_attribute(interp: Any, obj: Any, name: str) -> Any:
    from .interp import BoundMethod, Builtin, ClassVal, ExtClass, FuncVal, ModuleVal, ObjVal, SuperProxy, TypeTok, force

    if isinstance(obj, ModuleVal):
        if name in obj.env.vars:
            return force(obj.env.vars[name])
        if name == "__name__":
            return obj.name
        hook = getattr(obj, "missing", None)
        if hook is not None:
            return hook(interp, name)
        # sub-module of a repo package
        sub = f"{obj.name}.{name}"
        if obj.name.startswith("unit_scaling") and interp.repo.module_path(sub) is not None:
            return interp.get_module(sub)
        raise PyRaise("AttributeError", f"module {obj.name} has no attribute {name}")
    if isinstance(obj, SymTensor):
        from . import torchmodel

        return torchmodel.tensor_attr(interp, obj, name)
    if isinstance(obj, Shape):
        if name == "numel":
            return Builtin("Size.numel", lambda it, a, k: obj.numel(it.ctx))
        raise PyRaise("AttributeError", name)
    if isinstance(obj, ObjVal):
        if name in obj.attrs:
            return obj.attrs[name]
        if name == "__dict__":
            return obj.attrs
        if name == "__class__":
            return obj.cls
        for c in obj.cls.mro():
            if isinstance(c, ClassVal) and name in c.attrs:
                a = c.attrs[name]
                if isinstance(a, FuncVal):
                    decos = a.deco_names()
                    if "staticmethod" in decos:
                        return a
                    if "property" in decos:
                        return interp.call_funcval(a, [obj], {})
                    if "cached_property" in decos:
                        # ASSUMED functools.cached_property: computed on first access, then stored in the
                        # instance __dict__ under the attribute's name (never recomputed)
                        v = interp.call_funcval(a, [obj], {})
                        interp.ctx.effects.append(("cache", id(obj), name))
                        obj.attrs[name] = v
                        return v
                    if "classmethod" in decos:
                        return BoundMethod(obj.cls, a)
                    return BoundMethod(obj, a)
                return a
            if isinstance(c, ExtClass):
                if name in c.methods:
                    return BoundMethod(obj, Builtin(f"{c.name}.{name}", c.methods[name]))
                if name in c.attrs:
                    return c.attrs[name]
                ga = c.methods.get("__getattr__")
                if ga is not None:
                    r = ga(interp, [obj, name], {})
                    if r is not NotImplemented:
                        return r
        raise PyRaise("AttributeError", f"{obj!r} has no attribute {name}")
    if isinstance(obj, (ClassVal, ExtClass)):
        if name == "__new__" and not any(isinstance(c, ExtClass) and "__new__" in c.methods for c in obj.mro()):
            return Builtin("object.__new__", lambda it, a, k: ObjVal(a[0]))
        if name == "__name__":
            return obj.name
        if name == "__module__":
            if "__module__" in obj.attrs:
                return obj.attrs["__module__"]
            if isinstance(obj, ExtClass):
                return "torch.nn.modules." + obj.name.lower()  # ASSUMED: the external classes of the catalogue are torch.nn layers
            return obj.module.name if getattr(obj, "module", None) is not None else "builtins"
        if name == "__qualname__":
            return getattr(obj, "qualname", obj.name)
        if name == "mro":
            return Builtin("mro", lambda it, a, k: obj.mro())
        for c in obj.mro():
            if isinstance(c, ClassVal) and name in c.attrs:
                a = c.attrs[name]
                if isinstance(a, FuncVal) and "classmethod" in a.deco_names():
                    return BoundMethod(obj, a)
                return a
            if isinstance(c, ExtClass):
                if name in c.attrs:
                    return c.attrs[name]
                cm = c.methods.get("classmethod:" + name)
                if cm is not None:
                    return BoundMethod(obj, Builtin(f"{c.name}.{name}", cm))
                if name in c.methods:
                    return Builtin(f"{c.name}.{name}", c.methods[name])
        raise PyRaise("AttributeError", f"{obj!r} has no attribute {name}")
    if isinstance(obj, SuperProxy):
        mro = obj.obj.cls.mro() if isinstance(obj.obj, ObjVal) else obj.obj.mro()
        i = mro.index(obj.after)
        for c in mro[i + 1 :]:
            if isinstance(c, ClassVal) and name in c.attrs:
                a = c.attrs[name]
                return BoundMethod(obj.obj, a) if isinstance(a, FuncVal) else a
            if isinstance(c, ExtClass) and name in c.methods:
                return BoundMethod(obj.obj, Builtin(f"{c.name}.{name}", c.methods[name]))
        if name == "__init__":
            return Builtin("object.__init__", lambda it, a, k: None)
        raise PyRaise("AttributeError", f"super has no attribute {name}")
    if isinstance(obj, FuncVal):
        if name in obj.attrs:
            return obj.attrs[name]
        if name == "__name__":
            return obj.name
        if name == "__qualname__":
            return obj.qualname
        if name == "__get__":
            return Builtin("function.__get__", lambda it, a, k: BoundMethod(a[0], obj))
        if name == "__module__":
            return obj.module.name
        if name == "__doc__":
            return None
        raise PyRaise("AttributeError", name)
    if isinstance(obj, BoundMethod):
        if name == "__self__":
            return obj.obj
        if name == "__func__":
            return obj.func
        return get_attribute(interp, obj.func, name)
    if isinstance(obj, Builtin):
        if name in obj.attrs:
            return obj.attrs[name]
        if name in ("__name__", "__qualname__"):
            return obj.name.rsplit(".", 1)[-1]
        raise PyRaise("AttributeError", name)
    if isinstance(obj, TypeTok):
        if name == "__name__":
            return obj.name
        if name == "__args__" and hasattr(obj, "args"):
            return obj.args
        sub = getattr(obj, "members", {}).get(name)
        if sub is not None:
            return sub
        raise PyRaise("AttributeError", f"{obj.name}.{name}")
    if isinstance(obj, Opaque):
        return Opaque(z3.Const(f"{obj.name}.{name}", tz.V), f"{obj.name}.{name}")
    if isinstance(obj, (dict, list, tuple, set, str)):
        if hasattr(obj, name):
            return getattr(obj, name)
        raise PyRaise("AttributeError", name)
    h = getattr(obj, "pyvc_getattr", None)
    if h is not None:
        return h(interp, name)
    if obj is None:
        raise PyRaise("AttributeError", f"'NoneType' object has no attribute '{name}'")
    raise OutOfReach(f"attribute {name} of {type(obj).__name__}")


def set_attribute(interp: Any, obj: Any, name: str, v: Any) -> None:
    from .interp import ClassVal, FuncVal, ObjVal

    if isinstance(obj, ObjVal):
        if name == "__class__":
            # re-classing an instance in place
            interp.ctx.effects.append(("setattr", obj, name))
            obj.cls = v
            return
        for c in obj.cls.mro():
            sa = getattr(c, "methods", {}).get("__setattr__") if not isinstance(c, ClassVal) else None
            if sa is not None:
                sa(interp, [obj, name, v], {})
                return
        interp.ctx.effects.append(("setattr", obj, name))
        obj.attrs[name] = v
        return
    if isinstance(obj, SymTensor):
        interp.ctx.effects.append(("setattr", obj, name))
        if name == "requires_grad":
            obj.requires_grad = v
        else:
            obj.attrs[name] = v
        return
    if isinstance(obj, (FuncVal, ClassVal)):
        interp.ctx.effects.append(("setattr", obj, name))
        obj.attrs[name] = v
        return
    h = getattr(obj, "pyvc_setattr", None)
    if h is not None:
        h(interp, name, v)
        return
    raise OutOfReach(f"setattr on {type(obj).__name__}")


def get_item(interp: Any, c: Any, k: Any) -> Any:
    from .interp import GenList, ObjVal

    if isinstance(c, Shape):
        return c.getitem(interp.ctx, k)
    if isinstance(c, dict):
        if isinstance(k, (SV, SB)):
            # lookup by a symbolic numeric key: decided key by key (path split on equality)
            for kk in list(c):
                if isinstance(kk, (int, Fraction, SV)) and interp.truth(interp.equals(kk, k)):
                    return c[kk]
            raise PyRaise("KeyError", repr(k))
        for kk in c:
            if interp._key_eq(kk, k):
                return c[kk]
        raise PyRaise("KeyError", repr(k))
    if isinstance(c, (list, tuple, str)):
        if isinstance(k, SV):
            # symbolic index into a concrete sequence: decided position by position (path split)
            if k.kind != "int" or len(c) > 64:
                raise OutOfReach("symbolic index into a concrete sequence")
            n = len(c)
            for i in range(n):
                if interp.truth(interp.equals(k, i)) or interp.truth(interp.equals(k, i - n)):
                    return c[i]
            raise PyRaise("IndexError", "index out of range")
        if isinstance(k, (int, slice)):
            try:
                return c[k]
            except IndexError:
                raise PyRaise("IndexError", "index out of range")
    h = getattr(c, "pyvc_getitem", None)
    if h is not None:
        return h(interp, k)
    if isinstance(c, SymTensor):
        from . import torchmodel

        return torchmodel.tensor_getitem(interp, c, k)
    if isinstance(c, ObjVal):
        m = interp.find_method(c, "__getitem__")
        if m is not None:
            return interp.call(m, [k], {})
    raise OutOfReach(f"subscript of {type(c).__name__} with {type(k).__name__}")


def instantiate(interp: Any, cls: Any, args: List[Any], kwargs: Dict[str, Any]) -> Any:
    from .interp import ClassVal, ExtClass, FuncVal, ObjVal

    # __new__ overrides in external models
    for c in cls.mro():
        if isinstance(c, ExtClass) and "__new__" in c.methods:
            return c.methods["__new__"](interp, [cls] + list(args), kwargs)
        if isinstance(c, ClassVal) and "__new__" in c.attrs:
            raise OutOfReach("__new__ in repo class")
    obj = ObjVal(cls)
    # dataclass support
    if isinstance(cls, ClassVal) and any(_deco_name(d) == "dataclass" for d in cls.decorators):
        _dataclass_init(interp, cls, obj, args, kwargs)
        return obj
    init = None
    for c in cls.mro():
        if isinstance(c, ClassVal) and "__init__" in c.attrs:
            init = c.attrs["__init__"]
            break
        if isinstance(c, ExtClass) and "__init__" in c.methods:
            init = interp_builtin(c, "__init__")
            break
    if init is not None:
        interp.call(init, [obj] + list(args), kwargs)
    elif args or kwargs:
        raise PyRaise("TypeError", f"{cls.name}() takes no arguments")
    return obj


def interp_builtin(c: Any, name: str) -> Any:
    from .interp import Builtin

    return Builtin(f"{c.name}.{name}", c.methods[name])


def _deco_name(d: Any) -> str:
    import ast

    f = d.func if isinstance(d, ast.Call) else d
    return f.attr if isinstance(f, ast.Attribute) else getattr(f, "id", "?")


class FieldSpec:
    """value of dataclasses.field(...)"""

    def __init__(self, kw: Dict[str, Any]):
        self.has_default = "default" in kw
        self.default = kw.get("default")
        self.default_factory = kw.get("default_factory")
        self.init = kw.get("init", True) is not False


def _dataclass_init(interp: Any, cls: Any, obj: Any, args: List[Any], kwargs: Dict[str, Any]) -> None:
    allf = cls.attrs.get("__annotations_order__", [])
    # dataclasses.field(default=..., default_factory=..., init=...): ASSUMED as documented
    specs = {f: cls.attrs[f] for f in allf if isinstance(cls.attrs.get(f), FieldSpec)}
    for f, sp in specs.items():
        if not sp.init:
            obj.attrs[f] = interp.call(sp.default_factory, [], {}) if sp.default_factory is not None else sp.default
    fields = [f for f in allf if not (f in specs and not specs[f].init)]
    if len(args) > len(fields):
        raise PyRaise("TypeError", "too many positional arguments")
    vals = dict(zip(fields, args))
    for k, v in kwargs.items():
        if k not in fields:
            raise PyRaise("TypeError", f"unexpected keyword {k}")
        if k in vals:
            raise PyRaise("TypeError", f"multiple values for {k}")
        vals[k] = v
    for f in fields:
        if f not in vals:
            if f in specs:
                sp = specs[f]
                if sp.default_factory is not None:
                    vals[f] = interp.call(sp.default_factory, [], {})
                elif sp.has_default:
                    vals[f] = sp.default
                else:
                    raise PyRaise("TypeError", f"missing argument {f}")
            elif f in cls.attrs:
                vals[f] = cls.attrs[f]
            else:
                raise PyRaise("TypeError", f"missing argument {f}")
        obj.attrs[f] = vals[f]
    post = cls.attrs.get("__post_init__")
    if post is not None:
        interp.call(post, [obj], {})
