"""Inductive (unbounded) verification conditions for the memoised recursion `recurse` nested in
unit_scaling/transforms/_unit_scale.py::_add_dependency_meta, generated from the real AST.

Domain.  Node = uninterpreted sort.  The graph is an arbitrary well-founded DAG:
    In(n, x)   x is in n.all_input_nodes                       (uninterpreted)
    rank(n)    In(n, p) => 0 <= rank(p) < rank(n)              (well-foundedness = fx topological order)
    Anc(n, x)  <=> In(n, x) or exists p. In(n, p) and Anc(p, x) (the unique solution on a DAG)
Heap.  Python sets are OBJECTS: Ref = Int, heap : Ref -> (Node -> Bool), alloc : Int (next fresh
ref), so that aliasing between a returned memo and a local set is visible.  n.meta["dependencies"]
is (has : Node -> Bool, ref : Node -> Ref); any other meta key is outside the subset (Unsupported).

Contract of recurse(n) (sidecar; nothing in /repo is edited):
    requires Inv(state)      Inv: forall m. has(m) => 0 <= ref(m) < alloc and heap[ref(m)] == Anc(m, .)
                                              and forall x. Anc(m, x) => has(x)
    ensures  heap'[result] == Anc(n, .)  and  has'(n)  and  Inv(state')
    frame    refs < alloc keep their contents; alloc' >= alloc; existing memo entries keep their
             ref; new entries only on n and its ancestors, with refs >= alloc
    decreases rank(n)
The body is executed symbolically statement by statement; a recursive call uses the CONTRACT (and
obliges rank to decrease); the `for parent in n.all_input_nodes` loop is verified by an inductive
invariant over the set Done of parents already visited (arbitrary iteration from an arbitrary
invariant state, then exit with Done == inputs):
    heap[deps] == In(n, .) U  U_{p in Done} Anc(p, .)      (for the local bound by `x = set(n.all_input_nodes)`)
Supported statements: if "dependencies" in X.meta / return X.meta["dependencies"] / name = set(X.all_input_nodes)
/ name = set() / name = recurse(X) / S.update(E) / S.add(X) / X.meta["dependencies"] = E / return E /
for p in X.all_input_nodes: <body>.  Anything else -> Unsupported (the job reports `undecided`,
exit 2; the bounded job keeps covering the function).
ASSUMED: Python set semantics as encoded here (set() allocates, update/add mutate in place, `in`
on a dict); iteration order of all_input_nodes is immaterial (the invariant holds for every Done);
all_input_nodes lists every Node in args/kwargs once (fx contract, validated by bounded/c16_realgraphs.py).
"""
from __future__ import annotations

import ast
import time
from typing import Any, Dict, List, Optional, Tuple

import z3

KEY = "dependencies"


class Unsupported(Exception):
    pass


Node = z3.DeclareSort("FxNodeS")
SetT = z3.ArraySort(Node, z3.BoolSort())
In = z3.Function("In", Node, Node, z3.BoolSort())
Anc = z3.Function("Anc", Node, Node, z3.BoolSort())
rank = z3.Function("rank", Node, z3.IntSort())


def graph_axioms() -> List[Any]:
    n, x, p = z3.Consts("gn gx gp", Node)
    return [
        z3.ForAll([n], rank(n) >= 0),
        z3.ForAll([n, p], z3.Implies(In(n, p), rank(p) < rank(n)), patterns=[In(n, p)]),
        z3.ForAll([n, x], Anc(n, x) == z3.Or(In(n, x), z3.Exists([p], z3.And(In(n, p), Anc(p, x)))), patterns=[Anc(n, x)]),
        # the two directions again in instantiation-friendly form
        z3.ForAll([n, x], z3.Implies(In(n, x), Anc(n, x)), patterns=[In(n, x)]),
        z3.ForAll([n, p, x], z3.Implies(z3.And(In(n, p), Anc(p, x)), Anc(n, x)), patterns=[z3.MultiPattern(In(n, p), Anc(p, x))]),
    ]


class State:
    _k = 0

    def __init__(self, tag: str):
        State._k += 1
        s = f"{tag}{State._k}"
        self.has = z3.Const(f"has_{s}", SetT)
        self.ref = z3.Const(f"ref_{s}", z3.ArraySort(Node, z3.IntSort()))
        self.heap = z3.Const(f"heap_{s}", z3.ArraySort(z3.IntSort(), SetT))
        self.alloc = z3.Const(f"alloc_{s}", z3.IntSort())

    def copy(self) -> "State":
        t = State.__new__(State)
        t.has, t.ref, t.heap, t.alloc = self.has, self.ref, self.heap, self.alloc
        return t


def inv(s: State) -> Any:
    m, x = z3.Consts("im ix", Node)
    return z3.ForAll(
        [m],
        z3.Implies(
            s.has[m],
            z3.And(
                s.ref[m] >= 0,
                s.ref[m] < s.alloc,
                z3.ForAll([x], s.heap[s.ref[m]][x] == Anc(m, x)),
                z3.ForAll([x], z3.Implies(Anc(m, x), s.has[x])),
            ),
        ),
    )


def frame(s0: State, s1: State, n: Any) -> Any:
    """what a call recurse(n) may change between s0 and s1"""
    r = z3.Int("fr")
    m = z3.Const("fm", Node)
    return z3.And(
        s1.alloc >= s0.alloc,
        z3.ForAll([r], z3.Implies(z3.And(r >= 0, r < s0.alloc), s1.heap[r] == s0.heap[r])),
        z3.ForAll([m], z3.Implies(s0.has[m], z3.And(s1.has[m], s1.ref[m] == s0.ref[m]))),
        z3.ForAll([m], z3.Implies(z3.And(s1.has[m], z3.Not(s0.has[m])), z3.And(z3.Or(m == n, Anc(n, m)), s1.ref[m] >= s0.alloc))),
    )


def post(s0: State, s1: State, n: Any, result: Any) -> Dict[str, Any]:
    x = z3.Const("px", Node)
    return {
        "result_is_a_live_set": z3.And(result >= 0, result < s1.alloc),
        "result==ancestors": z3.ForAll([x], s1.heap[result][x] == Anc(n, x)),
        "memo_recorded": s1.has[n],
        "memo_invariant_preserved": inv(s1),
        "frame": frame(s0, s1, n),
    }


class VC:
    def __init__(self, tag: str):
        self.tag = tag
        self.obs: List[Tuple[str, List[Any], Any]] = []  # (name, hypotheses, goal)
        self.base = graph_axioms()

    def oblige(self, name: str, hyps: List[Any], goal: Any) -> None:
        self.obs.append((name, list(hyps), goal))


class Path:
    def __init__(self, vc: VC, st: State, hyps: List[Any], env: Dict[str, Tuple[str, Any]]):
        self.vc, self.st, self.hyps, self.env = vc, st, hyps, env
        self.returned: Optional[Any] = None

    def fork(self) -> "Path":
        p = Path(self.vc, self.st.copy(), list(self.hyps), dict(self.env))
        return p


def _is_meta_sub(e: ast.AST) -> Optional[str]:
    """X.meta["dependencies"] -> name of X"""
    if isinstance(e, ast.Subscript) and isinstance(e.value, ast.Attribute) and e.value.attr == "meta" and isinstance(e.value.value, ast.Name):
        k = e.slice
        if isinstance(k, ast.Constant) and k.value == KEY:
            return e.value.value.id
        raise Unsupported(f"meta key other than {KEY!r}: {ast.unparse(e)}")
    return None


def _inputs_of(e: ast.AST) -> Optional[str]:
    if isinstance(e, ast.Attribute) and e.attr == "all_input_nodes" and isinstance(e.value, ast.Name):
        return e.value.id
    return None


class Exec:
    """symbolic execution of the body of `recurse` over the heap model"""

    def __init__(self, vc: VC, fname: str, param: str):
        self.vc, self.fname, self.param = vc, fname, param
        self.n0: Any = None
        self.s0: Optional[State] = None
        self.ncalls = 0
        self.nloops = 0

    def node(self, p: Path, name: str) -> Any:
        kind, v = p.env.get(name, (None, None))
        if kind != "node":
            raise Unsupported(f"{name} is not a node-valued local")
        return v

    def eval_ref(self, p: Path, e: ast.AST) -> Any:
        """evaluate a set-valued expression to a reference"""
        if isinstance(e, ast.Name):
            kind, v = p.env.get(e.id, (None, None))
            if kind != "ref":
                raise Unsupported(f"{e.id} is not a set-valued local")
            return v
        x = _is_meta_sub(e)
        if x is not None:
            n = self.node(p, x)
            self.vc.oblige(f"no_KeyError[line {e.lineno}]", p.hyps, p.st.has[n])
            return p.st.ref[n]
        if isinstance(e, ast.Call) and isinstance(e.func, ast.Name):
            if e.func.id == "set" and not e.keywords and len(e.args) <= 1:
                r = p.st.alloc
                if not e.args:
                    content = z3.K(Node, z3.BoolVal(False))
                else:
                    src = _inputs_of(e.args[0])
                    if src is not None:
                        n = self.node(p, src)
                        x_ = z3.Const("sx", Node)
                        content = z3.Lambda([x_], In(n, x_))
                    else:
                        other = self.eval_ref(p, e.args[0])  # set(S): a copy
                        content = p.st.heap[other]
                st = p.st.copy()
                st.heap = z3.Store(p.st.heap, r, content)
                st.alloc = p.st.alloc + 1
                p.st = st
                return r
            if e.func.id == self.fname and len(e.args) == 1 and not e.keywords and isinstance(e.args[0], ast.Name):
                return self.call_contract(p, self.node(p, e.args[0].id), e.lineno)
        raise Unsupported(f"expression outside the subset: {ast.unparse(e)}")

    def call_contract(self, p: Path, arg: Any, line: int) -> Any:
        self.ncalls += 1
        self.vc.oblige(f"recursive_call_decreases_rank[line {line}]", p.hyps, rank(arg) < rank(self.n0))
        self.vc.oblige(f"recursive_call_precondition_memo_invariant[line {line}]", p.hyps, inv(p.st))
        s1 = State("call")
        res = z3.FreshInt("res")
        for g in post(p.st, s1, arg, res).values():
            p.hyps.append(g)
        p.st = s1
        return res

    def exec_block(self, paths: List[Path], body: List[ast.stmt]) -> List[Path]:
        for s in body:
            nxt: List[Path] = []
            for p in paths:
                if p.returned is not None:
                    nxt.append(p)
                else:
                    nxt += self.exec_stmt(p, s)
            paths = nxt
        return paths

    def test(self, p: Path, t: ast.AST) -> Any:
        if isinstance(t, ast.Compare) and len(t.ops) == 1 and isinstance(t.ops[0], (ast.In, ast.NotIn)) and isinstance(t.left, ast.Constant):
            c = t.comparators[0]
            if isinstance(c, ast.Attribute) and c.attr == "meta" and isinstance(c.value, ast.Name):
                if t.left.value != KEY:
                    raise Unsupported(f"meta key other than {KEY!r}")
                b = p.st.has[self.node(p, c.value.id)]
                return z3.Not(b) if isinstance(t.ops[0], ast.NotIn) else b
        if isinstance(t, ast.UnaryOp) and isinstance(t.op, ast.Not):
            return z3.Not(self.test(p, t.operand))
        raise Unsupported(f"test outside the subset: {ast.unparse(t)}")

    def exec_stmt(self, p: Path, s: ast.stmt) -> List[Path]:
        if isinstance(s, ast.If):
            c = self.test(p, s.test)
            a, b = p.fork(), p.fork()
            a.hyps.append(c)
            b.hyps.append(z3.Not(c))
            return self.exec_block([a], s.body) + self.exec_block([b], s.orelse)
        if isinstance(s, ast.Return):
            if s.value is None:
                raise Unsupported("return without a value")
            p.returned = self.eval_ref(p, s.value)
            return [p]
        if isinstance(s, (ast.Assign, ast.AnnAssign)):
            tgt = s.targets[0] if isinstance(s, ast.Assign) else s.target
            if isinstance(s, ast.Assign) and len(s.targets) != 1 or s.value is None:
                raise Unsupported("multiple assignment")
            if isinstance(tgt, ast.Name):
                p.env[tgt.id] = ("ref", self.eval_ref(p, s.value))
                if isinstance(s.value, ast.Call) and isinstance(s.value.func, ast.Name) and s.value.func.id == "set" and s.value.args and _inputs_of(s.value.args[0]) is not None:
                    p.env["$base:" + tgt.id] = ("node", self.node(p, _inputs_of(s.value.args[0])))
                else:
                    p.env.pop("$base:" + tgt.id, None)
                return [p]
            x = _is_meta_sub(tgt)
            if x is not None:
                n = self.node(p, x)
                r = self.eval_ref(p, s.value)
                st = p.st.copy()
                st.has = z3.Store(p.st.has, n, z3.BoolVal(True))
                st.ref = z3.Store(p.st.ref, n, r)
                p.st = st
                return [p]
            raise Unsupported(f"assignment target outside the subset: {ast.unparse(tgt)}")
        if isinstance(s, ast.Expr) and isinstance(s.value, ast.Call) and isinstance(s.value.func, ast.Attribute) and isinstance(s.value.func.value, ast.Name):
            c = s.value
            recv = self.eval_ref(p, c.func.value)
            if c.func.attr == "update" and len(c.args) == 1 and not c.keywords:
                src = _inputs_of(c.args[0])
                if src is not None:
                    x_ = z3.Const("ux", Node)
                    other_content = z3.Lambda([x_], In(self.node(p, src), x_))
                else:
                    other = self.eval_ref(p, c.args[0])
                    other_content = p.st.heap[other]
                x_ = z3.Const("uy", Node)
                st = p.st.copy()
                st.heap = z3.Store(p.st.heap, recv, z3.Lambda([x_], z3.Or(p.st.heap[recv][x_], other_content[x_])))
                p.st = st
                return [p]
            if c.func.attr == "add" and len(c.args) == 1 and isinstance(c.args[0], ast.Name):
                st = p.st.copy()
                st.heap = z3.Store(p.st.heap, recv, z3.Store(p.st.heap[recv], self.node(p, c.args[0].id), z3.BoolVal(True)))
                p.st = st
                return [p]
            raise Unsupported(f"call outside the subset: {ast.unparse(s)}")
        if isinstance(s, ast.Expr) and isinstance(s.value, ast.Call):
            self.eval_ref(p, s.value)  # e.g. a bare recurse(parent)
            return [p]
        if isinstance(s, ast.For):
            return self.exec_for(p, s)
        if isinstance(s, ast.Pass):
            return [p]
        raise Unsupported(f"statement outside the subset: {ast.unparse(s)[:80]}")

    def loop_inv(self, p: Path, st: State, entry: State, done: Any, n: Any, sets: Dict[str, Tuple[Any, Optional[Any]]]) -> Dict[str, Any]:
        """the inductive invariant of `for parent in n.all_input_nodes` (sidecar contract)"""
        x, q = z3.Consts("lx lq", Node)
        m = z3.Const("lm", Node)
        r = z3.Int("lr")
        out: Dict[str, Any] = {
            "done_are_inputs": z3.ForAll([q], z3.Implies(done[q], In(n, q))),
            "memo_invariant": inv(st),
            "visited_parents_have_a_memo": z3.ForAll([q], z3.Implies(done[q], st.has[q])),
            "alloc_monotone": st.alloc >= entry.alloc,
            "old_memo_kept": z3.ForAll([m], z3.Implies(entry.has[m], z3.And(st.has[m], st.ref[m] == entry.ref[m]))),
            "new_memo_only_on_ancestors_with_fresh_refs": z3.ForAll([m], z3.Implies(z3.And(st.has[m], z3.Not(entry.has[m])), z3.And(Anc(n, m), st.ref[m] >= entry.alloc))),
        }
        for name, (ref, base) in sorted(sets.items()):
            out[f"{name}_is_a_live_set"] = z3.And(ref >= 0, ref < entry.alloc)
            if base is not None:
                out[f"{name}==inputs_U_ancestors_of_visited_parents"] = z3.ForAll(
                    [x], st.heap[ref][x] == z3.Or(In(base, x), z3.Exists([q], z3.And(done[q], Anc(q, x))))
                )
            else:
                out[f"{name}_unchanged"] = st.heap[ref] == entry.heap[ref]
            out[f"{name}_not_aliased_by_a_memo"] = z3.ForAll([m], z3.Implies(st.has[m], st.ref[m] != ref))
        # sets allocated before the loop (other than the tracked locals) keep their contents
        tracked = [ref for ref, _ in sets.values()]
        out["other_sets_unchanged"] = z3.ForAll([r], z3.Implies(z3.And(r >= 0, r < entry.alloc, *[r != t for t in tracked]), st.heap[r] == entry.heap[r]))
        return out

    def exec_for(self, p: Path, s: ast.For) -> List[Path]:
        src = _inputs_of(s.iter)
        if src is None or not isinstance(s.target, ast.Name) or s.orelse:
            raise Unsupported(f"loop outside the subset: for {ast.unparse(s.target)} in {ast.unparse(s.iter)}")
        self.nloops += 1
        k = self.nloops
        n = self.node(p, src)
        entry = p.st
        sets = {nm: (v, (p.env.get("$base:" + nm) or (None, None))[1]) for nm, (kind, v) in p.env.items() if kind == "ref"}
        for nm, (_, base) in sets.items():
            if base is not None and not z3.eq(base, n):
                raise Unsupported("set built from another node's inputs carried into the loop")
        empty = z3.K(Node, z3.BoolVal(False))
        # initiation
        for cname, g in self.loop_inv(p, entry, entry, empty, n, sets).items():
            self.vc.oblige(f"loop{k}_invariant_holds_on_entry:{cname}", p.hyps, g)
        # arbitrary iteration
        st = State("loop")
        done = z3.Const(f"done_{k}", SetT)
        it = p.fork()
        it.st = st
        parent = z3.Const(f"parent_{k}", Node)
        it.hyps += list(self.loop_inv(p, st, entry, done, n, sets).values()) + [In(n, parent), z3.Not(done[parent])]
        it.env[s.target.id] = ("node", parent)
        outs = self.exec_block([it], s.body)
        done2 = z3.Store(done, parent, z3.BoolVal(True))
        for o in outs:
            if o.returned is not None:
                raise Unsupported("return inside the loop")
            sets_o = {nm: (v, (o.env.get("$base:" + nm) or (None, None))[1]) for nm, (kind, v) in o.env.items() if kind == "ref" and nm in sets}
            for nm in sets:
                if nm not in sets_o or not z3.eq(sets_o[nm][0], sets[nm][0]):
                    raise Unsupported(f"set-valued local {nm} rebound inside the loop")
            for cname, g in self.loop_inv(o, o.st, entry, done2, n, sets).items():
                self.vc.oblige(f"loop{k}_invariant_preserved_by_an_arbitrary_iteration:{cname}", o.hyps, g)
        # exit: every input visited
        ex = p.fork()
        st2 = State("exit")
        done3 = z3.Const(f"doneall_{k}", SetT)
        q = z3.Const("eq", Node)
        ex.st = st2
        ex.hyps += list(self.loop_inv(p, st2, entry, done3, n, sets).values()) + [z3.ForAll([q], done3[q] == In(n, q))]
        return [ex]


def find_nested(tree: ast.Module, outer: str, inner: str) -> ast.FunctionDef:
    for d in tree.body:
        if isinstance(d, ast.FunctionDef) and d.name == outer:
            for e in d.body:
                if isinstance(e, ast.FunctionDef) and e.name == inner:
                    return e
    raise Unsupported(f"{outer}.{inner} not found (renamed or restructured)")


def generate(tree: ast.Module, outer: str = "_add_dependency_meta", inner: str = "recurse") -> Tuple[VC, Exec]:
    fn = find_nested(tree, outer, inner)
    if len(fn.args.args) != 1 or fn.args.vararg or fn.args.kwarg or fn.args.kwonlyargs or fn.decorator_list:
        raise Unsupported("signature of recurse changed")
    vc = VC(f"{outer}.{inner}")
    ex = Exec(vc, inner, fn.args.args[0].arg)
    s0 = State("pre")
    n0 = z3.Const("n", Node)
    ex.n0, ex.s0 = n0, s0
    p = Path(vc, s0.copy(), [inv(s0), s0.alloc >= 0], {fn.args.args[0].arg: ("node", n0)})
    outs = ex.exec_block([p], [s for s in fn.body if not (isinstance(s, ast.Expr) and isinstance(s.value, ast.Constant))])
    for i, o in enumerate(outs):
        if o.returned is None:
            vc.oblige(f"path{i}:returns_a_set", o.hyps, z3.BoolVal(False))
            continue
        for cname, g in post(s0, o.st, n0, o.returned).items():
            vc.oblige(f"path{i}:{cname}", o.hyps, g)
    return vc, ex


def discharge(vc: VC, timeout_ms: int = 8000) -> List[Dict[str, Any]]:
    res = []
    for name, hyps, goal in vc.obs:
        t0 = time.time()
        status, solver, model = "undecided", "z3", None
        for attempt in ("default", "mbqi-off"):
            s = z3.Solver()
            s.set("timeout", timeout_ms)
            if attempt == "mbqi-off":
                s.set("smt.mbqi", False)
            s.add(*vc.base)
            s.add(*hyps)
            s.add(z3.Not(goal))
            r = s.check()
            if r == z3.unsat:
                status, solver = "discharged", f"z3 {z3.get_version_string()} ({attempt})"
                break
            if r == z3.sat and attempt == "default":
                status, solver = "violated", f"z3 {z3.get_version_string()} ({attempt})"
                try:
                    model = str(s.model())[:1500]
                except Exception:
                    model = None
                break
        res.append({"name": name, "status": status, "solver": solver, "time_s": round(time.time() - t0, 3), "model": model})
    return res


def vacuity(vc: VC, hyps: List[Any], timeout_ms: int = 10000) -> str:
    s = z3.Solver()
    s.set("timeout", timeout_ms)
    s.add(*vc.base)
    s.add(*hyps)
    return str(s.check())
