"""pyvc.interp -- symbolic executor over the Python AST of the real repository source.

The executor re-reads /repo on every run (`Repo`), never keeps a copy of any function
body, and evaluates one path per run: symbolic branch conditions are decided by a
decision list (`Ctx.branch`), alternatives are queued by the explorer (`explore`).

What is dropped/abstracted (printed in evidence, DESIGN §2.1): docstrings, annotations,
decorators (recorded, not executed), `logger.*` calls, f-string contents (opaque string),
generator expressions are evaluated eagerly, default-argument expressions are evaluated
at call time.
"""
from __future__ import annotations

import ast
import hashlib
import os
from fractions import Fraction
from typing import Any, Callable, Dict, List, Optional, Sequence, Tuple

import z3

from .sym import (
    SB,
    SV,
    Ctx,
    OutOfReach,
    PathCut,
    PyRaise,
    bool_not,
    is_concrete_num,
    kind_of,
    mk_bool,
    num_binop,
    num_cmp,
    num_neg,
    zreal,
)
from . import tensor as tz
from .tensor import Opaque, Shape, SymTensor

REPO = os.environ.get("VERIF_REPO", "/repo")
SYMBOLIC_UNROLL = 6  # iterations of a while loop whose test is symbolic, per path

_BINOPS = {
    ast.Add: "+",
    ast.Sub: "-",
    ast.Mult: "*",
    ast.Div: "/",
    ast.FloorDiv: "//",
    ast.Mod: "%",
    ast.Pow: "**",
    ast.LShift: "<<",
    ast.RShift: ">>",
    ast.BitAnd: "&",
    ast.BitOr: "|",
    ast.BitXor: "^",
    ast.MatMult: "@",
}
_CMPOPS = {ast.Eq: "==", ast.NotEq: "!=", ast.Lt: "<", ast.LtE: "<=", ast.Gt: ">", ast.GtE: ">="}


# ----------------------------------------------------------------------------------
# values


class Env:
    def __init__(self, parent: Optional["Env"] = None, vars: Optional[Dict[str, Any]] = None):
        self.parent = parent
        self.vars: Dict[str, Any] = vars if vars is not None else {}

    def lookup(self, name: str) -> Any:
        e: Optional[Env] = self
        while e is not None:
            if name in e.vars:
                return e.vars[name]
            e = e.parent
        raise KeyError(name)

    def has(self, name: str) -> bool:
        try:
            self.lookup(name)
            return True
        except KeyError:
            return False


class ModuleVal:
    def __init__(self, name: str, path: Optional[str] = None):
        self.name = name
        self.path = path
        self.env = Env()
        self.tree: Optional[ast.Module] = None
        self.source = ""
        self.loaded = False

    def __repr__(self) -> str:
        return f"ModuleVal<{self.name}>"


class FuncVal:
    def __init__(self, node: Any, env: Env, module: ModuleVal, qualname: str, cls: Any = None):
        self.node = node
        self.env = env
        self.module = module
        self.qualname = qualname
        self.cls = cls
        self.decorators: List[ast.expr] = list(getattr(node, "decorator_list", []))
        self.attrs: Dict[str, Any] = {}

    @property
    def name(self) -> str:
        return self.qualname.rsplit(".", 1)[-1]

    def deco_names(self) -> List[str]:
        out = []
        for d in self.decorators:
            f = d.func if isinstance(d, ast.Call) else d
            out.append(f.attr if isinstance(f, ast.Attribute) else getattr(f, "id", "?"))
        return out

    def __repr__(self) -> str:
        return f"FuncVal<{self.qualname}>"


class ClassVal:
    def __init__(self, name: str, bases: List[Any], module: ModuleVal, qualname: str):
        self.name = name
        self.bases = bases
        self.module = module
        self.qualname = qualname
        self.attrs: Dict[str, Any] = {}
        self.decorators: List[ast.expr] = []
        self.node: Any = None

    def mro(self) -> List[Any]:
        out: List[Any] = [self]
        for b in self.bases:
            for c in b.mro() if isinstance(b, (ClassVal, ExtClass)) else [b]:
                if c not in out:
                    out.append(c)
        return out

    def __repr__(self) -> str:
        return f"ClassVal<{self.qualname}>"


class ExtClass:
    """A class of an external library, modelled in the trusted catalogue."""

    def __init__(self, name: str, bases: Sequence["ExtClass"] = (), methods: Optional[Dict[str, Callable[..., Any]]] = None):
        self.name = name
        self.bases = list(bases)
        self.methods = methods or {}
        self.attrs: Dict[str, Any] = {}

    def mro(self) -> List[Any]:
        out: List[Any] = [self]
        for b in self.bases:
            for c in b.mro():
                if c not in out:
                    out.append(c)
        return out

    def __repr__(self) -> str:
        return f"ExtClass<{self.name}>"


class ObjVal:
    def __init__(self, cls: Any):
        self.cls = cls
        self.attrs: Dict[str, Any] = {}
        self.oid = next(tz.Storage._ids)

    def __repr__(self) -> str:
        return f"ObjVal<{getattr(self.cls, 'name', self.cls)}#{self.oid}>"


class BoundMethod:
    def __init__(self, obj: Any, func: Any):
        self.obj = obj
        self.func = func

    def __repr__(self) -> str:
        return f"BoundMethod<{self.obj!r}.{getattr(self.func, 'qualname', self.func)}>"


class Builtin:
    """A modelled external function. fn(interp, args, kwargs)."""

    def __init__(self, name: str, fn: Callable[..., Any]):
        self.name = name
        self.fn = fn
        self.attrs: Dict[str, Any] = {}

    def __repr__(self) -> str:
        return f"Builtin<{self.name}>"


class TypeTok:
    """A type used only for isinstance tests / constructors."""

    def __init__(self, name: str, ctor: Optional[Callable[..., Any]] = None):
        self.name = name
        self.ctor = ctor

    def pyvc_equals(self, interp: Any, a: Any, b: Any) -> Any:
        return a is b or (isinstance(a, TypeTok) and isinstance(b, TypeTok) and a.name == b.name) or (getattr(a, "name", 0) == getattr(b, "name", 1))

    def __repr__(self) -> str:
        return f"TypeTok<{self.name}>"


class SuperProxy:
    def __init__(self, obj: Any, after: Any):
        self.obj = obj
        self.after = after


class OpaqueStr:
    """An f-string or otherwise uninterpreted string (messages)."""

    def __repr__(self) -> str:
        return "OpaqueStr"


class _Return(Exception):
    def __init__(self, value: Any):
        self.value = value


class _Break(Exception):
    pass


class _Continue(Exception):
    pass


# ----------------------------------------------------------------------------------


OVERLAY: Dict[str, str] = {}  # module name -> mutated source (canaries only)


class Repo:
    """Reads the current working tree of /repo (plus the in-memory canary overlay)."""

    def __init__(self, root: str = REPO):
        self.root = root
        self.cache: Dict[str, Tuple[str, ast.Module]] = {}

    def module_path(self, modname: str) -> Optional[str]:
        rel = modname.replace(".", "/")
        for cand in (rel + ".py", rel + "/__init__.py"):
            p = os.path.join(self.root, cand)
            if os.path.exists(p):
                return p
        return None

    def load(self, modname: str) -> Tuple[str, ast.Module]:
        if modname not in self.cache:
            p = self.module_path(modname)
            if p is None:
                raise OutOfReach(f"repo module {modname} not found")
            src = OVERLAY.get(modname) or open(p).read()
            self.cache[modname] = (src, ast.parse(src, p))
        return self.cache[modname]

    def function_hash(self, modname: str, qual: str) -> str:
        src, tree = self.load(modname)
        node = find_def(tree, qual.split("."))
        seg = ast.get_source_segment(src, node) or ""
        return hashlib.sha256(seg.encode()).hexdigest()[:16]


def find_def(tree: ast.AST, path: List[str]) -> Any:
    cur: Any = tree
    for name in path:
        found = None
        for n in ast.walk(cur) if cur is not tree else cur.body:  # type: ignore[attr-defined]
            if isinstance(n, (ast.FunctionDef, ast.ClassDef)) and n.name == name and n is not cur:
                found = n
                break
        if found is None:
            raise OutOfReach(f"definition {'.'.join(path)} not found")
        cur = found
    return cur


class Interp:
    def __init__(
        self,
        ctx: Ctx,
        repo: Optional[Repo] = None,
        contracts: Optional[Dict[str, Callable[..., Any]]] = None,
        inline: Sequence[str] = (),
        verifying: Sequence[str] = (),
        externals: Optional[Callable[["Interp", str], Any]] = None,
    ):
        self.ctx = ctx
        self.repo = repo or Repo()
        self.contracts = contracts or {}
        self.inline = set(inline)
        self.verifying = set(verifying)
        self.modules: Dict[str, ModuleVal] = {}
        self.externals = externals
        self.calls: List[Tuple[str, List[Any], Dict[str, Any]]] = []  # log of contract calls
        self.inlined_used: set = set()
        self.contracts_used: set = set()
        self.depth = 0
        from . import builtins_model

        self.builtins = builtins_model.make_builtins(self)

    # ------------------------------------------------------------------ modules
    def get_module(self, name: str) -> Any:
        if name in self.modules:
            m = self.modules[name]
            if not m.loaded:
                pass
            return m
        if name == "unit_scaling" or name.startswith("unit_scaling."):
            path = self.repo.module_path(name)
            if path is None:
                raise OutOfReach(f"repo module {name} not found")
            m = ModuleVal(name, path)
            self.modules[name] = m
            src, tree = self.repo.load(name)
            m.source, m.tree = src, tree
            m.env.vars["__name__"] = name
            self._exec_module(m)
            m.loaded = True
            return m
        if self.externals is not None:
            ext = self.externals(self, name)
            if ext is not None:
                self.modules[name] = ext
                return ext
        raise OutOfReach(f"unmodelled external module {name}")

    def _exec_module(self, m: ModuleVal) -> None:
        assert m.tree is not None
        for stmt in m.tree.body:
            try:
                self._exec_toplevel(m, stmt)
            except OutOfReach as e:
                # leave the names bound to a marker that fails closed on use
                for tgt in _assigned_names(stmt):
                    m.env.vars[tgt] = Unevaluated(f"{m.name}.{tgt}: {e}")

    def _exec_toplevel(self, m: ModuleVal, stmt: ast.stmt) -> None:
        if isinstance(stmt, ast.Expr) and isinstance(stmt.value, ast.Constant):
            return  # docstring
        if isinstance(stmt, (ast.Import, ast.ImportFrom)):
            self._exec_import(m, stmt, m.env)
            return
        if isinstance(stmt, ast.FunctionDef):
            m.env.vars[stmt.name] = FuncVal(stmt, m.env, m, stmt.name)
            return
        if isinstance(stmt, ast.ClassDef):
            m.env.vars[stmt.name] = self._make_class(stmt, m.env, m, stmt.name)
            return
        if isinstance(stmt, (ast.Assign, ast.AnnAssign)):
            names = _assigned_names(stmt)
            # a few module-level assignments are executed lazily on first use
            for n in names:
                m.env.vars[n] = LazyTop(self, m, stmt, n)
            return
        if isinstance(stmt, ast.If):
            return  # TYPE_CHECKING blocks etc.
        raise OutOfReach(f"top-level statement {type(stmt).__name__} in {m.name}")

    def _exec_import(self, m: ModuleVal, stmt: Any, env: Env) -> None:
        if isinstance(stmt, ast.Import):
            for a in stmt.names:
                top = a.name if a.asname else a.name.split(".")[0]
                env.vars[a.asname or top] = LazyModule(self, a.name if a.asname else top)
            return
        mod = stmt.module or ""
        if stmt.level:
            pkg = m.name.split(".")
            is_pkg = m.path is not None and m.path.endswith("__init__.py")
            base = pkg if is_pkg else pkg[:-1]
            base = base[: len(base) - (stmt.level - 1)]
            mod = ".".join(base + ([mod] if mod else []))
        for a in stmt.names:
            env.vars[a.asname or a.name] = LazyImport(self, mod, a.name)

    def _make_class(self, node: ast.ClassDef, env: Env, m: ModuleVal, qual: str) -> ClassVal:
        bases = [force(self.eval(b, env)) for b in node.bases]
        cv = ClassVal(node.name, bases, m, qual)
        cv.node = node
        cv.decorators = list(node.decorator_list)
        cenv = Env(env, cv.attrs)
        for st in node.body:
            if isinstance(st, ast.Expr) and isinstance(st.value, ast.Constant):
                continue
            if isinstance(st, ast.FunctionDef):
                cv.attrs[st.name] = FuncVal(st, env, m, f"{qual}.{st.name}", cls=cv)
            elif isinstance(st, ast.ClassDef):
                cv.attrs[st.name] = self._make_class(st, cenv, m, f"{qual}.{st.name}")
            elif isinstance(st, ast.AnnAssign):
                if st.value is not None and isinstance(st.target, ast.Name):
                    cv.attrs[st.target.id] = self.eval(st.value, cenv)
                elif isinstance(st.target, ast.Name):
                    cv.attrs.setdefault("__annotations_order__", []).append(st.target.id)
                    continue
                if isinstance(st.target, ast.Name):
                    cv.attrs.setdefault("__annotations_order__", []).append(st.target.id)
            elif isinstance(st, ast.Assign):
                v = self.eval(st.value, cenv)
                for t in st.targets:
                    if isinstance(t, ast.Name):
                        cv.attrs[t.id] = v
            elif isinstance(st, ast.Pass):
                pass
            else:
                raise OutOfReach(f"class body statement {type(st).__name__}")
        return cv

    # ------------------------------------------------------------------ lookup
    def lookup(self, name: str, env: Env) -> Any:
        try:
            return force(env.lookup(name))
        except KeyError:
            pass
        if name in self.builtins:
            return self.builtins[name]
        import builtins as _b

        if hasattr(_b, name):
            raise OutOfReach(f"python builtin `{name}` is not modelled")  # a gap of the executor, not a NameError
        raise PyRaise("NameError", name)

    # ------------------------------------------------------------------ statements
    def exec_block(self, stmts: Sequence[ast.stmt], env: Env) -> None:
        for s in stmts:
            self.exec(s, env)

    def exec(self, s: ast.stmt, env: Env) -> None:
        m = getattr(self, "x_" + type(s).__name__, None)
        if m is None:
            raise OutOfReach(f"statement {type(s).__name__} (line {getattr(s, 'lineno', '?')})")
        m(s, env)

    def x_Expr(self, s: ast.Expr, env: Env) -> None:
        if isinstance(s.value, ast.Constant):
            return
        if _is_logger_call(s.value):
            return
        self.eval(s.value, env)

    def x_Pass(self, s: ast.Pass, env: Env) -> None:
        pass

    def x_Return(self, s: ast.Return, env: Env) -> None:
        raise _Return(self.eval(s.value, env) if s.value is not None else None)

    def x_Break(self, s: ast.Break, env: Env) -> None:
        raise _Break()

    def x_Continue(self, s: ast.Continue, env: Env) -> None:
        raise _Continue()

    def x_Import(self, s: ast.Import, env: Env) -> None:
        self._exec_import(self._cur_module(env), s, env)

    def x_ImportFrom(self, s: ast.ImportFrom, env: Env) -> None:
        self._exec_import(self._cur_module(env), s, env)

    def _cur_module(self, env: Env) -> ModuleVal:
        name = env.lookup("__name__")
        return self.modules[name]

    def x_FunctionDef(self, s: ast.FunctionDef, env: Env) -> None:
        outer = env.vars.get("__qualname__", "")
        q = f"{outer}.<locals>.{s.name}" if outer else s.name
        env.vars[s.name] = FuncVal(s, env, self._cur_module(env), q)

    def x_ClassDef(self, s: ast.ClassDef, env: Env) -> None:
        outer = env.vars.get("__qualname__", "")
        q = f"{outer}.<locals>.{s.name}" if outer else s.name
        env.vars[s.name] = self._make_class(s, env, self._cur_module(env), q)

    def x_Assign(self, s: ast.Assign, env: Env) -> None:
        v = self.eval(s.value, env)
        for t in s.targets:
            self.assign(t, v, env)

    def x_AnnAssign(self, s: ast.AnnAssign, env: Env) -> None:
        if s.value is not None:
            self.assign(s.target, self.eval(s.value, env), env)

    def x_AugAssign(self, s: ast.AugAssign, env: Env) -> None:
        op = _BINOPS[type(s.op)]
        if isinstance(s.target, ast.Name):
            cur = self.lookup(s.target.id, env)
        elif isinstance(s.target, ast.Attribute):
            cur = self.getattr(self.eval(s.target.value, env), s.target.attr)
        elif isinstance(s.target, ast.Subscript):
            cur = self.getitem(self.eval(s.target.value, env), self.eval_index(s.target.slice, env))
        else:
            raise OutOfReach("augassign target")
        rhs = self.eval(s.value, env)
        new = self.binop(op, cur, rhs, inplace=True)
        self.assign(s.target, new, env)

    def x_Delete(self, s: ast.Delete, env: Env) -> None:
        for t in s.targets:
            if isinstance(t, ast.Subscript):
                c = self.eval(t.value, env)
                k = self.eval_index(t.slice, env)
                if isinstance(c, dict):
                    del c[k]
                    continue
            raise OutOfReach("del target")

    def x_If(self, s: ast.If, env: Env) -> None:
        if self.truth(self.eval(s.test, env)):
            self.exec_block(s.body, env)
        else:
            self.exec_block(s.orelse, env)

    def x_Assert(self, s: ast.Assert, env: Env) -> None:
        if not self.truth(self.eval(s.test, env)):
            raise PyRaise("AssertionError", "assert")

    # ---- exceptions: PyRaise is the interpreted program's exception; handlers match by class NAME
    _EXC_PARENTS = {
        "ZeroDivisionError": "ArithmeticError", "OverflowError": "ArithmeticError", "FloatingPointError": "ArithmeticError",
        "KeyError": "LookupError", "IndexError": "LookupError", "NotImplementedError": "RuntimeError", "RecursionError": "RuntimeError",
        "ModuleNotFoundError": "ImportError", "FileNotFoundError": "OSError", "UnicodeError": "ValueError",
    }

    def _exc_matches(self, raised: str, wanted: ast.expr) -> bool:
        if isinstance(wanted, ast.Tuple):
            return any(self._exc_matches(raised, w) for w in wanted.elts)
        name = wanted.id if isinstance(wanted, ast.Name) else getattr(wanted, "attr", None)
        if name is None:
            raise OutOfReach("exception handler with a computed class")
        if name in ("Exception", "BaseException"):
            return True
        cur: Optional[str] = raised
        while cur is not None:
            if cur == name:
                return True
            cur = self._EXC_PARENTS.get(cur)
        return False

    def x_Try(self, s: ast.Try, env: Env) -> None:
        try:
            try:
                self.exec_block(s.body, env)
            except PyRaise as e:
                for h in s.handlers:
                    if h.type is None or self._exc_matches(e.exc, h.type):
                        saved = env.vars.get("__current_exception__")
                        env.vars["__current_exception__"] = e
                        if h.name:
                            env.vars[h.name] = ExcVal(e)
                        try:
                            self.exec_block(h.body, env)
                        finally:
                            env.vars["__current_exception__"] = saved
                            if h.name:
                                env.vars.pop(h.name, None)
                        break
                else:
                    raise
            else:
                self.exec_block(s.orelse, env)
        finally:
            if s.finalbody:
                self.exec_block(s.finalbody, env)

    def x_Raise(self, s: ast.Raise, env: Env) -> None:
        if s.exc is None:
            cur = env.vars.get("__current_exception__") if "__current_exception__" in env.vars else None
            e_: Optional[Env] = env
            while cur is None and e_ is not None:
                cur = e_.vars.get("__current_exception__")
                e_ = e_.parent
            if isinstance(cur, PyRaise):
                raise cur
            raise OutOfReach("bare raise outside a handler")
        if isinstance(s.exc, ast.Name) and isinstance(env.has(s.exc.id) and env.lookup(s.exc.id), ExcVal):
            raise env.lookup(s.exc.id).exc
        e = s.exc
        f = e.func if isinstance(e, ast.Call) else e
        name = f.id if isinstance(f, ast.Name) else getattr(f, "attr", "Exception")
        raise PyRaise(name, "raised by program")

    def x_For(self, s: ast.For, env: Env) -> None:
        it = self.eval(s.iter, env)
        gen = getattr(it, "pyvc_generic_loop", None)
        lazy = getattr(it, "pyvc_lazy_iter", None)
        if gen is not None:
            self._havoc_loop_carried(s, env)
        items = gen(self, env) if gen is not None else lazy(self) if lazy is not None else self.iterate(it)
        broke = False
        for item in items:
            self.assign(s.target, item, env)
            try:
                self.exec_block(s.body, env)
            except _Break:
                broke = True
                break
            except _Continue:
                continue
        if not broke and s.orelse:
            self.exec_block(s.orelse, env)

    def _havoc_loop_carried(self, s: ast.For, env: Env) -> None:
        """Generic (invariant-style) loop: the body runs once for an ARBITRARY iteration, so every
        local the body assigns and that is live at loop entry holds an arbitrary value of its
        kind (scalars only; containers are the business of the invariant supplied by on_enter)."""
        assigned: List[str] = []
        for st in s.body:
            for n in ast.walk(st):
                if isinstance(n, ast.Name) and isinstance(n.ctx, ast.Store) and n.id not in assigned:
                    assigned.append(n.id)
        target_names = {n.id for n in ast.walk(s.target) if isinstance(n, ast.Name)}
        for name in assigned:
            if name in target_names or name not in env.vars:
                continue
            v = env.vars[name]
            if isinstance(v, (bool, SB)):
                env.vars[name] = self.ctx.fresh_bool(f"carried!{name}")
            elif isinstance(v, int) or (isinstance(v, SV) and v.kind == "int"):
                env.vars[name] = self.ctx.fresh_int(f"carried!{name}")
            elif isinstance(v, (Fraction, float, SV)):
                env.vars[name] = self.ctx.fresh_real(f"carried!{name}")
            else:
                continue
            self.ctx.notes.append(f"loop-carried local `{name}` replaced by an arbitrary value for the generic iteration")

    def x_While(self, s: ast.While, env: Env) -> None:
        n = sym = 0
        while True:
            t = self.eval(s.test, env)
            if isinstance(t, (SB, SV)):
                sym += 1
                if sym > SYMBOLIC_UNROLL:
                    raise PathCut(f"while loop at line {s.lineno} with a symbolic bound unrolled {SYMBOLIC_UNROLL} times (needs an invariant)")
            if not self.truth(t):
                break
            n += 1
            if n > 10000:
                raise OutOfReach("while loop did not terminate concretely")
            try:
                self.exec_block(s.body, env)
            except _Break:
                break
            except _Continue:
                continue

    def x_With(self, s: ast.With, env: Env) -> None:
        mgrs = []
        for item in s.items:
            mgr = self.eval(item.context_expr, env)
            enter = self.getattr(mgr, "__enter__")
            v = self.call(enter, [], {})
            if item.optional_vars is not None:
                self.assign(item.optional_vars, v, env)
            mgrs.append(mgr)
        try:
            self.exec_block(s.body, env)
        finally:
            for mgr in reversed(mgrs):
                self.call(self.getattr(mgr, "__exit__"), [None, None, None], {})

    # ------------------------------------------------------------------ assignment
    def assign(self, t: ast.expr, v: Any, env: Env) -> None:
        if isinstance(t, ast.Name):
            env.vars[t.id] = v
        elif isinstance(t, (ast.Tuple, ast.List)):
            self._unpack(t.elts, v, env)
        elif isinstance(t, ast.Attribute):
            self.setattr(self.eval(t.value, env), t.attr, v)
        elif isinstance(t, ast.Subscript):
            c = self.eval(t.value, env)
            k = self.eval_index(t.slice, env)
            self.setitem(c, k, v)
        else:
            raise OutOfReach(f"assignment target {type(t).__name__}")

    def _unpack(self, elts: Sequence[ast.expr], v: Any, env: Env) -> None:
        star = [i for i, e in enumerate(elts) if isinstance(e, ast.Starred)]
        if isinstance(v, Shape):
            before = star[0] if star else len(elts)
            after = len(elts) - before - 1 if star else 0
            b, mid, a = v.unpack(self.ctx, before, bool(star), after)
            vals = list(b) + ([mid] if star else []) + list(a)
            for e, x in zip(elts, vals):
                self.assign(e.value if isinstance(e, ast.Starred) else e, x, env)
            return
        items = self.iterate(v)
        if not star:
            if len(items) != len(elts):
                raise PyRaise("ValueError", "wrong number of values to unpack")
            for e, x in zip(elts, items):
                self.assign(e, x, env)
            return
        i = star[0]
        after = len(elts) - i - 1
        if len(items) < i + after:
            raise PyRaise("ValueError", "not enough values to unpack")
        for e, x in zip(elts[:i], items[:i]):
            self.assign(e, x, env)
        self.assign(elts[i].value, list(items[i : len(items) - after]), env)  # type: ignore[attr-defined]
        for e, x in zip(elts[i + 1 :], items[len(items) - after :] if after else []):
            self.assign(e, x, env)

    # ------------------------------------------------------------------ expressions
    def eval(self, e: ast.expr, env: Env) -> Any:
        m = getattr(self, "e_" + type(e).__name__, None)
        if m is None:
            raise OutOfReach(f"expression {type(e).__name__} (line {getattr(e, 'lineno', '?')})")
        return m(e, env)

    def e_Constant(self, e: ast.Constant, env: Env) -> Any:
        v = e.value
        if isinstance(v, float):
            # exact decimal value of the literal text (A1)
            return Fraction(repr(v))
        if v is Ellipsis:
            return Ellipsis
        return v

    def e_Name(self, e: ast.Name, env: Env) -> Any:
        return self.lookup(e.id, env)

    def e_JoinedStr(self, e: ast.JoinedStr, env: Env) -> Any:
        return OpaqueStr()

    def e_Tuple(self, e: ast.Tuple, env: Env) -> Any:
        return tuple(self._eval_elts(e.elts, env))

    def e_List(self, e: ast.List, env: Env) -> Any:
        return list(self._eval_elts(e.elts, env))

    def e_Set(self, e: ast.Set, env: Env) -> Any:
        return set(self._eval_elts(e.elts, env))

    def _eval_elts(self, elts: Sequence[ast.expr], env: Env) -> List[Any]:
        out: List[Any] = []
        for x in elts:
            if isinstance(x, ast.Starred):
                out.extend(self.iterate(self.eval(x.value, env)))
            else:
                out.append(self.eval(x, env))
        return out

    def e_Dict(self, e: ast.Dict, env: Env) -> Any:
        d: Dict[Any, Any] = {}
        for k, v in zip(e.keys, e.values):
            if k is None:
                src = self.eval(v, env)
                if not isinstance(src, dict):
                    raise OutOfReach("** of a non-dict")
                d.update(src)
            else:
                d[self.eval(k, env)] = self.eval(v, env)
        return d

    def e_Lambda(self, e: ast.Lambda, env: Env) -> Any:
        return FuncVal(e, env, self._cur_module(env), "<lambda>")

    def e_IfExp(self, e: ast.IfExp, env: Env) -> Any:
        if self.truth(self.eval(e.test, env)):
            return self.eval(e.body, env)
        return self.eval(e.orelse, env)

    def e_BoolOp(self, e: ast.BoolOp, env: Env) -> Any:
        is_and = isinstance(e.op, ast.And)
        v: Any = None
        for sub in e.values:
            v = self.eval(sub, env)
            t = self.truth(v)
            if is_and and not t:
                return v if not isinstance(v, SB) else False
            if not is_and and t:
                return v if not isinstance(v, SB) else True
        return v if not isinstance(v, SB) else (True if is_and else False)

    def e_UnaryOp(self, e: ast.UnaryOp, env: Env) -> Any:
        v = self.eval(e.operand, env)
        if isinstance(e.op, ast.Not):
            if isinstance(v, (SB, bool)):
                return bool_not(v)
            return not self.truth(v)
        if isinstance(e.op, ast.USub):
            if isinstance(v, SymTensor):
                return self.binop("*", v, -1)
            return num_neg(v)
        if isinstance(e.op, ast.UAdd):
            return v
        if isinstance(e.op, ast.Invert):
            if isinstance(v, int):
                return ~v
            h = getattr(v, "pyvc_unary", None)
            if h is not None:
                return h(self, "~")
            return self.call_method_model(v, "__invert__", [], {})
        raise OutOfReach("unary op")

    def e_BinOp(self, e: ast.BinOp, env: Env) -> Any:
        a = self.eval(e.left, env)
        b = self.eval(e.right, env)
        return self.binop(_BINOPS[type(e.op)], a, b)

    def e_Compare(self, e: ast.Compare, env: Env) -> Any:
        left = self.eval(e.left, env)
        results = []
        for op, rhs_e in zip(e.ops, e.comparators):
            rhs = self.eval(rhs_e, env)
            results.append(self.compare(op, left, rhs))
            left = rhs
        if len(results) == 1:
            return results[0]
        from .sym import bool_and

        return bool_and(*results)

    def e_Attribute(self, e: ast.Attribute, env: Env) -> Any:
        return self.getattr(self.eval(e.value, env), e.attr)

    def e_Subscript(self, e: ast.Subscript, env: Env) -> Any:
        c = self.eval(e.value, env)
        return self.getitem(c, self.eval_index(e.slice, env))

    def eval_index(self, s: ast.expr, env: Env) -> Any:
        if isinstance(s, ast.Slice):
            return slice(
                self.eval(s.lower, env) if s.lower else None,
                self.eval(s.upper, env) if s.upper else None,
                self.eval(s.step, env) if s.step else None,
            )
        if isinstance(s, ast.Tuple):
            return tuple(self.eval_index(x, env) for x in s.elts)
        return self.eval(s, env)

    def e_Slice(self, e: ast.Slice, env: Env) -> Any:
        return self.eval_index(e, env)

    def e_Starred(self, e: ast.Starred, env: Env) -> Any:
        raise OutOfReach("starred expression outside call/collection")

    def _comp(self, gens: Sequence[ast.comprehension], env: Env, emit: Callable[[Env], None]) -> None:
        def rec(i: int, cur: Env) -> None:
            if i == len(gens):
                emit(cur)
                return
            g = gens[i]
            items = self.iterate(self.eval(g.iter, cur))
            if getattr(items, "sym_len", None) is not None:
                self._comp_sym_len = items.sym_len
            for item in items:
                inner = Env(cur)
                self.assign(g.target, item, inner)
                if all(self.truth(self.eval(c, inner)) for c in g.ifs):
                    rec(i + 1, inner)

        rec(0, Env(env))

    def e_ListComp(self, e: ast.ListComp, env: Env) -> Any:
        out: List[Any] = []
        self._comp(e.generators, env, lambda en: out.append(self.eval(e.elt, en)))
        return out

    def e_GeneratorExp(self, e: ast.GeneratorExp, env: Env) -> Any:
        out: List[Any] = []
        self._comp_sym_len = None
        self._comp(e.generators, env, lambda en: out.append(self.eval(e.elt, en)))
        r = GenList(out)
        r.sym_len = self._comp_sym_len
        self._comp_sym_len = None
        return r

    def e_SetComp(self, e: ast.SetComp, env: Env) -> Any:
        out: List[Any] = []
        self._comp(e.generators, env, lambda en: out.append(self.eval(e.elt, en)))
        return set(out)

    def e_DictComp(self, e: ast.DictComp, env: Env) -> Any:
        out: Dict[Any, Any] = {}

        def emit(en: Env) -> None:
            out[self.eval(e.key, en)] = self.eval(e.value, en)

        self._comp(e.generators, env, emit)
        return out

    def e_Call(self, e: ast.Call, env: Env) -> Any:
        if _is_logger_call(e):
            return None
        # super() needs the defining class
        if isinstance(e.func, ast.Name) and e.func.id == "super" and not e.args:
            cls = env.lookup("__class__")
            slf = env.lookup("__self__")
            return SuperProxy(slf, cls)
        f = self.eval(e.func, env)
        args: List[Any] = []
        for a in e.args:
            if isinstance(a, ast.Starred):
                sv = self.eval(a.value, env)
                if getattr(sv, "sym_len", None) is not None:
                    self.ctx.__dict__["generic_star_len"] = sv.sym_len
                args.extend(self.iterate(sv))
            else:
                args.append(self.eval(a, env))
        kwargs: Dict[str, Any] = {}
        for k in e.keywords:
            if k.arg is None:
                d = self.eval(k.value, env)
                if not isinstance(d, dict):
                    raise OutOfReach("** of non-dict in call")
                for kk, vv in d.items():
                    if kk in kwargs:
                        raise PyRaise("TypeError", f"multiple values for keyword argument '{kk}'")
                    kwargs[kk] = vv
            else:
                if k.arg in kwargs:
                    raise PyRaise("TypeError", f"multiple values for keyword argument '{k.arg}'")
                kwargs[k.arg] = self.eval(k.value, env)
        res = self.call(f, args, kwargs)
        if isinstance(res, ClassVal) and len(args) == 3 and isinstance(f, Builtin) and f.name == "type":
            res.attrs.setdefault("__module__", self._cur_module(env).name)  # a class made by type(...) belongs to the calling module
        return res

    # ------------------------------------------------------------------ semantics helpers
    def truth(self, v: Any) -> bool:
        if isinstance(v, bool):
            return v
        if isinstance(v, SB):
            return self.ctx.branch(v.z)
        if isinstance(v, SV):
            return self.ctx.branch(v.z != 0)
        if v is None:
            return False
        if isinstance(v, (int, Fraction)):
            return v != 0
        if isinstance(v, (str, tuple, list, dict, set)):
            return len(v) > 0
        if isinstance(v, GenList):
            return True
        if isinstance(v, Shape):
            ln = v.length(self.ctx)
            return self.truth(num_cmp("!=", ln, 0))
        if isinstance(v, (FuncVal, ClassVal, ObjVal, Builtin, BoundMethod, ModuleVal, TypeTok, ExtClass)):
            if isinstance(v, ObjVal):
                ln = self.find_method(v, "__len__")
                if ln is not None:
                    return self.truth(num_cmp("!=", self.call(ln, [], {}), 0))
            return True
        if isinstance(v, OpaqueStr):
            return True
        if hasattr(v, "b") and type(v).__name__ == "BoolScalar":
            return self.truth(v.b)
        raise OutOfReach(f"truth value of {type(v).__name__}")

    def iterate(self, v: Any) -> List[Any]:
        if isinstance(v, (list, tuple)):
            return list(v)
        if isinstance(v, GenList):
            return list(v.items)
        if isinstance(v, dict):
            return list(v.keys())
        if isinstance(v, (set, frozenset)):
            return sorted(v, key=repr)
        if isinstance(v, range):
            return list(v)
        if isinstance(v, Shape):
            return v.dims()
        if isinstance(v, str):
            return list(v)
        if type(v).__name__ in ("dict_items", "dict_keys", "dict_values", "zip", "enumerate", "reversed", "map", "list_reverseiterator"):
            return list(v)
        if isinstance(v, ObjVal):
            it = self.find_method(v, "__iter__")
            if it is not None:
                return self.iterate(self.call(it, [], {}))
        hook = getattr(v, "pyvc_iter", None)
        if hook is not None:
            return hook(self)
        if isinstance(v, (int, Fraction, SV, SB, type(None))):
            raise PyRaise("TypeError", f"{type(v).__name__} object is not iterable")
        raise OutOfReach(f"iteration over {type(v).__name__}")

    def binop(self, op: str, a: Any, b: Any, inplace: bool = False) -> Any:
        if isinstance(a, SymTensor) or isinstance(b, SymTensor):
            from . import torchmodel

            return torchmodel.tensor_binop(self, op, a, b, inplace)
        for x in (a, b):
            h = getattr(x, "pyvc_binop", None)
            if h is not None:
                return h(self, op, a, b, inplace)
        if isinstance(a, (int, Fraction, SV, bool)) and isinstance(b, (int, Fraction, SV, bool)):
            return num_binop(self.ctx, op, a, b)
        if op == "+" and isinstance(a, (list, tuple)) and type(a) is type(b):
            return a + b
        if op == "+" and isinstance(a, Shape) and isinstance(b, Shape):
            return a.concat(b)
        if op == "+" and isinstance(a, str) and isinstance(b, str):
            return a + b
        if op == "+" and (isinstance(a, OpaqueStr) or isinstance(b, OpaqueStr)):
            return OpaqueStr()
        if op == "*" and isinstance(a, (list, tuple)) and isinstance(b, int):
            return a * b
        if op == "%" and isinstance(a, str):
            return OpaqueStr()
        if op == "|" and isinstance(a, (set, dict)) and isinstance(b, (set, dict)):
            return a | b
        raise OutOfReach(f"binop {op} on {type(a).__name__}, {type(b).__name__}")

    def compare(self, op: ast.cmpop, a: Any, b: Any) -> Any:
        if isinstance(op, (ast.Is, ast.IsNot)):
            r = self.identical(a, b)
            return r if isinstance(op, ast.Is) else bool_not(r)
        if isinstance(op, (ast.In, ast.NotIn)):
            r = self.contains(b, a)
            return r if isinstance(op, ast.In) else bool_not(r)
        o = _CMPOPS[type(op)]
        if (isinstance(a, SymTensor) or isinstance(b, SymTensor)) and all(isinstance(x, (SymTensor, int, Fraction, float, SV)) and not isinstance(x, bool) for x in (a, b)):
            # elementwise comparison of tensors: an UNMODELLED torch operation (generic fallback)
            from .torchmodel import GenericTorch

            return GenericTorch("Tensor.__compare__[" + o + "]").pyvc_call(self, [a, b], {})
        if o in ("==", "!="):
            r = self.equals(a, b)
            return r if o == "==" else bool_not(r)
        if isinstance(a, (int, Fraction, SV, bool)) and isinstance(b, (int, Fraction, SV, bool)):
            return num_cmp(o, a, b)
        for x in (a, b):
            h = getattr(x, "pyvc_compare", None)
            if h is not None:
                return h(self, o, a, b)
        raise OutOfReach(f"comparison {o} on {type(a).__name__}, {type(b).__name__}")

    def identical(self, a: Any, b: Any) -> Any:
        if a is None or b is None:
            if isinstance(a, Opaque) or isinstance(b, Opaque):
                o = a if isinstance(a, Opaque) else b
                return mk_bool(o.z == tz.V.VNone)
            return a is None and b is None
        if isinstance(a, (bool, int, str)) and isinstance(b, (bool, int, str)):
            return a is b or (type(a) is type(b) and a == b)
        if a is Ellipsis or b is Ellipsis:
            return a is b
        if isinstance(a, TypeTok) and isinstance(b, TypeTok):
            return a.name == b.name  # a type object is a singleton: the model may hold several tokens for it
        return a is b

    def equals(self, a: Any, b: Any) -> Any:
        if isinstance(a, (int, Fraction, SV, bool)) and isinstance(b, (int, Fraction, SV, bool)):
            return num_cmp("==", a, b)
        if isinstance(a, Opaque) or isinstance(b, Opaque):
            return mk_bool(tz.to_V(self.ctx, a) == tz.to_V(self.ctx, b))
        if isinstance(a, Shape) or isinstance(b, Shape):
            if not isinstance(a, Shape):
                a, b = b, a
            if isinstance(b, (tuple, list)):
                b = Shape(list(b))
            if isinstance(b, Shape):
                return a.eq(self.ctx, b)
            return False
        if isinstance(a, (tuple, list)) and isinstance(b, (tuple, list)):
            if type(a) is not type(b) or len(a) != len(b):
                return False
            from .sym import bool_and

            return bool_and(*[self.equals(x, y) for x, y in zip(a, b)])
        for x in (a, b):
            h = getattr(x, "pyvc_equals", None)
            if h is not None:
                return h(self, a, b)
        if isinstance(a, (str, type(None), dict, set)) or isinstance(b, (str, type(None), dict, set)):
            if isinstance(a, (SV, SB, SymTensor)) or isinstance(b, (SV, SB, SymTensor)):
                return False
            return a == b
        if isinstance(a, SymTensor) or isinstance(b, SymTensor):
            raise OutOfReach("== on tensors")
        if isinstance(a, (SB, bool)) and isinstance(b, (SB, bool)):
            from .sym import zbool

            return mk_bool(zbool(a) == zbool(b))
        return a is b

    def contains(self, container: Any, item: Any) -> Any:
        from .sym import bool_or

        if isinstance(container, dict):
            if isinstance(item, (SV, SB)):
                from .sym import bool_or

                # a cache keyed by a symbolic number: the key is present iff it EQUALS a stored key
                return bool_or(*[self.equals(k, item) for k in container if isinstance(k, (int, Fraction, SV))])
            return any(self._key_eq(k, item) for k in container)
        if isinstance(container, (list, tuple, set, frozenset, GenList)):
            items = container.items if isinstance(container, GenList) else list(container)
            rs = []
            for x in items:
                r = self.identical(x, item)
                if r is True:
                    return True
                rs.append(self.equals(x, item))
            return bool_or(*rs)
        if isinstance(container, str) and isinstance(item, str):
            return item in container
        h = getattr(container, "pyvc_contains", None)
        if h is not None:
            return h(self, item)
        if isinstance(container, ObjVal):
            m = self.find_method(container, "__contains__")
            if m is not None:
                return self.call(m, [item], {})
        raise OutOfReach(f"`in` on {type(container).__name__}")

    def _key_eq(self, k: Any, item: Any) -> bool:
        if isinstance(k, (str, int, type(None))) and isinstance(item, (str, int, type(None))):
            return k == item
        return k is item

    # ------------------------------------------------------------------ attribute access
    def getattr(self, obj: Any, name: str) -> Any:
        obj = force(obj)
        from . import builtins_model

        return builtins_model.get_attribute(self, obj, name)

    def setattr(self, obj: Any, name: str, v: Any) -> None:
        from . import builtins_model

        builtins_model.set_attribute(self, obj, name, v)

    def getitem(self, c: Any, k: Any) -> Any:
        from . import builtins_model

        return builtins_model.get_item(self, c, k)

    def setitem(self, c: Any, k: Any, v: Any) -> None:
        if isinstance(c, dict):
            self.ctx.effects.append(("mutate", id(c), "__setitem__"))
            c[k] = v
            return
        if isinstance(c, list) and isinstance(k, int):
            self.ctx.effects.append(("mutate", id(c), "__setitem__"))
            c[k] = v
            return
        h = getattr(c, "pyvc_setitem", None)
        if h is not None:
            h(self, k, v)
            return
        raise OutOfReach(f"item assignment on {type(c).__name__}")

    def find_method(self, obj: ObjVal, name: str) -> Any:
        for c in obj.cls.mro():
            if isinstance(c, ClassVal) and name in c.attrs:
                a = c.attrs[name]
                if isinstance(a, FuncVal):
                    return BoundMethod(obj, a)
                return a
            if isinstance(c, ExtClass) and name in c.methods:
                return BoundMethod(obj, Builtin(f"{c.name}.{name}", c.methods[name]))
        return None

    def call_method_model(self, obj: Any, name: str, args: List[Any], kwargs: Dict[str, Any]) -> Any:
        return self.call(self.getattr(obj, name), args, kwargs)

    # ------------------------------------------------------------------ calls
    def call(self, f: Any, args: List[Any], kwargs: Dict[str, Any]) -> Any:
        f = force(f)
        if isinstance(f, Builtin):
            return f.fn(self, args, kwargs)
        if isinstance(f, BoundMethod):
            if isinstance(f.func, Builtin):
                return f.func.fn(self, [f.obj] + args, kwargs)
            return self.call(f.func, [f.obj] + args, kwargs)
        if isinstance(f, FuncVal):
            return self.call_funcval(f, args, kwargs)
        if isinstance(f, ClassVal):
            return self.instantiate(f, args, kwargs)
        if isinstance(f, ExtClass):
            return self.instantiate(f, args, kwargs)
        if isinstance(f, TypeTok):
            if f.ctor is None:
                if getattr(f, "not_callable", False):
                    raise PyRaise("TypeError", f"{f.name} is not callable")
                raise OutOfReach(f"constructing {f.name}")
            return f.ctor(self, args, kwargs)
        if isinstance(f, ObjVal):
            m = self.find_method(f, "__call__")
            if m is not None:
                return self.call(m, args, kwargs)
        h = getattr(f, "pyvc_call", None)
        if h is not None:
            return h(self, args, kwargs)
        if callable(f) and getattr(f, "__self__", None) is not None and isinstance(
            f.__self__, (dict, list, set, str, tuple)
        ):
            # native bound method of a concrete python container
            return self._native_container_call(f, args, kwargs)
        if isinstance(f, (ModuleVal, str, int, Fraction, SV, list, dict, tuple, type(None), OpaqueStr)):
            raise PyRaise("TypeError", f"{type(f).__name__} object is not callable")
        raise OutOfReach(f"call of {f!r}")

    def _native_container_call(self, f: Any, args: List[Any], kwargs: Dict[str, Any]) -> Any:
        name = f.__name__
        allowed = {
            "append", "extend", "insert", "pop", "copy", "items", "keys", "values", "get", "setdefault",
            "update", "add", "index", "startswith", "endswith", "replace", "strip", "split", "join",
            "format", "count", "remove", "clear", "lower", "upper", "union", "intersection",
        }
        if name not in allowed:
            raise OutOfReach(f"container method {name}")
        if name in ("index", "remove", "count"):
            simple = lambda v: isinstance(v, (str, int, bool, type(None))) and not isinstance(v, OpaqueStr)
            if not (isinstance(f.__self__, (list, tuple, str)) and all(simple(v) for v in f.__self__) and args and simple(args[0])):
                raise OutOfReach(f"container method {name} (needs equality)")
            if name == "index":
                try:
                    return f(*args, **kwargs)
                except ValueError as e:
                    raise PyRaise("ValueError", str(e))
        if name == "format":
            return OpaqueStr()
        ctx = self.ctx
        if name in ("append", "extend", "insert", "pop", "setdefault", "update", "add", "clear"):
            ctx.effects.append(("mutate", id(f.__self__), name))
        return f(*args, **kwargs)

    def bind(self, fv: FuncVal, args: List[Any], kwargs: Dict[str, Any]) -> Dict[str, Any]:
        a = fv.node.args
        pos = [x.arg for x in a.posonlyargs + a.args]
        bound: Dict[str, Any] = {}
        if len(args) > len(pos) and a.vararg is None:
            raise PyRaise("TypeError", f"{fv.name}() takes {len(pos)} positional arguments but {len(args)} were given")
        for n, v in zip(pos, args):
            bound[n] = v
        if a.vararg is not None:
            rest = tuple(args[len(pos):])
            glen = self.ctx.__dict__.get("generic_star_len")
            if glen is not None and rest:
                rest = GenericTuple(rest)
                rest.sym_len = glen
            bound[a.vararg.arg] = rest
        kwonly = [x.arg for x in a.kwonlyargs]
        extra: Dict[str, Any] = {}
        for k, v in kwargs.items():
            if k in bound and k in pos:
                raise PyRaise("TypeError", f"{fv.name}() got multiple values for argument '{k}'")
            if k in pos or k in kwonly:
                bound[k] = v
            elif a.kwarg is not None:
                extra[k] = v
            else:
                raise PyRaise("TypeError", f"{fv.name}() got an unexpected keyword argument '{k}'")
        if a.kwarg is not None:
            bound[a.kwarg.arg] = extra
        # defaults (evaluated at call time in the defining environment)
        nd = len(a.defaults)
        for i, n in enumerate(pos):
            if n not in bound:
                j = i - (len(pos) - nd)
                if j < 0:
                    raise PyRaise("TypeError", f"{fv.name}() missing required argument '{n}'")
                bound[n] = self.eval(a.defaults[j], fv.env)
        for n, d in zip(kwonly, a.kw_defaults):
            if n not in bound:
                if d is None:
                    raise PyRaise("TypeError", f"{fv.name}() missing keyword-only argument '{n}'")
                bound[n] = self.eval(d, fv.env)
        return bound

    KNOWN_DECORATORS = ("staticmethod", "classmethod", "property", "inherit_docstring", "docstring_from", "format_docstring", "dataclass", "wraps", "no_type_check", "overload", "abstractmethod", "cached_property", "lru_cache", "cache", "parametrize", "fixture")

    def call_funcval(self, fv: FuncVal, args: List[Any], kwargs: Dict[str, Any]) -> Any:
        names = fv.deco_names()
        if fv.module.name.startswith("unit_scaling"):
            for dn in names:
                if dn not in self.KNOWN_DECORATORS:
                    # decorators are not executed: one whose contract is not known must stop the job, not be dropped
                    raise OutOfReach(f"decorator @{dn} on {fv.qualname} has no contract")
        if "lru_cache" in names or "cache" in names:
            # ASSUMED functools.lru_cache / cache (unbounded or large enough): one evaluation per distinct
            # argument tuple, the SAME result object afterwards (object identity matters to callers)
            def _key(v: Any) -> Any:
                if isinstance(v, (bool, int, str, Fraction, type(None))):
                    return (type(v).__name__, v)
                if isinstance(v, tuple):
                    return ("tuple",) + tuple(_key(x) for x in v)
                raise OutOfReach(f"lru_cache key of {fv.qualname} is not a concrete hashable value: {type(v).__name__}")

            key = (tuple(_key(a_) for a_ in args), tuple(sorted((k_, _key(v_)) for k_, v_ in kwargs.items())))
            memo = fv.attrs.setdefault("__lru_cache__", {})
            if key not in memo:
                memo[key] = self._call_funcval(fv, args, kwargs)
            return memo[key]
        return self._call_funcval(fv, args, kwargs)

    def _call_funcval(self, fv: FuncVal, args: List[Any], kwargs: Dict[str, Any]) -> Any:
        q = self.qual_of(fv)
        bound0 = self.bind(fv, args, kwargs)  # arity errors surface before anything else
        self._validate_contract(fv, args, kwargs, bound0)
        if q in self.contracts and q not in self.verifying:
            bound = bound0
            self.contracts_used.add(q)
            self.calls.append((q, list(args), dict(kwargs)))
            return self.contracts[q](self, bound)
        is_repo_toplevel = fv.module.name.startswith("unit_scaling") and "<locals>" not in fv.qualname and fv.qualname != "<lambda>"
        if is_repo_toplevel and q not in self.verifying and q not in self.inline and self.depth > 0:
            # a repo function with no contract of its own (e.g. a helper introduced by a
            # refactoring): its body is executed as part of the caller's; listed in evidence
            self.inlined_used.add(q + " (auto: no contract)")
        if q in self.inline:
            self.inlined_used.add(q)
        return self.run_body(fv, bound0)

    def _validate_contract(self, fv: FuncVal, args: List[Any], kwargs: Dict[str, Any], bound: Dict[str, Any]) -> None:
        """Contract of the decorators docstring_from / inherit_docstring (they are not
        executed): the decorated callable is `_validate(f, unsupported_args)`, i.e. a call
        that passes an unsupported argument with a value != its default raises ValueError
        before f runs.  (Verified against docs._validate in contracts/jobs_docs.py.)"""
        decos = fv.decorators
        if fv.cls is not None and fv.name == "__init__":
            decos = [d for d in fv.cls.decorators if _deco_base(d) == "inherit_docstring"]
        else:
            decos = [d for d in decos if _deco_base(d) == "docstring_from"]
        if not decos or q_in(self.verifying, self.qual_of(fv) + "#raw"):
            return
        unsupported: List[str] = []
        for d in decos:
            if isinstance(d, ast.Call):
                for kw in d.keywords:
                    if kw.arg == "unsupported_args" and isinstance(kw.value, (ast.List, ast.Tuple)):
                        unsupported += [e.value for e in kw.value.elts if isinstance(e, ast.Constant)]
        if not unsupported:
            return
        a = fv.node.args
        pos = [x.arg for x in a.posonlyargs + a.args]
        passed = set(pos[: len(args)]) | set(kwargs.keys())
        nd = len(a.defaults)
        for name in unsupported:
            if name not in passed or name not in pos:
                continue
            j = pos.index(name) - (len(pos) - nd)
            if j < 0:
                continue
            default = self.eval(a.defaults[j], fv.env)
            same = self.equals(bound[name], default)
            if not self.truth(same):
                raise PyRaise("ValueError", f"Support for the '{name}' argument has not been implemented")

    def qual_of(self, fv: FuncVal) -> str:
        return f"{fv.module.name}.{fv.qualname}"

    def run_body(self, fv: FuncVal, bound: Dict[str, Any], extra: Optional[Dict[str, Any]] = None) -> Any:
        env = Env(fv.env, dict(bound))
        env.vars["__qualname__"] = fv.qualname
        if fv.cls is not None:
            env.vars["__class__"] = fv.cls
            a = fv.node.args
            first = (a.posonlyargs + a.args)[0].arg if (a.posonlyargs + a.args) else None
            if first is not None and "staticmethod" not in fv.deco_names():
                env.vars["__self__"] = bound.get(first)
        if extra:
            env.vars.update(extra)
        self.depth += 1
        if self.depth > 60:
            raise OutOfReach("call depth exceeded (recursion is out of reach)")
        try:
            if isinstance(fv.node, ast.Lambda):
                return self.eval(fv.node.body, env)
            try:
                self.exec_block(fv.node.body, env)
            except _Return as r:
                return r.value
            return None
        finally:
            self.depth -= 1

    def instantiate(self, cls: Any, args: List[Any], kwargs: Dict[str, Any]) -> Any:
        from . import builtins_model

        return builtins_model.instantiate(self, cls, args, kwargs)

    # used by tensor.FunctionNode
    def run_function_backward(self, node: tz.FunctionNode, g: tz.LinComb) -> List[Optional[tz.LinComb]]:
        from . import torchmodel

        return torchmodel.run_function_backward(self, node, g)


class GenericTuple(tuple):
    """*args received from the expansion of a sequence of symbolic length (one generic element)"""

    sym_len: Any = None


class GenList:
    """Result of a generator expression (evaluated eagerly)."""

    sym_len: Any = None

    def __init__(self, items: List[Any]):
        self.items = items


class Unevaluated:
    def __init__(self, why: str):
        self.why = why


class LazyTop:
    """A module-level assignment evaluated on first use."""

    def __init__(self, interp: Interp, m: ModuleVal, stmt: Any, name: str):
        self.interp, self.m, self.stmt, self.name = interp, m, stmt, name

    def force(self) -> Any:
        it, m, stmt = self.interp, self.m, self.stmt
        d = it.depth
        it.depth = 0
        try:
            v = it.eval(stmt.value, m.env)
        finally:
            it.depth = d
        targets = stmt.targets if isinstance(stmt, ast.Assign) else [stmt.target]
        for t in targets:
            it.assign(t, v, m.env)
        if isinstance(v, (list, dict, set)):
            it.ctx.protected[id(v)] = f"module-level {m.name}.{self.name}"
        return m.env.vars[self.name]


class LazyModule:
    def __init__(self, interp: Interp, name: str):
        self.interp, self.name = interp, name

    def force(self) -> Any:
        return self.interp.get_module(self.name)


class LazyImport:
    def __init__(self, interp: Interp, mod: str, name: str):
        self.interp, self.mod, self.name = interp, mod, name

    def force(self) -> Any:
        it = self.interp
        # `from . import functional as U` : name may itself be a sub-module
        sub = f"{self.mod}.{self.name}" if self.mod else self.name
        if self.mod.startswith("unit_scaling") or self.mod == "unit_scaling":
            if it.repo.module_path(sub) is not None:
                return it.get_module(sub)
        m = it.get_module(self.mod)
        return it.getattr(m, self.name)


def force(v: Any) -> Any:
    while isinstance(v, (LazyTop, LazyModule, LazyImport)):
        v = v.force()
    if isinstance(v, Unevaluated):
        raise OutOfReach(v.why)
    return v


def _assigned_names(stmt: ast.stmt) -> List[str]:
    out: List[str] = []
    targets: List[Any] = []
    if isinstance(stmt, ast.Assign):
        targets = list(stmt.targets)
    elif isinstance(stmt, ast.AnnAssign):
        targets = [stmt.target]
    for t in targets:
        for n in ast.walk(t):
            if isinstance(n, ast.Name):
                out.append(n.id)
    return out


def _deco_base(d: ast.expr) -> str:
    f = d.func if isinstance(d, ast.Call) else d
    return f.attr if isinstance(f, ast.Attribute) else getattr(f, "id", "?")


def q_in(s: Any, q: str) -> bool:
    return q in s


def _is_logger_call(e: ast.expr) -> bool:
    return (
        isinstance(e, ast.Call)
        and isinstance(e.func, ast.Attribute)
        and isinstance(e.func.value, ast.Name)
        and e.func.value.id in ("logger", "logging")
    )


# ----------------------------------------------------------------------------------
# path exploration


class PathResult:
    def __init__(self, ctx: Ctx, interp: Interp, outcome: str, value: Any = None, exc: Optional[PyRaise] = None, extra: Any = None):
        self.ctx = ctx
        self.interp = interp
        self.outcome = outcome  # 'return' | 'raise'
        self.value = value
        self.exc = exc
        self.extra = extra


class ExcVal:
    """the value bound by `except X as e`"""

    def __init__(self, exc: PyRaise):
        self.exc = exc

    def pyvc_getattr(self, interp: Any, name: str) -> Any:
        if name == "args":
            return (OpaqueStr(),)
        raise PyRaise("AttributeError", name)

    def pyvc_types(self) -> Any:
        return {self.exc.exc, "Exception", "BaseException"}


class PathList(list):  # type: ignore[type-arg]
    def __init__(self) -> None:
        super().__init__()
        self.cuts: List[str] = []


def explore(run: Callable[[Ctx], Tuple[Interp, Callable[[], Any]]], max_paths: int = 256, branch_timeout_ms: int = 2000) -> List[PathResult]:
    """run(ctx) builds the symbolic inputs (assuming preconditions) and returns
    (interp, thunk); thunk() executes the function under verification."""
    work: List[Tuple[bool, ...]] = [()]
    results = PathList()
    while work:
        dec = work.pop()
        ctx = Ctx(dec, branch_timeout_ms)
        interp, thunk = run(ctx)
        try:
            v = thunk()
            res = PathResult(ctx, interp, "return", value=v)
        except PyRaise as e:
            res = PathResult(ctx, interp, "raise", exc=e)
        except PathCut as e:
            results.cuts.append(str(e))
            work.extend(ctx.alternatives)
            if len(results.cuts) > max_paths:
                raise OutOfReach(f"more than {max_paths} abandoned paths")
            continue
        results.append(res)
        work.extend(ctx.alternatives)
        if len(results) > max_paths:
            raise OutOfReach(f"more than {max_paths} paths")
    return results
