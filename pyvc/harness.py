"""pyvc.harness -- per-function verification runs: explore paths, emit named obligations,
discharge, collect records.  Also the comparison primitives used by contracts
(body == summary; result == k * reference).
"""
from __future__ import annotations

import ast
import itertools
import json
import time
import traceback
from fractions import Fraction
from typing import Any, Callable, Dict, List, Optional, Sequence, Tuple

import z3

from .interp import Env, Interp, PathResult, Repo, explore
from .solve import cover, discharge, eval_in_model
from .sym import SB, SV, Ctx, Obligation, OutOfReach, PyRaise, as_concrete, zbool, zreal
from . import tensor as tz
from . import torchmodel
from .tensor import LinComb, Shape, SymTensor


# ----------------------------------------------------------------------------------
# matching linear combinations


def _quick_valid(ctx: Ctx, fact: z3.BoolRef, timeout_ms: int = 3000) -> bool:
    s = z3.Solver()
    s.set("timeout", timeout_ms)
    s.add(*ctx.axioms)
    s.add(*ctx.pc)
    s.add(z3.Not(fact))
    return s.check() == z3.unsat


def match_terms(ctx: Ctx, A: LinComb, B: LinComb) -> Optional[Tuple[List[Tuple[z3.ArithRef, z3.ArithRef]], List[z3.BoolRef]]]:
    """Pair the terms of A and B: returns ([(coefA, coefB)], [base equalities to prove])."""
    a_terms = list(A.terms)
    b_terms = list(B.terms)
    pairs: List[Tuple[z3.ArithRef, z3.ArithRef]] = []
    conds: List[z3.BoolRef] = []
    rest_a = []
    for t, c in a_terms:
        hit = None
        for j, (u, d) in enumerate(b_terms):
            if u.eq(t):
                hit = j
                break
        if hit is None:
            rest_a.append((t, c))
        else:
            pairs.append((c, b_terms[hit][1]))
            b_terms.pop(hit)
    if len(rest_a) != len(b_terms):
        return None
    if len(rest_a) > 4:
        return None
    if rest_a:
        found = False
        for perm in itertools.permutations(range(len(b_terms))):
            if all(_quick_valid(ctx, rest_a[i][0] == b_terms[p][0]) for i, p in enumerate(perm)):
                for i, p in enumerate(perm):
                    pairs.append((rest_a[i][1], b_terms[p][1]))
                    conds.append(rest_a[i][0] == b_terms[p][0])
                found = True
                break
        if not found:
            # keep the identity pairing; the base equality obligation will fail with a model
            for (t, c), (u, d) in zip(rest_a, b_terms):
                pairs.append((c, d))
                conds.append(t == u)
    return pairs, conds


def lc_equal_goal(ctx: Ctx, A: LinComb, B: LinComb) -> z3.BoolRef:
    m = match_terms(ctx, A, B)
    if m is None:
        return z3.BoolVal(False)
    pairs, conds = m
    return z3.And(*([a == b for a, b in pairs] + conds)) if (pairs or conds) else z3.BoolVal(True)


def lc_ratio(ctx: Ctx, A: LinComb, B: LinComb) -> Tuple[Optional[z3.ArithRef], z3.BoolRef]:
    """A == k * B : returns (k, goal).  k is None if the structures cannot be paired."""
    m = match_terms(ctx, A, B)
    if m is None or not m[0]:
        if not A.terms and not B.terms:
            return z3.RealVal(1), z3.BoolVal(True)
        return None, z3.BoolVal(False)
    pairs, conds = m
    a0, b0 = pairs[0]
    k = z3.simplify(a0 / b0)
    goal = [b0 != 0] + [a == k * b for a, b in pairs[1:]] + conds
    return k, z3.And(*goal)


def t_consts(e: z3.ExprRef) -> List[z3.ExprRef]:
    """All uninterpreted constants of tensor sort occurring in e."""
    seen: Dict[int, z3.ExprRef] = {}
    out: Dict[str, z3.ExprRef] = {}
    stack = [e]
    while stack:
        x = stack.pop()
        if x.get_id() in seen:
            continue
        seen[x.get_id()] = x
        if z3.is_const(x) and x.decl().kind() == z3.Z3_OP_UNINTERPRETED and x.sort() == tz.T:
            out[str(x)] = x
        stack.extend(x.children())
    return list(out.values())


def mentions(e: z3.ExprRef, names: Sequence[str]) -> bool:
    seen = set()
    stack = [e]
    ns = set(names)
    while stack:
        x = stack.pop()
        if x.get_id() in seen:
            continue
        seen.add(x.get_id())
        if z3.is_const(x) and x.decl().kind() == z3.Z3_OP_UNINTERPRETED and x.decl().name() in ns:
            return True
        stack.extend(x.children())
    return False


def _derived_consts(e: z3.ExprRef, names: Sequence[str]) -> List[z3.ExprRef]:
    seen = set()
    out: Dict[str, z3.ExprRef] = {}
    stack = [e]
    ns = set(names)
    while stack:
        x = stack.pop()
        if x.get_id() in seen:
            continue
        seen.add(x.get_id())
        if z3.is_const(x) and x.decl().kind() == z3.Z3_OP_UNINTERPRETED and x.decl().name() in ns:
            out[x.decl().name()] = x
        stack.extend(x.children())
    return list(out.values())


def data_independent_goal(k: z3.ArithRef, ctx: Optional[Ctx] = None) -> z3.BoolRef:
    """k takes the same value when every tensor constant -- and every scalar the program DERIVED
    from tensor data (ctx.data_derived: int(t.sum()), ...) -- is replaced by a fresh one (the
    renamed copy satisfies the same axioms and path condition)."""
    k = z3.simplify(k)
    derived = [str(d) for d in getattr(ctx, "data_derived", [])] if ctx is not None else []
    cs = {str(c): c for c in t_consts(k) if not c.eq(tz.ONE) and not c.eq(tz.TZERO)}
    cs.update({str(c): c for c in _derived_consts(k, derived)})
    if not cs:
        return z3.BoolVal(True)
    hyps = list(ctx.hyps()) if ctx is not None else []
    if derived:
        # closure: a derived scalar is tied to tensors by the axioms that mention it
        changed = True
        while changed:
            changed = False
            for h in hyps:
                if mentions(h, list(cs)):
                    for c in [c for c in t_consts(h) if not c.eq(tz.ONE) and not c.eq(tz.TZERO)] + _derived_consts(h, derived):
                        if str(c) not in cs:
                            cs[str(c)] = c
                            changed = True
    sub = [(c, z3.Const(str(c) + "'", c.sort())) for c in cs.values()]
    goal = k == z3.substitute(k, *sub)
    if ctx is not None:
        copies = [z3.substitute(h, *sub) for h in hyps if mentions(h, list(cs))]
        if copies:
            goal = z3.Implies(z3.And(*copies), goal)
    return goal


# ----------------------------------------------------------------------------------
# records


CURRENT_JOB: List[str] = [""]


class Record:
    """Everything one (function, configuration) run produced."""

    def __init__(self, fn: str, cfg: Dict[str, Any]):
        self.fn = fn
        self.cfg = cfg
        self.obligations: List[Dict[str, Any]] = []
        self.paths = 0
        self.error: Optional[str] = None
        self.error_kind: Optional[str] = None
        self.inlined: List[str] = []
        self.contracts_used: List[str] = []
        self.cover: str = "?"
        self.notes: List[str] = []
        self.wall_s = 0.0

    def to_json(self) -> Dict[str, Any]:
        return self.__dict__


def cfg_str(cfg: Dict[str, Any]) -> str:
    return ",".join(f"{k}={v}" for k, v in sorted(cfg.items()))


KNOWN_RESTRICTIONS: Dict[str, Callable[[Ctx, Obligation], Optional[z3.BoolRef]]] = {}
"""finding id -> function giving the NEGATED witness class of a known finding as an extra
hypothesis; filled by contracts/known.py from /verif/known_findings.json."""
KNOWN_MATCH: List[Tuple[str, str, str]] = []  # (finding id, job key substring, obligation name)


def _try_known(rec: Record, ctx: Ctx, ob: Obligation) -> Optional[str]:
    import re as _re

    for fid, jobpat, obname in KNOWN_MATCH:
        hit = obname == ob.name or (obname.startswith("re:") and _re.fullmatch(obname[3:], ob.name) is not None)
        if hit and jobpat in getattr(rec, "job_key", ""):
            fn = KNOWN_RESTRICTIONS.get(fid)
            if fn is None:
                continue
            extra = fn(ctx, ob)
            if extra is False:
                continue  # not in the witness class of this finding
            if extra is None:
                return fid  # finding keyed by configuration only
            ob2 = Obligation(ob.name, [extra], ob.goal, ob.info)
            ob2._pc = ob._pc  # type: ignore[attr-defined]
            ob2._ctx = ob._ctx  # type: ignore[attr-defined]
            discharge(ob2)
            if ob2.status == "discharged":
                return fid
    return None


def finish_obligations(rec: Record, ctx: Ctx, path_idx: int, witness_exprs: Optional[Dict[str, Any]] = None) -> None:
    for ob in ctx.obligations:
        discharge(ob)
        if ob.status == "violated":
            fid = _try_known(rec, ctx, ob)
            if fid is not None:
                ob.status = "known_finding"
                ob.info = dict(ob.info, finding=fid)
        gen = ctx.__dict__.get("generic_ops")
        if gen:
            ob.info = dict(ob.info, generic_ops=sorted(gen))
        d = {
            "name": ob.name,
            "path": path_idx,
            "status": ob.status,
            "solver": ob.solver,
            "time_s": round(ob.time_s, 4),
            "info": {k: (v if isinstance(v, (str, int, float, bool, type(None), list, dict)) else str(v)) for k, v in ob.info.items()},
        }
        if ob.status in ("violated", "known_finding"):
            d["model"] = ob.model
            if witness_exprs:
                w = {}
                for k, e in witness_exprs.items():
                    try:
                        w[k] = eval_in_model(ob, e)
                    except Exception:
                        w[k] = "?"
                d["witness"] = w
        if ob.status == "undecided":
            try:
                from .solve import smt2_of

                d["smt2_bytes"] = len(smt2_of(ob))
            except Exception:
                pass
        rec.obligations.append(d)


def run_config(
    fn: str,
    cfg: Dict[str, Any],
    build: Callable[[Ctx], Tuple[Interp, Callable[[], Any]]],
    post: Callable[[PathResult, int], Optional[Dict[str, Any]]],
    max_paths: int = 256,
) -> Record:
    """build(ctx) -> (interp, thunk); post(path, idx) emits obligations into path.ctx and
    may return witness expressions {name: z3 expr} evaluated in counter-models."""
    rec = Record(fn, cfg)
    rec.job_key = CURRENT_JOB[0]  # type: ignore[attr-defined]
    t0 = time.time()
    try:
        paths = explore(build, max_paths=max_paths)
        rec.paths = len(paths)
        covered = False
        for i, p in enumerate(paths):
            if not covered:
                c = cover(p.ctx.hyps())
                if c == "sat":
                    covered = True
            wit = post(p, i)
            finish_obligations(rec, p.ctx, i, wit)
            rec.inlined = sorted(set(rec.inlined) | p.interp.inlined_used)
            rec.contracts_used = sorted(set(rec.contracts_used) | p.interp.contracts_used)
            if p.ctx.unknown_branches:
                rec.notes.append(f"path {i}: {p.ctx.unknown_branches} branch feasibility checks returned unknown (both sides explored)")
        rec.cover = "sat" if covered else "no-satisfiable-path"
        cuts = getattr(paths, "cuts", [])
        if cuts:
            # the obligations of the completed paths stay decided; the job as a whole is incomplete
            rec.error, rec.error_kind = f"out of reach: {len(cuts)} path(s) abandoned: {cuts[0]}", "out_of_reach"
    except OutOfReach as e:
        rec.error, rec.error_kind = f"out of reach: {e}", "out_of_reach"
    except Exception as e:  # machinery error
        rec.error, rec.error_kind = f"{type(e).__name__}: {e}\n{traceback.format_exc()}", "crash"
    rec.wall_s = round(time.time() - t0, 3)
    return rec


# ----------------------------------------------------------------------------------
# value comparison (body vs summary)


def compare_values(ctx: Ctx, interp: Interp, name: str, a: Any, b: Any, leaves: Sequence[SymTensor] = (), info: Optional[Dict[str, Any]] = None) -> None:
    """Emit obligations stating that a (body) and b (spec) are the same value."""
    info = info or {}
    num = (int, Fraction, SV)
    if isinstance(a, bool) or isinstance(b, bool) or isinstance(a, SB) or isinstance(b, SB):
        if isinstance(a, (bool, SB)) and isinstance(b, (bool, SB)):
            ctx.oblige(name + ":bool", zbool(a) == zbool(b), **info)
        else:
            ctx.oblige(name + ":type", False, got=repr(a), want=repr(b), **info)
        return
    if isinstance(a, num) and isinstance(b, num):
        ctx.oblige(name + ":eq", zreal(a) == zreal(b), **info)
        return
    if isinstance(a, (tuple, list)) and isinstance(b, (tuple, list)):
        if len(a) != len(b):
            ctx.oblige(name + ":len", False, got=len(a), want=len(b), **info)
            return
        for i, (x, y) in enumerate(zip(a, b)):
            compare_values(ctx, interp, f"{name}[{i}]", x, y, leaves, info)
        return
    if isinstance(a, SymTensor) and isinstance(b, SymTensor):
        compare_tensors(ctx, interp, name, a, b, leaves, info)
        return
    if a is None and b is None:
        ctx.oblige(name + ":none", True, **info)
        return
    if isinstance(a, str) and isinstance(b, str):
        ctx.oblige(name + ":str", a == b, **info)
        return
    if isinstance(a, Shape) and isinstance(b, Shape):
        r = a.eq(ctx, b)
        ctx.oblige(name + ":shape", r if isinstance(r, bool) else r.z, **info)
        return
    if isinstance(a, tz.Opaque) and isinstance(b, tz.Opaque):
        ctx.oblige(name + ":opaque", a.z == b.z, **info)
        return
    h = getattr(a, "pyvc_equals", None) or getattr(b, "pyvc_equals", None)
    if h is not None:
        r = h(interp, a, b)
        ctx.oblige(name + ":eq", r if isinstance(r, bool) else r.z, **info)
        return
    if a is b:
        ctx.oblige(name + ":same", True, **info)
        return
    ctx.oblige(name + ":type", False, got=repr(a)[:80], want=repr(b)[:80], **info)


def shape_eq_goal(ctx: Ctx, a: Shape, b: Shape) -> Any:
    r = a.eq(ctx, b)
    return r if isinstance(r, bool) else r.z


def compare_tensors(ctx: Ctx, interp: Interp, name: str, a: SymTensor, b: SymTensor, leaves: Sequence[SymTensor], info: Dict[str, Any]) -> None:
    ctx.oblige(name + ":value", lc_equal_goal(ctx, a.val, b.val), **info)
    ctx.oblige(name + ":shape", shape_eq_goal(ctx, a.shape, b.shape), **info)
    ctx.oblige(name + ":dtype", a.dtype == b.dtype if z3.is_expr(a.dtype) or z3.is_expr(b.dtype) else a.dtype is b.dtype, **info)
    if leaves:
        g = LinComb.of(z3.Const("g!" + ctx.fresh("up"), tz.T))
        ga = tz.backward(ctx, a, g, interp)
        gb = tz.backward(ctx, b, g, interp)
        for lf in leaves:
            if lf.node is None:
                continue
            la = ga.get(lf.node.id, (None, LinComb()))[1]
            lb = gb.get(lf.node.id, (None, LinComb()))[1]
            ctx.oblige(f"{name}:grad[{lf.name}]", lc_equal_goal(ctx, la, lb), **info)


def eval_expr(interp: Interp, src: str, names: Dict[str, Any], module: str = "unit_scaling.functional") -> Any:
    """Evaluate a reference expression (Python syntax) against the trusted torch model."""
    m = interp.get_module(module)
    env = Env(m.env, dict(names))
    env.vars.setdefault("F", interp.get_module("torch.nn.functional"))
    env.vars.setdefault("torch", interp.get_module("torch"))
    node = ast.parse(src, mode="eval").body
    d = interp.depth
    interp.depth = 1
    try:
        return interp.eval(node, env)
    finally:
        interp.depth = d


def lookup_fn(interp: Interp, qual: str) -> Any:
    """'unit_scaling.functional.linear' / 'unit_scaling.scale._ScaledGrad.forward'"""
    parts = qual.split(".")
    for i in range(len(parts), 0, -1):
        mod = ".".join(parts[:i])
        if interp.repo.module_path(mod) is not None and mod.startswith("unit_scaling"):
            v: Any = interp.get_module(mod)
            for p in parts[i:]:
                v = interp.getattr(v, p)
            return v
    raise OutOfReach(f"cannot resolve {qual}")


class GenericSeq:
    """A sequence of arbitrary (unknown) length.  A `for` loop over it executes its body
    ONCE, for an arbitrary element, after `on_enter` has replaced the loop-carried state
    by an arbitrary state satisfying the loop invariant: this is the *preservation* VC of
    the invariant; *initiation* is checked by `on_enter` on the state it finds, *use* by
    the postcondition on what the function returns."""

    def __init__(self, elem: Any, on_enter: Optional[Callable[[Any, Any], None]] = None, name: str = "seq"):
        self.elem = elem
        self.on_enter = on_enter
        self.name = name
        self.entered = 0

    def pyvc_generic_loop(self, interp: Any, env: Any) -> List[Any]:
        self.entered += 1
        if self.on_enter is not None:
            self.on_enter(interp, env)
        return [self.elem]

    def pyvc_iter(self, interp: Any) -> List[Any]:
        """iteration outside a `for` statement (comprehension, list(...), sum(...)): ONE arbitrary element;
        the traversal is counted (a caller's one-shot iterator can be consumed only once), the
        loop-invariant hook belongs to `for` statements and is not run"""
        self.entered += 1
        return [self.elem]

    def pyvc_types(self) -> Any:
        return {"list", "Iterable", "Sequence"}
