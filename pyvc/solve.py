"""pyvc.solve -- discharge obligations: z3 5.1 (API) first, then SMT-LIB2 text to
/usr/bin/cvc5 and /usr/bin/z3 (4.8.12) on `unknown`.

Verdicts:  unsat -> discharged ; sat -> violated (+ model) ; all unknown -> undecided.
"""
from __future__ import annotations

import os
import subprocess
import tempfile
import time
from typing import Any, Dict, List, Optional, Tuple

import z3

from .sym import Obligation

Z3_TIMEOUT_MS = int(os.environ.get("PYVC_Z3_TIMEOUT_MS", "20000"))
EXT_TIMEOUT_S = int(os.environ.get("PYVC_EXT_TIMEOUT_S", "60"))


def _model_dict(m: z3.ModelRef) -> Dict[str, str]:
    out: Dict[str, str] = {}
    for d in m.decls():
        if d.arity() == 0:
            try:
                out[d.name()] = str(m[d])
            except Exception:
                pass
    return out


def _hyps(ob: Obligation) -> List[z3.BoolRef]:
    ctx = getattr(ob, "_ctx", None)
    hyps = list(ob.hyps)
    if ctx is not None:
        hyps += list(ctx.axioms)
    hyps += list(getattr(ob, "_pc", []))
    return hyps


def smt2_of(ob: Obligation) -> str:
    s = z3.Solver()
    s.add(*_hyps(ob))
    s.add(z3.Not(ob.goal))
    return s.to_smt2()


def _run_external(cmd: List[str], text: str, timeout_s: int) -> str:
    with tempfile.NamedTemporaryFile("w", suffix=".smt2", delete=False, dir=os.environ.get("PYVC_TMP", None)) as f:
        f.write(text)
        path = f.name
    try:
        r = subprocess.run(cmd + [path], capture_output=True, text=True, timeout=timeout_s)
        out = r.stdout.strip().splitlines()
        return out[0].strip() if out else "unknown"
    except subprocess.TimeoutExpired:
        return "unknown"
    finally:
        os.unlink(path)


def discharge(ob: Obligation, timeout_ms: Optional[int] = None) -> Obligation:
    t0 = time.time()
    hyps = _hyps(ob)
    tactics: List[Tuple[str, Any]] = []
    s = z3.Solver()
    timeout_ms = timeout_ms or ob.info.get("timeout_ms") or Z3_TIMEOUT_MS
    s.set("timeout", timeout_ms)
    s.add(*hyps)
    s.add(z3.Not(ob.goal))
    r = s.check()
    if r == z3.unsat:
        ob.status, ob.solver = "discharged", "z3-5.1"
    elif r == z3.sat:
        ob.status, ob.solver = "violated", "z3-5.1"
        m = s.model()
        # prefer a small counter-model (replayable shapes): bound the integer and real inputs
        try:
            s.push()
            s.set("timeout", 3000)
            for d in m.decls():
                if d.arity() == 0 and d.range() == z3.IntSort():
                    c = z3.Int(d.name())
                    s.add(c <= 12, c >= -12)
                elif d.arity() == 0 and d.range() == z3.RealSort() and d.name() != "pi":
                    c = z3.Real(d.name())
                    s.add(c <= 16, c >= -16)
            if s.check() == z3.sat:
                m = s.model()
            s.pop()
        except z3.Z3Exception:
            pass
        ob.model = _model_dict(m)
        ob._z3model = m  # type: ignore[attr-defined]
    else:
        # second opinions
        text = s.to_smt2()
        verdict = "unknown"
        who = ""
        # nlsat tactic in-process
        try:
            if ob.info.get("bit_precise"):
                raise z3.Z3Exception("skip nlsat for FP/BV queries")
            g = z3.Goal()
            g.add(*hyps)
            g.add(z3.Not(ob.goal))
            t = z3.TryFor(z3.Then("simplify", "solve-eqs", "purify-arith", "qfnra-nlsat"), timeout_ms or Z3_TIMEOUT_MS)
            s2 = t.solver()
            s2.add(*hyps)
            s2.add(z3.Not(ob.goal))
            r2 = s2.check()
            if r2 == z3.unsat:
                verdict, who = "unsat", "z3-5.1(nlsat)"
        except z3.Z3Exception:
            pass
        if verdict == "unknown":
            for name, cmd in (
                ("cvc5-1.0.3", ["/usr/bin/cvc5", "--nl-cov", f"--tlimit={EXT_TIMEOUT_S * 1000}"]),
                ("z3-4.8.12", ["/usr/bin/z3", f"-T:{EXT_TIMEOUT_S}"]),
            ):
                v = _run_external(cmd, text, EXT_TIMEOUT_S + 5)
                if v in ("unsat", "sat"):
                    verdict, who = v, name
                    break
        if verdict == "unknown":
            # look for a counter-model on small concrete instances (a model found this way is a
            # genuine counterexample; failing to find one decides nothing)
            ints = _int_consts(hyps + [ob.goal])
            s3 = z3.Solver()
            s3.set("timeout", 5000)
            s3.add(*hyps)
            s3.add(z3.Not(ob.goal))
            found = None
            for val in (2, 3, 1, 4):
                for k_ in range(0, min(len(ints), 3) + 1):
                    s3.push()
                    for c in ints[k_:]:
                        if not str(c).startswith(("n_valid", "bmul")):
                            s3.add(c == val)
                    if s3.check() == z3.sat:
                        found = s3.model()
                    s3.pop()
                    if found is not None:
                        break
                if found is not None:
                    break
            if found is not None:
                verdict, who = "sat", "z3-5.1(pinned small instance)"
                ob._z3model = found  # type: ignore[attr-defined]
                ob.model = _model_dict(found)
        if verdict == "unsat":
            ob.status, ob.solver = "discharged", who
        elif verdict == "sat":
            ob.status, ob.solver = "violated", who
            ob.model = ob.model or {}
        else:
            ob.status, ob.solver = "undecided", "z3-5.1,cvc5-1.0.3,z3-4.8.12"
    ob.time_s = time.time() - t0
    return ob


def _int_consts(hyps: List[z3.BoolRef]) -> List[z3.ExprRef]:
    out: Dict[str, z3.ExprRef] = {}
    seen = set()
    stack = list(hyps)
    while stack:
        x = stack.pop()
        if x.get_id() in seen:
            continue
        seen.add(x.get_id())
        if z3.is_const(x) and x.decl().kind() == z3.Z3_OP_UNINTERPRETED and x.sort() == z3.IntSort():
            out[str(x)] = x
        stack.extend(x.children())
    return list(out.values())


def cover(hyps: List[z3.BoolRef], timeout_ms: int = 5000) -> str:
    """Vacuity guard: the hypotheses must be satisfiable.  On `unknown` (irrational
    witnesses for the root axioms) the search is helped by pinning the integer inputs to
    small values; any model found is a genuine model of the hypotheses."""
    s = z3.Solver()
    s.set("timeout", timeout_ms)
    s.add(*hyps)
    r = s.check()
    if r != z3.unknown:
        return str(r)
    ints = _int_consts(hyps)
    for val in (1, 2, 3, 4):
        for k in range(len(ints) + 1):
            # pin all but the first k integer constants
            s.push()
            for c in ints[k:]:
                s.add(c == val)
            rr = s.check()
            s.pop()
            if rr == z3.sat:
                return "sat"
            if k >= 3:
                break
    return "unknown"


def eval_in_model(ob: Obligation, e: z3.ExprRef) -> str:
    m = getattr(ob, "_z3model", None)
    if m is None:
        return "?"
    return str(m.eval(e, model_completion=True))
