"""pyvc.torchmodel -- the trusted catalogue: ASSUMED contracts of torch / math / stdlib.

Everything in this file is an assumption about a dependency (A2), never about repo code.
Each entry is validated at run time against the installed torch by
/verif/trusted/validate_torch.py (bounded; "assumption validation", not proof).

Conventions: a torch op is an uninterpreted function `op!<name>` of its *normalised*
argument list (signature tables below); its VJPs are uninterpreted and linear in the
upstream gradient.  Assumed identities are applied as canonicalisations:
  F.silu(y)                       == y * sigmoid(y)
  F.mse_loss(.., 'mean')          == F.mse_loss(.., 'sum') / numel(input)
  F.cross_entropy(.., 'mean')     == F.cross_entropy(.., 'sum') / n_valid(target, ignore_index)
  F.dropout(x, p, training=False) == x            (handled by the uninterpreted op: same args)
  x * 1 == x ; (x * a) / a == x  for a != 0       (vector-space axioms in tensor.py)
"""
from __future__ import annotations

from fractions import Fraction
from typing import Any, Callable, Dict, List, Optional, Sequence, Tuple

import z3

from .sym import SB, SV, Ctx, OutOfReach, PyRaise, bool_and, bool_not, bool_or, is_concrete_num, mk_bool, mk_num, num_binop, num_cmp, num_exp, num_log, num_pow, pi_value, zint, zreal
from . import tensor as tz
from .tensor import DT, DTYPES, LinComb, LinNode, MulNode, OpNode, Opaque, ScaleNode, Shape, Storage, SymTensor, T, V, to_V

REQ = object()


def normalise(name: str, sig: Sequence[Tuple[str, Any]], args: List[Any], kwargs: Dict[str, Any]) -> List[Any]:
    names = [n for n, _ in sig]
    if len(args) > len(sig):
        raise PyRaise("TypeError", f"{name}() takes at most {len(sig)} arguments ({len(args)} given)")
    vals: Dict[str, Any] = dict(zip(names, args))
    for k, v in kwargs.items():
        if k not in names:
            raise PyRaise("TypeError", f"{name}() got an unexpected keyword argument '{k}'")
        if k in vals:
            raise PyRaise("TypeError", f"{name}() got multiple values for argument '{k}'")
        vals[k] = v
    out = []
    for n, d in sig:
        if n in vals:
            out.append(vals[n])
        elif d is REQ:
            raise PyRaise("TypeError", f"{name}() missing required argument '{n}'")
        else:
            out.append(d)
    return out


_PROMOTE = z3.Function("promote", DT, DT, DT)


def promote(ctx: Ctx, a: Any, b: Any) -> Any:
    if a is b or (z3.is_expr(a) and z3.is_expr(b) and a.eq(b)):
        return a
    r = _PROMOTE(a, b)
    ctx.axiom(z3.Implies(a == b, r == a))
    return r


def is_float_dtype(dt: Any) -> z3.BoolRef:
    return z3.Or(*[dt == d for d in tz.FLOAT_DTYPES])


def op_app(
    interp: Any,
    op: str,
    values: List[Any],
    out_shape: Shape,
    out_dtype: Any,
    coef: Any = 1,
    grad_positions: Optional[List[int]] = None,
) -> SymTensor:
    """Apply the uninterpreted torch op to normalised argument values."""
    ctx = interp.ctx
    args_v = [to_V(ctx, v) for v in values]
    f = z3.Function("op!" + op, *([V] * len(args_v)), T)
    base = f(*args_v)
    tpos = [i for i, v in enumerate(values) if isinstance(v, SymTensor) and (grad_positions is None or i in grad_positions)]
    node = OpNode(op, args_v, tpos, [values[i].node for i in tpos])
    t = SymTensor(out_shape, out_dtype, LinComb([(base, zreal(coef))]), node)
    return t


# ----------------------------------------------------------------------------------
# tensor arithmetic


def _scalar_tensor(x: Any) -> bool:
    return isinstance(x, SymTensor) and x.val.is_const()


def _const_of(x: SymTensor) -> SV:
    return SV(x.val.terms[0][1], "real")


def _same_shape(ctx: Ctx, a: Shape, b: Shape) -> bool:
    r = a.eq(ctx, b)
    return r is True


def _unb(ctx: Ctx, inp: SymTensor, out_shape: Shape) -> Optional[z3.ExprRef]:
    if _same_shape(ctx, inp.shape, out_shape):
        return None
    return tz.shape_V(ctx, inp.shape)


def _dim_same(a: Any, b: Any) -> bool:
    if isinstance(a, SV) and isinstance(b, SV):
        return a.z.eq(b.z)
    if isinstance(a, tz.Run) or isinstance(b, tz.Run):
        return a is b
    return type(a) is type(b) and a == b


def _align_broadcast(a: Shape, b: Shape) -> Optional[Shape]:
    """Right-aligned broadcasting decided structurally: dims pairwise identical, or one
    of them the literal 1; the longer shape contributes its remaining prefix."""
    sa, sb = list(a.segs), list(b.segs)
    out: List[Any] = []
    while sa and sb:
        x, y = sa[-1], sb[-1]
        if _dim_same(x, y):
            out.append(x)
        elif isinstance(x, int) and x == 1 and not isinstance(y, tz.Run):
            out.append(y)
        elif isinstance(y, int) and y == 1 and not isinstance(x, tz.Run):
            out.append(x)
        else:
            return None
        sa.pop()
        sb.pop()
    rest = sa or sb
    return Shape(rest + out[::-1])


def broadcast_info(ctx: Ctx, shapes: Sequence[Shape]) -> Tuple[Shape, List[Any]]:
    """ASSUMED (torch.broadcast_shapes): numel(result) == m_i * numel(operand_i) for
    positive integers m_i; returns (result shape, [m_i])."""
    key = tuple(tuple(id(x) if isinstance(x, tz.Run) else (("z", x.z.get_id()) if isinstance(x, SV) else x) for x in s.segs) for s in shapes)
    cache = ctx.__dict__.setdefault("_bcast_cache", {})
    if key in cache:  # a function of its arguments
        return cache[key]
    out: Optional[Shape] = shapes[0]
    for s in shapes[1:]:
        out = _align_broadcast(out, s) if out is not None else None
    if out is None:
        run = tz.Run(ctx, "bcast")
        out = Shape([run])
        for s in shapes:
            ctx.axiom(run.n >= zint(s.length(ctx)))
    mults: List[Any] = []
    n_out = out.numel(ctx)
    for s in shapes:
        if s is out or _same_shape(ctx, s, out):
            mults.append(1)
            continue
        m = ctx.fresh_int("bmul")
        ctx.axiom(z3.And(m.z >= 1, zint(n_out) == m.z * zint(s.numel(ctx))))
        mults.append(m)
    cache[key] = (out, mults)
    return cache[key]


def broadcast_shape(ctx: Ctx, shapes: Sequence[Shape]) -> Shape:
    return broadcast_info(ctx, shapes)[0]


def tensor_binop(interp: Any, op: str, a: Any, b: Any, inplace: bool = False) -> Any:
    ctx = interp.ctx
    for x in (a, b):
        h = getattr(x, "pyvc_binop", None)
        if h is not None:
            return h(interp, op, a, b, inplace)
    res = _tensor_binop(interp, op, a, b)
    if inplace:
        if not isinstance(a, SymTensor):
            return res
        ctx.effects.append(("inplace", a.storage, op))
        a.val, a.node = res.val, res.node
        return a
    return res


def _tensor_binop(interp: Any, op: str, a: Any, b: Any) -> SymTensor:
    ctx = interp.ctx
    num = (int, Fraction, SV, bool)
    if isinstance(a, SymTensor) and isinstance(b, num):
        if op == "*":
            return SymTensor(a.shape, a.dtype, a.val.scale(b), LinNode([a.node], [zreal(b)], [None]))
        if op == "/":
            if ctx.branch(zreal(b) == 0):
                # torch: division by zero gives inf/nan, not an exception; out of the algebra
                raise OutOfReach("tensor / 0")
            inv = num_binop(ctx, "/", 1, b)
            return SymTensor(a.shape, a.dtype, a.val.scale(inv), LinNode([a.node], [zreal(inv)], [None]))
        if op in "+-":
            c = b if op == "+" else num_binop(ctx, "-", 0, b)
            return SymTensor(a.shape, a.dtype, a.val.plus(LinComb.const(c)), LinNode([a.node], [z3.RealVal(1)], [None]))
        if op == "**":
            return op_app(interp, "pow", [a, b], a.shape, a.dtype)
    if isinstance(b, SymTensor) and isinstance(a, num):
        if op == "*":
            return _tensor_binop(interp, "*", b, a)
        if op == "+":
            return _tensor_binop(interp, "+", b, a)
        if op == "-":
            neg = _tensor_binop(interp, "*", b, -1)
            return _tensor_binop(interp, "+", neg, a)
        if op == "/":
            return op_app(interp, "rdiv", [a, b], b.shape, b.dtype)
    if isinstance(a, SymTensor) and isinstance(b, SymTensor):
        if _scalar_tensor(b) and op in "*/":
            r = _tensor_binop(interp, op, a, _const_of(b))
            return r
        if _scalar_tensor(a) and op == "*":
            return _tensor_binop(interp, op, b, _const_of(a))
        out_shape = broadcast_shape(ctx, [a.shape, b.shape])
        dt = promote(ctx, a.dtype, b.dtype)
        if op in "+-":
            sgn = 1 if op == "+" else -1
            val = a.val.plus(b.val.scale(sgn))
            node = LinNode([a.node, b.node], [z3.RealVal(1), z3.RealVal(sgn)], [_unb(ctx, a, out_shape), _unb(ctx, b, out_shape)])
            return SymTensor(out_shape, dt, val, node)
        if op == "*":
            if not (_same_shape(ctx, a.shape, out_shape) and _same_shape(ctx, b.shape, out_shape)):
                return op_app(interp, "mul_bcast", [a, b], out_shape, dt)
            return SymTensor(out_shape, dt, tz.lc_mul(a.val, b.val), MulNode(a.node, b.node, a.val, b.val))
        if op == "/":
            return op_app(interp, "div", [a, b], out_shape, dt)
        if op == "@":
            return t_matmul(interp, [a, b], {})
    raise OutOfReach(f"tensor binop {op} on {type(a).__name__}, {type(b).__name__}")


def tensor_item(interp: Any, t: SymTensor) -> SV:
    """float(t) / t.item(): a real that is an uninterpreted function of the tensor value."""
    if t.val.is_const():
        return _const_of(t)
    f = z3.Function("item", T, z3.RealSort())
    if len(t.val.terms) == 1:
        # ASSUMED: item() of a 0-dim tensor is linear:  item(c * t) == c * item(t)
        term, c = t.val.terms[0]
        return SV(z3.simplify(c * f(term)), "real")
    return SV(f(tz.materialise(interp.ctx, t.val)), "real")


def tensor_getitem(interp: Any, t: SymTensor, k: Any) -> Any:
    raise OutOfReach("tensor indexing")


# ----------------------------------------------------------------------------------
# tensor attributes / methods


def tensor_attr(interp: Any, t: SymTensor, name: str) -> Any:
    from .interp import Builtin

    ctx = interp.ctx
    if name in t.attrs:
        return t.attrs[name]
    if name == "shape":
        return t.shape
    if name == "dtype":
        return t.dtype
    if name == "device":
        return Opaque(z3.Const("device", V), "device")
    if name == "requires_grad":
        return t.requires_grad
    if name == "data":
        d = SymTensor(t.shape, t.dtype, t.val, None, t.storage, t.name + ".data", False)
        return d
    if name == "grad":
        return None
    if name == "ndim":
        return t.shape.length(ctx)
    if name == "__dict__":
        return t.attrs  # instance attributes (ASSUMED: tensors keep python attributes in __dict__)
    meth = _TENSOR_METHODS.get(name)
    if meth is not None:
        return Builtin("Tensor." + name, lambda it, a, k, _m=meth: _m(it, [t] + list(a), k))
    if name == "_version":
        return t.storage.__dict__.get("version", 0)
    if name in ("mup_type", "mup_scaling_depth", "__deepcopy__", "__reduce_ex__") or (name.startswith("_") and not name.startswith("__")):
        # python-level attributes that were never set on this tensor object
        raise PyRaise("AttributeError", f"'Tensor' object has no attribute '{name}'")
    if name.startswith("__"):
        raise OutOfReach(f"Tensor.{name}")
    # an UNMODELLED tensor method: unknown function of its arguments (generic fallback, see GenericTorch)
    g = GenericTorch("Tensor." + name)
    return Builtin("Tensor." + name, lambda it, a, k: g.pyvc_call(it, [t] + list(a), k))


def tm_numel(interp: Any, args: List[Any], kwargs: Dict[str, Any]) -> Any:
    return args[0].shape.numel(interp.ctx)


def tm_size(interp: Any, args: List[Any], kwargs: Dict[str, Any]) -> Any:
    if len(args) == 1:
        return args[0].shape
    return args[0].shape.getitem(interp.ctx, args[1])


def tm_dim(interp: Any, args: List[Any], kwargs: Dict[str, Any]) -> Any:
    return args[0].shape.length(interp.ctx)


def _log_conversion(interp: Any, src: Any, dst: Any) -> None:
    """dtype conversions are value-preserving in the real-number model (A1); they are LOGGED so that
    contracts which depend on precision can state that no narrowing conversion happens"""
    interp.ctx.__dict__.setdefault("dtype_conversions", []).append((src, dst))


def narrowing(src: Any, dst: Any) -> Any:
    """z3 condition: converting src -> dst loses range or precision (floating dtypes)"""
    f64, f32, bf16, f16 = (DTYPES[n] for n in ("float64", "float32", "bfloat16", "float16"))
    return z3.Or(z3.And(src == f64, dst != f64), z3.And(src == f32, z3.Or(dst == bf16, dst == f16)), z3.And(src == bf16, dst == f16), z3.And(src == f16, dst == bf16))


def tm_float(interp: Any, args: List[Any], kwargs: Dict[str, Any]) -> Any:
    t = args[0]
    _log_conversion(interp, t.dtype, DTYPES["float32"])
    return SymTensor(t.shape, DTYPES["float32"], t.val, LinNode([t.node], [z3.RealVal(1)], [None]))


def tm_to(interp: Any, args: List[Any], kwargs: Dict[str, Any]) -> Any:
    t = args[0]
    dt = args[1] if len(args) > 1 else kwargs.get("dtype")
    if not (z3.is_expr(dt) and dt.sort() == DT):
        raise OutOfReach("Tensor.to(non-dtype)")
    _log_conversion(interp, t.dtype, dt)
    return SymTensor(t.shape, dt, t.val, LinNode([t.node], [z3.RealVal(1)], [None]))


def _unary_op(name: str, shape_fn: Optional[Callable[..., Shape]] = None) -> Callable[..., Any]:
    def f(interp: Any, args: List[Any], kwargs: Dict[str, Any]) -> Any:
        t = args[0]
        rest = list(args[1:]) + [kwargs[k] for k in sorted(kwargs)]
        sh = shape_fn(interp, t, args[1:], kwargs) if shape_fn else t.shape
        return op_app(interp, name, [t] + rest, sh, t.dtype)

    return f


def _reduce_shape(interp: Any, t: SymTensor, rest: Sequence[Any], kwargs: Dict[str, Any]) -> Shape:
    dims = rest[0] if rest else kwargs.get("dim", kwargs.get("dims"))
    keep = kwargs.get("keepdim", rest[1] if len(rest) > 1 else False)
    if dims is None:
        return Shape([])
    if keep is True:
        # reduced dims become 1: only trailing concrete dims are supported
        if isinstance(dims, (tuple, list)) and all(isinstance(d, int) and d < 0 for d in dims):
            segs = list(t.shape.segs)
            for d in dims:
                if isinstance(segs[d], tz.Run):
                    raise OutOfReach("reduction over an abstract run")
                segs[d] = 1
            return Shape(segs)
    raise OutOfReach("reduction shape")


def tm_clone(interp: Any, args: List[Any], kwargs: Dict[str, Any]) -> Any:
    t = args[0]
    r = SymTensor(t.shape, t.dtype, t.val, LinNode([t.node], [z3.RealVal(1)], [None]) if t.node is not None else None)
    r.attrs = {}
    return r


def tm_detach(interp: Any, args: List[Any], kwargs: Dict[str, Any]) -> Any:
    t = args[0]
    return SymTensor(t.shape, t.dtype, t.val, None, t.storage, t.name, False)


def tm_item(interp: Any, args: List[Any], kwargs: Dict[str, Any]) -> Any:
    return tensor_item(interp, args[0])


def tm_is_floating_point(interp: Any, args: List[Any], kwargs: Dict[str, Any]) -> Any:
    return mk_bool(is_float_dtype(args[0].dtype))


def tm_requires_grad_(interp: Any, args: List[Any], kwargs: Dict[str, Any]) -> Any:
    t = args[0]
    flag = args[1] if len(args) > 1 else kwargs.get("requires_grad", True)
    interp.ctx.effects.append(("requires_grad_", t.storage, flag))
    t.requires_grad = flag
    return t


def tm_zero_(interp: Any, args: List[Any], kwargs: Dict[str, Any]) -> Any:
    t = args[0]
    interp.ctx.effects.append(("inplace", t.storage, "zero_"))
    t.storage.__dict__["fill"] = "zeros"
    return t


_TENSOR_METHODS: Dict[str, Callable[..., Any]] = {
    "numel": tm_numel,
    "nelement": tm_numel,
    "size": tm_size,
    "dim": tm_dim,
    "float": tm_float,
    "to": tm_to,
    "pow": _unary_op("pow"),
    "mean": _unary_op("mean", _reduce_shape),
    "sqrt": _unary_op("sqrt"),
    "abs": _unary_op("abs"),
    "std": _unary_op("std", _reduce_shape),
    "max": _unary_op("max", _reduce_shape),
    "min": _unary_op("min", _reduce_shape),
    "clone": tm_clone,
    "detach": tm_detach,
    "item": tm_item,
    "is_floating_point": tm_is_floating_point,
    "requires_grad_": tm_requires_grad_,
    "zero_": tm_zero_,
}


# ----------------------------------------------------------------------------------
# torch.nn.functional / torch ops


def _elementwise(opname: str, sig: Sequence[Tuple[str, Any]]) -> Callable[..., Any]:
    def f(interp: Any, args: List[Any], kwargs: Dict[str, Any]) -> Any:
        vals = normalise(opname, sig, args, kwargs)
        x = vals[0]
        if not isinstance(x, SymTensor):
            raise OutOfReach(f"{opname} on non-tensor")
        return op_app(interp, opname, vals, x.shape, x.dtype)

    return f


F_gelu = _elementwise("gelu", [("input", REQ), ("approximate", "none")])
F_sigmoid = _elementwise("sigmoid", [("input", REQ)])


def F_silu(interp: Any, args: List[Any], kwargs: Dict[str, Any]) -> Any:
    x, inplace = normalise("silu", [("input", REQ), ("inplace", False)], args, kwargs)
    if inplace is not False:
        interp.ctx.effects.append(("inplace", x.storage, "silu_"))
    # assumed identity: silu(y) = y * sigmoid(y)
    return tensor_binop(interp, "*", x, F_sigmoid(interp, [x], {}))


def F_softmax(interp: Any, args: List[Any], kwargs: Dict[str, Any]) -> Any:
    vals = normalise("softmax", [("input", REQ), ("dim", None), ("_stacklevel", 3), ("dtype", None)], args, kwargs)
    x, dim, _, dtype = vals
    out_dt = x.dtype if dtype is None else dtype
    if isinstance(dtype, Opaque):
        # Optional[dtype] hyper-parameter: result dtype is an uninterpreted function of both
        f = z3.Function("softmax_dtype", DT, V, DT)
        out_dt = f(x.dtype, dtype.z)
    return op_app(interp, "softmax", [x, dim, dtype], x.shape, out_dt)


def F_dropout(interp: Any, args: List[Any], kwargs: Dict[str, Any]) -> Any:
    vals = normalise("dropout", [("input", REQ), ("p", Fraction(1, 2)), ("training", True), ("inplace", False)], args, kwargs)
    x, p, training, inplace = vals
    if inplace is not False:
        if isinstance(inplace, bool) or interp.truth(inplace):
            interp.ctx.effects.append(("inplace", x.storage, "dropout_"))
    return op_app(interp, "dropout", [x, p, training], x.shape, x.dtype)


def t_matmul(interp: Any, args: List[Any], kwargs: Dict[str, Any]) -> Any:
    ctx = interp.ctx
    a, b, out = normalise("matmul", [("input", REQ), ("other", REQ), ("out", None)], args, kwargs)
    if out is not None:
        raise OutOfReach("matmul(out=)")
    sa, sb = a.shape, b.shape
    # supported: (..., m, k) @ (..., k, n) with the same batch prefix object
    if len(sa.segs) < 2 or len(sb.segs) < 2:
        raise OutOfReach("matmul on rank < 2 operands")
    m, k1 = sa.segs[-2], sa.segs[-1]
    k2, n = sb.segs[-2], sb.segs[-1]
    if any(isinstance(s, tz.Run) for s in (m, k1, k2, n)):
        raise OutOfReach("matmul needs two concrete trailing dims")
    if not ctx.branch(num_cmp("==", k1, k2)):
        raise PyRaise("RuntimeError", "matmul shape mismatch")
    pa, pb = sa.segs[:-2], sb.segs[:-2]
    if len(pa) == len(pb) and all(x is y for x, y in zip(pa, pb)):
        batch = pa
    elif not pb:
        batch = pa
    elif not pa:
        batch = pb
    else:
        batch = broadcast_shape(ctx, [Shape(pa), Shape(pb)]).segs
    return op_app(interp, "matmul", [a, b], Shape(list(batch) + [m, n]), promote(ctx, a.dtype, b.dtype))


def F_linear(interp: Any, args: List[Any], kwargs: Dict[str, Any]) -> Any:
    ctx = interp.ctx
    x, w, bias = normalise("linear", [("input", REQ), ("weight", REQ), ("bias", None)], args, kwargs)
    for t in (x, w):
        if not isinstance(t, SymTensor):
            raise OutOfReach("F.linear on non-tensor")
    rank_w = w.shape.concrete_rank()
    if rank_w != 2:
        raise OutOfReach("F.linear weight rank")
    fan_out, fan_in = w.shape.segs
    last = x.shape.getitem(ctx, -1)
    if not ctx.branch(num_cmp("==", last, fan_in)):
        raise PyRaise("RuntimeError", "linear shape mismatch")
    out_shape = Shape(x.shape.segs[:-1] + [fan_out])
    return op_app(interp, "linear", [x, w, bias], out_shape, promote(ctx, x.dtype, w.dtype))


def conv_out_len(ctx: Ctx, L: Any, K: Any, stride: Any, padding: Any, dilation: Any) -> Any:
    t = num_binop(ctx, "+", L, num_binop(ctx, "*", 2, padding))
    t = num_binop(ctx, "-", t, num_binop(ctx, "*", dilation, num_binop(ctx, "-", K, 1)))
    t = num_binop(ctx, "-", t, 1)
    return num_binop(ctx, "+", num_binop(ctx, "//", t, stride), 1)


def F_conv1d(interp: Any, args: List[Any], kwargs: Dict[str, Any]) -> Any:
    ctx = interp.ctx
    sig = [("input", REQ), ("weight", REQ), ("bias", None), ("stride", 1), ("padding", 0), ("dilation", 1), ("groups", 1)]
    x, w, bias, stride, padding, dilation, groups = normalise("conv1d", sig, args, kwargs)
    if w.shape.concrete_rank() != 3:
        raise OutOfReach("conv1d weight rank")
    c_out, c_in_g, K = w.shape.segs
    L = x.shape.getitem(ctx, -1)
    c_in = x.shape.getitem(ctx, -2)
    if not ctx.branch(num_cmp("==", c_in, num_binop(ctx, "*", c_in_g, groups))):
        raise PyRaise("RuntimeError", "conv1d channel mismatch")
    out_len = conv_out_len(ctx, L, K, stride, padding, dilation)
    if not ctx.branch(num_cmp(">=", out_len, 1)):
        raise PyRaise("RuntimeError", "conv1d: kernel larger than padded input")
    out_shape = Shape(x.shape.segs[:-2] + [c_out, out_len])
    return op_app(interp, "conv1d", [x, w, bias, stride, padding, dilation, groups], out_shape, promote(ctx, x.dtype, w.dtype))


def F_layer_norm(interp: Any, args: List[Any], kwargs: Dict[str, Any]) -> Any:
    sig = [("input", REQ), ("normalized_shape", REQ), ("weight", None), ("bias", None), ("eps", Fraction("1e-5"))]
    vals = normalise("layer_norm", sig, args, kwargs)
    x = vals[0]
    return op_app(interp, "layer_norm", vals, x.shape, x.dtype)


def F_rms_norm(interp: Any, args: List[Any], kwargs: Dict[str, Any]) -> Any:
    """ASSUMED identity: F.rms_norm(x, ns, w, eps) == x / sqrt(mean(x^2 over the trailing
    len(ns) dims, keepdim) + eps) [* w]  (computed as the catalogue's primitive ops)."""
    from .harness import eval_expr

    x, ns, w, eps = normalise("rms_norm", [("input", REQ), ("normalized_shape", REQ), ("weight", None), ("eps", None)], args, kwargs)
    if eps is None:
        raise OutOfReach("F.rms_norm(eps=None)")
    k = len(interp.iterate(ns))
    dims = tuple(range(-1, -1 - k, -1))
    out = eval_expr(interp, "x / (x.float().pow(2).mean(dims, keepdim=True) + eps).sqrt().to(x.dtype)", dict(x=x, dims=dims, eps=eps))
    if w is not None:
        out = tensor_binop(interp, "*", out, w)
    return out


def F_embedding(interp: Any, args: List[Any], kwargs: Dict[str, Any]) -> Any:
    sig = [("input", REQ), ("weight", REQ), ("padding_idx", None), ("max_norm", None), ("norm_type", Fraction(2)), ("scale_grad_by_freq", False), ("sparse", False)]
    vals = normalise("embedding", sig, args, kwargs)
    idx, w = vals[0], vals[1]
    ctx = interp.ctx
    if vals[3] is not None:
        # ASSUMED: max_norm renormalises rows of the `weight` argument IN PLACE
        mn = vals[3]
        isnone = interp.identical(mn, None)
        if not (isnone is True) and (isnone is False or not ctx.branch(isnone)):
            ctx.effects.append(("inplace", w.storage, "embedding_renorm_"))
    if w.shape.concrete_rank() != 2:
        raise OutOfReach("embedding weight rank")
    out_shape = Shape(idx.shape.segs + [w.shape.segs[1]])
    return op_app(interp, "embedding", vals, out_shape, w.dtype, grad_positions=[1])


def F_sdpa(interp: Any, args: List[Any], kwargs: Dict[str, Any]) -> Any:
    sig = [("query", REQ), ("key", REQ), ("value", REQ), ("attn_mask", None), ("dropout_p", Fraction(0)), ("is_causal", False), ("scale", None), ("enable_gqa", False)]
    vals = normalise("scaled_dot_product_attention", sig, args, kwargs)
    q, k, v = vals[:3]
    out_shape = Shape(q.shape.segs[:-1] + [v.shape.getitem(interp.ctx, -1)])
    return op_app(interp, "sdpa", vals, out_shape, q.dtype, grad_positions=[0, 1, 2, 3])


_NVALID = z3.Function("n_valid", T, V, z3.IntSort())


def F_cross_entropy(interp: Any, args: List[Any], kwargs: Dict[str, Any]) -> Any:
    ctx = interp.ctx
    sig = [("input", REQ), ("target", REQ), ("weight", None), ("size_average", None), ("ignore_index", -100), ("reduce", None), ("reduction", "mean"), ("label_smoothing", Fraction(0))]
    vals = normalise("cross_entropy", sig, args, kwargs)
    x, target, weight, size_average, ignore_index, reduce, reduction, ls = vals
    if not isinstance(reduction, str):
        raise OutOfReach("symbolic reduction string")
    if reduction not in ("mean", "sum", "none"):
        raise PyRaise("ValueError", f"{reduction} is not a valid value for reduction")
    if reduction == "none":
        raise OutOfReach("cross_entropy reduction='none'")
    # canonical form: the sum-reduced op; ASSUMED identity for 'mean' (unweighted):
    #   mean == sum / n_valid(target, ignore_index),  1 <= n_valid <= batch   (0 valid -> nan, excluded)
    vals_sum = [x, target, weight, size_average, ignore_index, reduce, "sum", ls]
    out = op_app(interp, "cross_entropy", vals_sum, Shape([]), x.dtype, grad_positions=[0])
    if reduction == "mean":
        if weight is not None:
            raise OutOfReach("weighted mean cross entropy")
        nv = _NVALID(tz.materialise(ctx, target.val), to_V(ctx, ignore_index))
        batch = target.shape.numel(ctx)
        ctx.axiom(z3.And(nv >= 1, nv <= zint(batch)))
        return tensor_binop(interp, "/", out, SV(nv, "int"))
    return out


def F_mse_loss(interp: Any, args: List[Any], kwargs: Dict[str, Any]) -> Any:
    ctx = interp.ctx
    sig = [("input", REQ), ("target", REQ), ("size_average", None), ("reduce", None), ("reduction", "mean"), ("weight", None)]
    x, target, size_average, reduce, reduction, weight = normalise("mse_loss", sig, args, kwargs)
    if not isinstance(reduction, str):
        raise OutOfReach("symbolic reduction string")
    if reduction not in ("mean", "sum"):
        raise OutOfReach("mse_loss reduction")
    out = op_app(interp, "mse_loss", [x, target, size_average, reduce, "sum", weight], Shape([]), promote(ctx, x.dtype, target.dtype))
    if reduction == "mean":
        return tensor_binop(interp, "/", out, x.shape.numel(ctx))
    return out


def t_add(interp: Any, args: List[Any], kwargs: Dict[str, Any]) -> Any:
    ctx = interp.ctx
    a, b, alpha, out = normalise("add", [("input", REQ), ("other", REQ), ("alpha", 1), ("out", None)], args, kwargs)
    if not (isinstance(alpha, int) and alpha == 1):
        b = interp.binop("*", b, alpha)
    if not isinstance(a, SymTensor) and not isinstance(b, SymTensor):
        raise OutOfReach("torch.add of two numbers")
    r = tensor_binop(interp, "+", a, b)
    if out is not None:
        isnone = interp.identical(out, None)
        if isnone is True or (isnone is not False and ctx.branch(isnone)):
            return r
        if isinstance(out, SymTensor):
            ctx.effects.append(("out=", out.storage, "add"))
            out.val, out.node, out.shape = r.val, r.node, r.shape
            return out
        ctx.effects.append(("out=", out, "add"))
    return r


def t_broadcast_shapes(interp: Any, args: List[Any], kwargs: Dict[str, Any]) -> Any:
    shapes = [a if isinstance(a, Shape) else Shape(list(a)) for a in args]
    return broadcast_shape(interp.ctx, shapes)


def t_tensor(interp: Any, args: List[Any], kwargs: Dict[str, Any]) -> Any:
    data = args[0]
    dt = kwargs.get("dtype")
    if isinstance(data, (int, Fraction, SV, bool)):
        if dt is None:
            dt = DTYPES["int64"] if (isinstance(data, int) or (isinstance(data, SV) and data.kind == "int")) else DTYPES["float32"]
        return SymTensor(Shape([]), dt, LinComb.const(data), None)
    raise OutOfReach("torch.tensor of non-scalar")


class BoolScalar:
    """a 0-dim bool tensor with a known (symbolic) truth value"""

    def __init__(self, b: Any):
        self.b = b

    def pyvc_getattr(self, interp: Any, name: str) -> Any:
        if name == "item":
            return Builtin("item", lambda it, a, k: self.b)
        raise PyRaise("AttributeError", name)


def t_isclose(interp: Any, args: List[Any], kwargs: Dict[str, Any]) -> Any:
    """ASSUMED torch.isclose(a, b, rtol=1e-05, atol=1e-08): |a - b| <= atol + rtol * |b| (finite values)"""
    a, b, rtol, atol, _ = normalise("isclose", [("input", REQ), ("other", REQ), ("rtol", Fraction("1e-05")), ("atol", Fraction("1e-08")), ("equal_nan", False)], args, kwargs)
    if not (_scalar_tensor(a) and _scalar_tensor(b)):
        raise OutOfReach("torch.isclose on non-scalar tensors")
    za, zb = _const_of(a).z, _const_of(b).z
    ab = lambda x: z3.If(x >= 0, x, -x)  # noqa: E731
    return BoolScalar(mk_bool(ab(za - zb) <= zreal(atol) + zreal(rtol) * ab(zb)))


def t_ones(interp: Any, args: List[Any], kwargs: Dict[str, Any]) -> Any:
    sh = args[0] if len(args) == 1 else tuple(args)
    if isinstance(sh, (int, SV)):
        sh = Shape([sh])
    elif isinstance(sh, (tuple, list)):
        sh = Shape(list(sh))
    t = SymTensor(sh, kwargs["dtype"] if kwargs.get("dtype") is not None else DTYPES["float32"], LinComb.const(1), None)
    t.storage.__dict__["fill"] = "ones"
    return t


def t_like(fill: str) -> Callable[..., Any]:
    """ASSUMED torch.zeros_like / ones_like: a fresh tensor of the argument's shape and dtype (requires_grad False)"""

    def f(interp: Any, args: List[Any], kwargs: Dict[str, Any]) -> Any:
        src = args[0]
        dt = kwargs["dtype"] if kwargs.get("dtype") is not None else src.dtype
        t = SymTensor(src.shape, dt, LinComb.const(1) if fill == "ones" else LinComb.zero() if hasattr(LinComb, "zero") else LinComb.const(0), None)
        t.storage.__dict__["fill"] = fill
        return t

    return f


def F_pad(interp: Any, args: List[Any], kwargs: Dict[str, Any]) -> Any:
    ctx = interp.ctx
    x, pad, mode, value = normalise("pad", [("input", REQ), ("pad", REQ), ("mode", "constant"), ("value", None)], args, kwargs)
    pads = interp.iterate(pad)
    if len(pads) != 2:
        raise OutOfReach("pad of more than the last dim")
    last = x.shape.getitem(ctx, -1)
    new_last = num_binop(ctx, "+", num_binop(ctx, "+", last, pads[0]), pads[1])
    return op_app(interp, "pad", [x, pad, mode, value], Shape(x.shape.segs[:-1] + [new_last]), x.dtype)


# ----------------------------------------------------------------------------------
# torch.autograd.Function (ASSUMED contract of Function.apply):
#   value  = what `forward(ctx, *args)` returns when run on detached arguments
#   VJP    = what `backward(ctx, grad)` returns (one entry per forward argument)
#   autograd delivers to backward the SUM of the gradients of all consumers


def function_apply(interp: Any, args: List[Any], kwargs: Dict[str, Any]) -> Any:
    from .interp import ObjVal

    cls = args[0]
    fargs = list(args[1:])
    fctx = ObjVal(FUNCTION_CTX)
    fctx.attrs["saved_tensors"] = ()
    det = []
    for a in fargs:
        if isinstance(a, SymTensor):
            d = SymTensor(a.shape, a.dtype, a.val, None, a.storage, a.name, False)
            d.attrs = a.attrs
            det.append(d)
        else:
            det.append(a)
    fwd = interp.getattr(cls, "forward")
    out = interp.call(fwd, [fctx] + det, kwargs)
    if not isinstance(out, SymTensor):
        h = getattr(out, "pyvc_function_output", None)
        if h is not None:
            return h(interp, cls, fctx, fargs)
        raise OutOfReach("autograd.Function returning a non-tensor")
    inputs = [a.node if isinstance(a, SymTensor) else None for a in fargs]
    node = tz.FunctionNode(cls, fctx, inputs, len(fargs), [i for i, a in enumerate(fargs) if isinstance(a, SymTensor)], out.shape, out.dtype)
    res = SymTensor(out.shape, out.dtype, out.val, node, out.storage, "", True)
    res.attrs = dict(out.attrs)
    return res


def run_function_backward(interp: Any, node: tz.FunctionNode, g: LinComb) -> List[Optional[LinComb]]:
    G = SymTensor(node.out_shape, node.out_dtype, g, None, None, "grad", False)
    bwd = interp.getattr(node.cls, "backward")
    out = interp.call(bwd, [node.fctx, G], {})
    outs = list(out) if isinstance(out, (tuple, list)) else [out]
    if len(outs) > node.n_args and all(o is None for o in outs[node.n_args:]):
        outs = outs[: node.n_args]  # ASSUMED: autograd tolerates extra trailing None gradients
    if len(outs) != node.n_args:
        raise PyRaise("RuntimeError", f"function backward returned {len(outs)} gradients, expected {node.n_args}")
    res: List[Optional[LinComb]] = []
    for o in outs:
        if o is None:
            res.append(None)
        elif isinstance(o, SymTensor):
            res.append(o.val)
        else:
            raise OutOfReach("backward returned a non-tensor gradient")
    return res


def fctx_save_for_backward(interp: Any, args: List[Any], kwargs: Dict[str, Any]) -> Any:
    args[0].attrs["saved_tensors"] = tuple(args[1:])
    return None


from .interp import ExtClass, ModuleVal, TypeTok, Builtin  # noqa: E402

FUNCTION_CTX = ExtClass("FunctionCtx", (), {"save_for_backward": fctx_save_for_backward})
AUTOGRAD_FUNCTION = ExtClass("Function", (), {"classmethod:apply": function_apply})


class NoGrad:
    def pyvc_getattr(self, interp: Any, name: str) -> Any:
        if name == "__enter__":
            return Builtin("no_grad.__enter__", lambda it, a, k: None)
        if name == "__exit__":
            return Builtin("no_grad.__exit__", lambda it, a, k: None)
        raise PyRaise("AttributeError", name)


class SysModules:
    def __init__(self, interp: Any):
        self.interp = interp

    def pyvc_getitem(self, interp: Any, k: Any) -> Any:
        if not isinstance(k, str):
            raise OutOfReach("sys.modules[symbolic]")
        return interp.get_module(k)


class OpaqueModule(ModuleVal):
    """typing, __future__, types ...: attribute access yields a type token."""

    def missing(self, interp: Any, name: str) -> Any:
        t = TypeTok(name)
        if self.name in ("typing", "__future__"):
            t.not_callable = True  # type: ignore[attr-defined]
        self.env.vars[name] = t
        return t


class LiteralTok(TypeTok):
    def __init__(self) -> None:
        super().__init__("Literal")

    def pyvc_getitem(self, interp: Any, k: Any) -> Any:
        t = TypeTok("LiteralAlias")
        t.args = tuple(k) if isinstance(k, tuple) else (k,)  # type: ignore[attr-defined]
        return t


class SubscriptableTok(TypeTok):
    not_callable = True

    def pyvc_getitem(self, interp: Any, k: Any) -> Any:
        return self


def _mod(name: str, entries: Dict[str, Any], opaque: bool = False) -> ModuleVal:
    m = (OpaqueModule if opaque else ModuleVal)(name)
    m.loaded = True
    m.env.vars.update(entries)
    m.env.vars["__name__"] = name
    return m


def externals(interp: Any, name: str) -> Optional[ModuleVal]:
    B = Builtin
    ctx = interp.ctx
    if name == "math":
        return _mod(
            "math",
            {
                "log": B("math.log", lambda it, a, k: num_log(it.ctx, a[0])),
                "exp": B("math.exp", lambda it, a, k: num_exp(it.ctx, a[0])),
                "pow": B("math.pow", lambda it, a, k: num_pow(it.ctx, _as_float(a[0]), _as_float(a[1]))),
                "sqrt": B("math.sqrt", lambda it, a, k: num_pow(it.ctx, _as_float(a[0]), Fraction(1, 2))),
                "prod": B("math.prod", lambda it, a, k: it.builtins["__prod__"].fn(it, a, k)),
                "pi": pi_value(ctx),
                "isclose": B("math.isclose", m_isclose),
                "log2": B("math.log2", m_log2),
                "floor": B("math.floor", lambda it, a, k: a[0] // 1 if isinstance(a[0], (int, Fraction)) else _oor("floor")),
                "ceil": B("math.ceil", lambda it, a, k: -((-a[0]) // 1) if isinstance(a[0], (int, Fraction)) else _oor("ceil")),
                "inf": __import__("pyvc.builtins_model", fromlist=["Infinity"]).Infinity(True),
            },
        )
    if name == "sys":
        return _mod("sys", {"modules": SysModules(interp)})
    if name in ("typing", "__future__", "types", "collections", "dataclasses", "functools", "inspect", "itertools", "logging", "copy", "operator", "unittest.mock", "unittest", "einops", "tabulate", "pygments", "pygments.formatters", "pygments.lexers", "ast", "re", "docstring_parser.google", "docstring_parser", "collections.abc"):
        ents: Dict[str, Any] = {}
        if name == "typing":
            ents["Literal"] = LiteralTok()
            ents["cast"] = B("cast", lambda it, a, k: a[1])
            ents["TypeVar"] = B("TypeVar", lambda it, a, k: TypeTok("TypeVar"))
            for n in ("Optional", "Tuple", "Dict", "List", "Callable", "Union", "Sequence", "Iterable", "Any", "Type", "Set", "TypeGuard", "Iterator", "OrderedDict"):
                ents[n] = SubscriptableTok(n)
            ents["no_type_check"] = B("no_type_check", lambda it, a, k: a[0])
        if name == "dataclasses":
            from .builtins_model import FieldSpec

            ents["field"] = B("dataclasses.field", lambda it, a, k: FieldSpec(k))
        if name == "collections":
            ents["OrderedDict"] = B("OrderedDict", lambda it, a, k: dict(*a, **k))
        if name == "logging":
            ents["getLogger"] = B("getLogger", lambda it, a, k: Opaque(z3.Const("logger", V), "logger"))
        hook = getattr(interp, "external_hook", None)
        if hook is not None:
            extra = hook(interp, name)
            if extra:
                ents.update(extra)
        return _mod(name, ents, opaque=True)
    if name == "torch.nn.functional":
        m = TorchModule("torch.nn.functional")
        m.loaded = True
        m.env.vars["__name__"] = "torch.nn.functional"
        m.env.vars.update(
            {
                "gelu": B("F.gelu", F_gelu),
                "silu": B("F.silu", F_silu),
                "sigmoid": B("F.sigmoid", F_sigmoid),
                "softmax": B("F.softmax", F_softmax),
                "dropout": B("F.dropout", F_dropout),
                "linear": B("F.linear", F_linear),
                "conv1d": B("F.conv1d", F_conv1d),
                "layer_norm": B("F.layer_norm", F_layer_norm),
                "rms_norm": B("F.rms_norm", F_rms_norm),
                "embedding": B("F.embedding", F_embedding),
                "scaled_dot_product_attention": B("F.scaled_dot_product_attention", F_sdpa),
                "cross_entropy": B("F.cross_entropy", F_cross_entropy),
                "mse_loss": B("F.mse_loss", F_mse_loss),
                "pad": B("F.pad", F_pad),
            }
        )
        return m
    if name == "torch":
        ents = {
            "Tensor": TypeTok("Tensor"),
            "matmul": B("torch.matmul", t_matmul),
            "add": B("torch.add", t_add),
            "broadcast_shapes": B("torch.broadcast_shapes", t_broadcast_shapes),
            "tensor": B("torch.tensor", t_tensor),
            "ones": B("torch.ones", t_ones),
            "zeros_like": B("torch.zeros_like", t_like("zeros")),
            "ones_like": B("torch.ones_like", t_like("ones")),
            "isclose": B("torch.isclose", t_isclose),
            "no_grad": B("torch.no_grad", lambda it, a, k: NoGrad()),
            "dtype": TypeTok("dtype"),
            "Size": TypeTok("Size"),
            "sigmoid": B("torch.sigmoid", F_sigmoid),
        }
        for n, d in DTYPES.items():
            ents[n] = d
        ents["autograd"] = _mod("torch.autograd", {"Function": AUTOGRAD_FUNCTION, "function": _mod("torch.autograd.function", {"FunctionCtx": TypeTok("FunctionCtx")})})
        ents["fx"] = externals(interp, "torch.fx")
        ents["nn"] = LazyExt(interp, "torch.nn")
        ents["optim"] = LazyExt(interp, "torch.optim")
        ents["_utils"] = LazyExt(interp, "torch._utils")
        ents["_dynamo"] = LazyExt(interp, "torch._dynamo")
        hook = getattr(interp, "external_hook", None)
        if hook is not None:
            extra = hook(interp, name)
            if extra:
                ents.update(extra)
        m = TorchModule("torch")
        m.loaded = True
        m.env.vars.update(ents)
        m.env.vars["__name__"] = "torch"
        return m
    if name == "torch.fx":
        proxy = _mod("torch.fx.proxy", {"Proxy": TypeTok("Proxy")})
        ents = {"proxy": proxy, "Proxy": TypeTok("Proxy")}
        hook = getattr(interp, "external_hook", None)
        if hook is not None:
            extra = hook(interp, name)
            if extra:
                ents.update(extra)
        return _mod("torch.fx", ents, opaque=True)
    hook = getattr(interp, "external_hook", None)
    if hook is not None:
        extra = hook(interp, name)
        if extra is not None:
            return _mod(name, extra, opaque=True)
    if name.startswith("torch"):
        return _mod(name, {}, opaque=True)
    return None


class GenericTorch:
    """An UNMODELLED function (or sub-module) of torch: treated as an unknown function of its
    arguments with the shape/dtype of its first tensor argument.  Any obligation of a run
    that used one is flagged `generic_ops`; if it fails and the replay on the real code does
    not reproduce the failure, the checker reports UNDECIDED, not a violation."""

    def __init__(self, name: str):
        self.name = name

    def pyvc_getattr(self, interp: Any, attr: str) -> Any:
        if attr.startswith("__"):
            raise PyRaise("AttributeError", attr)
        return GenericTorch(self.name + "." + attr)

    def pyvc_call(self, interp: Any, args: List[Any], kwargs: Dict[str, Any]) -> Any:
        interp.ctx.__dict__.setdefault("generic_ops", set()).add(self.name)
        vals = list(args) + [kwargs[k] for k in sorted(kwargs)]
        first = next((v for v in vals if isinstance(v, SymTensor)), None)
        if first is None:
            last = self.name.rsplit(".", 1)[-1]
            if last.startswith(("is_", "has_", "_is_")) and not vals:
                # an unmodelled global predicate (torch.is_grad_enabled(), torch.compiler.is_compiling(), ...):
                # an unknown boolean -- both outcomes are explored
                cache = interp.ctx.__dict__.setdefault("generic_flags", {})
                if self.name not in cache:
                    cache[self.name] = interp.ctx.fresh_bool("flag!" + self.name)
                return cache[self.name]
            raise OutOfReach(f"unmodelled torch function {self.name} without tensor arguments")
        enc = []
        for v in vals:
            try:
                to_V(interp.ctx, v)
                enc.append(v)
            except OutOfReach:
                enc.append(Opaque(z3.Const(interp.ctx.fresh("arg"), V)))
        return op_app(interp, "generic:" + self.name, enc, first.shape, first.dtype)


class TorchModule(ModuleVal):
    def missing(self, interp: Any, name: str) -> Any:
        return GenericTorch(self.name + "." + name)


class LazyExt:
    def __init__(self, interp: Any, name: str):
        self.interp, self.name = interp, name

    def force(self) -> Any:
        return self.interp.get_module(self.name)


# make interp.force understand LazyExt
from . import interp as _interp_mod  # noqa: E402

_old_force = _interp_mod.force


def _force(v: Any) -> Any:
    while isinstance(v, LazyExt):
        v = v.force()
    return _old_force(v)


_interp_mod.force = _force


def _as_float(x: Any) -> Any:
    if isinstance(x, bool):
        return Fraction(int(x))
    if isinstance(x, int):
        return Fraction(x)
    if isinstance(x, SV) and x.kind == "int":
        return SV(z3.ToReal(x.z), "real")
    return x


def _oor(what: str) -> Any:
    raise OutOfReach(f"math.{what} of a symbolic number")


def m_log2(interp: Any, args: List[Any], kwargs: Dict[str, Any]) -> Any:
    x = args[0]
    if isinstance(x, (int, Fraction)) and x > 0:
        fr = Fraction(x)
        n, d = fr.numerator, fr.denominator
        if n & (n - 1) == 0 and d & (d - 1) == 0:
            return Fraction(n.bit_length() - d.bit_length())
    raise OutOfReach("math.log2 of a value that is not a concrete power of two")


def m_isclose(interp: Any, args: List[Any], kwargs: Dict[str, Any]) -> Any:
    """math.isclose(a, b, rel_tol, abs_tol=0): |a-b| <= max(rel_tol*max(|a|,|b|), abs_tol)."""
    a, b = args[0], args[1]
    rel = kwargs.get("rel_tol", Fraction("1e-9"))
    abs_tol = kwargs.get("abs_tol", Fraction(0))
    za, zb, zr, zt = zreal(a), zreal(b), zreal(rel), zreal(abs_tol)
    ab = lambda x: z3.If(x >= 0, x, -x)  # noqa: E731
    mx = z3.If(ab(za) >= ab(zb), ab(za), ab(zb))
    bound = z3.If(zr * mx >= zt, zr * mx, zt)
    return mk_bool(z3.Or(za == zb, ab(za - zb) <= bound))
