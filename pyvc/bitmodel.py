"""pyvc.bitmodel -- bit-precise torch semantics for formats.py (elementwise lifting).

A tensor is ONE symbolic element (IEEE FP32/FP64/BF16/FP16 or BV32/BV64 according to
dtype) plus shape/dtype bookkeeping; a property proved for the element holds for every
element.  ASSUMED semantics of the torch primitives used by `FPFormat.quantise`
(validated against the installed torch by trusted/validate_torch.py, bounded):

  x.to(dtype)               fp.to_fp RNE (float->float) ; identity when same dtype
  torch.clip(x, lo, hi)     fp.min(fp.max(x, lo'), hi') with the Python bounds rounded to x's dtype
  q /= c ; q *= c           fp.div / fp.mul RNE by the constant rounded to q's dtype (in place)
  q.view(int32/float32)     bit reinterpretation when element sizes agree; otherwise the LAST
                            dimension is rescaled by the size ratio (0-dim: RuntimeError)
  a + b, a & b on ints      two's complement; a dimensioned int32 tensor combined with a
                            0-dim int64 tensor stays int32 (0-dim tensors do not promote
                            within a category): the 0-dim operand is truncated to 32 bits
  ~t, t // n, t << n        bvnot, floor division (non-negative operands), bvshl
  torch.randint(lo, hi, size, dtype=int32)  a fresh BV32 R with lo <= R < hi per element
                            (independent per element: assumed), obligation size == x.shape
  torch.tensor(int)         0-dim int64
"""
from __future__ import annotations

from fractions import Fraction
from typing import Any, Dict, List, Optional, Tuple

import z3

from .sym import SV, Ctx, OutOfReach, PyRaise
from .tensor import Opaque, Shape, Storage
from . import tensor as tz

RNE = z3.RNE()
FP_SORTS = {
    "float32": z3.Float32(),
    "float64": z3.Float64(),
    "float16": z3.Float16(),
    "bfloat16": z3.FPSort(8, 8),
}
INT_BITS = {"int32": 32, "int64": 64, "int16": 16, "int8": 8, "uint8": 8}
UNSIGNED = {"uint8"}
ELEM_BYTES = {"float32": 4, "float64": 8, "float16": 2, "bfloat16": 2, "int32": 4, "int64": 8, "int16": 2, "int8": 1, "uint8": 1}
# ASSUMED torch integer promotion between DIMENSIONED tensors of different integer dtypes: the wider type;
# uint8 with a signed type of the same or larger width gives that signed type (int8 x uint8 -> int16);
# arithmetic wraps modulo 2^width (validated: group bits)
_RANK = {"uint8": 0, "int8": 1, "int16": 2, "int32": 3, "int64": 4}


def promote_int(a: str, b: str) -> str:
    if a == b:
        return a
    if {a, b} == {"uint8", "int8"}:
        return "int16"
    return a if _RANK[a] > _RANK[b] else b


class DTypeTok:
    def __init__(self, name: str):
        self.name = name

    def __repr__(self) -> str:
        return f"torch.{self.name}"

    def pyvc_equals(self, interp: Any, a: Any, b: Any) -> Any:
        return isinstance(a, DTypeTok) and isinstance(b, DTypeTok) and a.name == b.name


DT = {n: DTypeTok(n) for n in ELEM_BYTES}


def const_in(dtype: str, v: Any) -> z3.ExprRef:
    """Python number -> constant of dtype (exact value of the literal; rounding RNE if needed)"""
    if isinstance(v, SV):
        raise OutOfReach("symbolic scalar in bit-precise mode")
    if dtype in FP_SORTS:
        fr = Fraction(v)
        return z3.fpRealToFP(RNE, z3.RealVal(fr), FP_SORTS[dtype])
    return z3.BitVecVal(int(v), INT_BITS[dtype])


def exactly_representable(dtype: str, v: Any) -> bool:
    """is the Python value exactly a value of the float dtype? (checked in exact arithmetic)"""
    fr = Fraction(v)
    if fr == 0:
        return True
    sb = {"float32": 24, "float64": 53, "float16": 11, "bfloat16": 8}[dtype]
    emin = {"float32": -126, "float64": -1022, "float16": -14, "bfloat16": -126}[dtype]
    emax = {"float32": 127, "float64": 1023, "float16": 15, "bfloat16": 127}[dtype]
    a = abs(fr)
    import math

    e = math.floor(math.log2(a)) if a >= 1 else -math.ceil(math.log2(1 / a))
    while Fraction(2) ** e > a:
        e -= 1
    while Fraction(2) ** (e + 1) <= a:
        e += 1
    if e > emax:
        return False
    q = max(e, emin) - (sb - 1)
    return (a / Fraction(2) ** q).denominator == 1


class BitTensor:
    def __init__(self, shape: Shape, dtype: str, elem: z3.ExprRef, storage: Optional[Storage] = None, name: str = ""):
        self.shape = shape
        self.dtype = dtype
        self.elem = elem
        self.storage = storage or Storage("fresh")
        self.name = name
        self.garbled = False  # element reinterpretation across element sizes

    def __repr__(self) -> str:
        return f"BitTensor<{self.dtype} {self.shape}>"

    def pyvc_types(self) -> Any:
        return {"Tensor"}

    # ---- attributes / methods
    def pyvc_getattr(self, interp: Any, name: str) -> Any:
        from .interp import Builtin

        if name == "shape":
            return self.shape
        if name == "dtype":
            return DT[self.dtype]
        if name == "device":
            return Opaque(z3.Const("device", tz.V), "device")
        m = {"to": self.m_to, "view": self.m_view, "clone": self.m_clone, "float": lambda it, a, k: self.m_to(it, [DT["float32"]], {})}.get(name)
        if m is None:
            raise OutOfReach(f"BitTensor.{name}")
        return Builtin("Tensor." + name, m)

    def m_clone(self, interp: Any, args: List[Any], kwargs: Dict[str, Any]) -> Any:
        return BitTensor(self.shape, self.dtype, self.elem)

    def m_to(self, interp: Any, args: List[Any], kwargs: Dict[str, Any]) -> Any:
        dt = args[0] if args else kwargs.get("dtype")
        if not isinstance(dt, DTypeTok):
            raise OutOfReach("Tensor.to(non-dtype)")
        if dt.name == self.dtype:
            # ASSUMED: .to(same dtype) returns self (no copy)
            return self
        if self.dtype in FP_SORTS and dt.name in FP_SORTS:
            r = BitTensor(self.shape, dt.name, z3.fpFPToFP(RNE, self.elem, FP_SORTS[dt.name]))
            r.garbled = self.garbled
            return r
        raise OutOfReach(f"conversion {self.dtype} -> {dt.name}")

    def m_view(self, interp: Any, args: List[Any], kwargs: Dict[str, Any]) -> Any:
        ctx = interp.ctx
        dt = args[0]
        if not isinstance(dt, DTypeTok):
            raise OutOfReach("Tensor.view(shape)")
        a, b = ELEM_BYTES[self.dtype], ELEM_BYTES[dt.name]
        if a == b:
            if self.dtype in FP_SORTS and dt.name in INT_BITS:
                e = z3.fpToIEEEBV(self.elem)
            elif self.dtype in INT_BITS and dt.name in FP_SORTS:
                e = z3.fpBVToFP(self.elem, FP_SORTS[dt.name])
            else:
                e = self.elem
            r = BitTensor(self.shape, dt.name, e, self.storage)
            r.garbled = self.garbled
            return r
        # element sizes differ: the last dimension is rescaled
        segs = list(self.shape.segs)
        if not segs:
            raise PyRaise("RuntimeError", "view of a 0-dim tensor with a dtype of different size")
        last = segs[-1]
        if isinstance(last, tz.Run):
            raise OutOfReach("view across element sizes on an abstract shape")
        from .sym import num_binop

        if a > b:
            new_last = num_binop(ctx, "*", last, a // b)
        else:
            if isinstance(last, int) and last % (b // a) != 0:
                raise PyRaise("RuntimeError", "view: last dim not divisible")
            new_last = num_binop(ctx, "//", last, b // a)
        fresh = z3.Const(ctx.fresh("garbled"), z3.BitVecSort(INT_BITS[dt.name]) if dt.name in INT_BITS else FP_SORTS[dt.name])
        r = BitTensor(Shape(segs[:-1] + [new_last]), dt.name, fresh, self.storage)
        r.garbled = True
        return r

    # ---- operators
    def pyvc_binop(self, interp: Any, op: str, a: Any, b: Any, inplace: bool) -> Any:
        ctx = interp.ctx
        res = _binop(ctx, op, a, b)
        if inplace and a is self:
            if res.dtype != self.dtype:
                raise PyRaise("RuntimeError", "result type can't be cast to the in-place operand's type")
            ctx.effects.append(("inplace", self.storage, op))
            self.elem = res.elem
            return self
        return res

    def pyvc_unary(self, interp: Any, op: str) -> Any:
        if op == "~" and self.dtype in INT_BITS:
            return BitTensor(self.shape, self.dtype, ~self.elem)
        raise OutOfReach(f"unary {op} on {self.dtype}")


def _is0(t: BitTensor) -> bool:
    return t.shape.concrete_rank() == 0


def _binop(ctx: Ctx, op: str, a: Any, b: Any) -> BitTensor:
    num = (int, Fraction)
    if isinstance(a, BitTensor) and isinstance(b, num) and not isinstance(b, bool):
        if a.dtype in FP_SORTS:
            c = const_in(a.dtype, b)
            if not exactly_representable(a.dtype, b):
                ctx.notes.append(f"constant {b} is rounded to {a.dtype}")
            e = {"/": lambda: z3.fpDiv(RNE, a.elem, c), "*": lambda: z3.fpMul(RNE, a.elem, c), "+": lambda: z3.fpAdd(RNE, a.elem, c), "-": lambda: z3.fpSub(RNE, a.elem, c)}.get(op)
            if e is None:
                raise OutOfReach(f"float tensor {op} scalar")
            r = BitTensor(a.shape, a.dtype, e())
            r.garbled = a.garbled
            return r
        if not isinstance(b, int):
            raise OutOfReach("int tensor op float scalar")
        w = INT_BITS[a.dtype]
        c = z3.BitVecVal(b, w)
        if op == "+":
            e2 = a.elem + c
        elif op == "-":
            e2 = a.elem - c
        elif op == "&":
            e2 = a.elem & c
        elif op == "|":
            e2 = a.elem | c
        elif op == "<<":
            e2 = a.elem << c
        elif op == ">>":
            e2 = z3.LShR(a.elem, c) if a.dtype in UNSIGNED else a.elem >> c  # arithmetic shift for signed ints
        elif op == "//":
            if b <= 0:
                raise OutOfReach("floor division by non-positive int")
            # floor division for signed ints, positive divisor
            if a.dtype in UNSIGNED:
                e2 = z3.UDiv(a.elem, c)
            else:
                q = a.elem / c  # bvsdiv truncates toward zero
                rem = z3.SRem(a.elem, c)
                e2 = z3.If(z3.And(rem != 0, a.elem < 0), q - 1, q)
        elif op == "*":
            e2 = a.elem * c
        else:
            raise OutOfReach(f"int tensor {op} scalar")
        r = BitTensor(a.shape, a.dtype, e2)
        r.garbled = a.garbled
        return r
    if isinstance(b, BitTensor) and isinstance(a, num):
        if op in ("+", "*", "&", "|"):
            return _binop(ctx, op, b, a)
        raise OutOfReach(f"scalar {op} tensor")
    if isinstance(a, BitTensor) and isinstance(b, BitTensor):
        if a.dtype in INT_BITS and b.dtype in INT_BITS:
            # result dtype: dimensioned operands decide; 0-dim operands do not promote
            if a.dtype == b.dtype:
                dt = a.dtype
            elif _is0(a) and not _is0(b):
                dt = b.dtype
            elif _is0(b) and not _is0(a):
                dt = a.dtype
            else:
                dt = promote_int(a.dtype, b.dtype)
            w = INT_BITS[dt]

            def fit(t: BitTensor) -> z3.ExprRef:
                tw = INT_BITS[t.dtype]
                if tw == w:
                    return t.elem
                if tw > w:
                    return z3.Extract(w - 1, 0, t.elem)
                return z3.ZeroExt(w - tw, t.elem) if t.dtype in UNSIGNED else z3.SignExt(w - tw, t.elem)

            x, y = fit(a), fit(b)
            e3 = {"+": lambda: x + y, "-": lambda: x - y, "&": lambda: x & y, "|": lambda: x | y, "^": lambda: x ^ y}.get(op)
            if e3 is None:
                raise OutOfReach(f"int tensors {op}")
            shape = a.shape if not _is0(a) else b.shape
            if not _is0(a) and not _is0(b):
                r_ = a.shape.eq(ctx, b.shape)
                if r_ is not True:
                    ctx.notes.append("broadcast between differently shaped int tensors")
            r = BitTensor(shape, dt, e3())
            r.garbled = a.garbled or b.garbled
            return r
        raise OutOfReach(f"tensor {op} tensor on {a.dtype}, {b.dtype}")
    raise OutOfReach(f"bit-precise binop {op}")


# ----------------------------------------------------------------------------------
# the torch module of this mode


def t_tensor(interp: Any, args: List[Any], kwargs: Dict[str, Any]) -> Any:
    v = args[0]
    if isinstance(v, bool) or not isinstance(v, int):
        raise OutOfReach("torch.tensor of a non-int in bit-precise mode")
    dt = kwargs.get("dtype")
    name = dt.name if isinstance(dt, DTypeTok) else "int64"
    return BitTensor(Shape([]), name, z3.BitVecVal(v, INT_BITS[name]))


def t_clip(interp: Any, args: List[Any], kwargs: Dict[str, Any]) -> Any:
    x, lo, hi = args[0], args[1], args[2]
    if not isinstance(x, BitTensor) or x.dtype not in FP_SORTS:
        raise OutOfReach("clip on non-float")
    for b in (lo, hi):
        if isinstance(b, int) and not isinstance(b, bool) and not (-(2**63) <= b < 2**63):
            # ASSUMED torch.clamp: a Python int bound is converted to a C int64 (validated: group bits)
            raise PyRaise("OverflowError", "int too big to convert")
        if not exactly_representable(x.dtype, b):
            interp.ctx.notes.append(f"clip bound {b} rounded to {x.dtype}")
    l, h = const_in(x.dtype, lo), const_in(x.dtype, hi)
    # ASSUMED torch.clamp: NaN propagates; otherwise min(max(x, lo), hi)
    e = z3.If(z3.fpIsNaN(x.elem), x.elem, z3.If(z3.fpLT(x.elem, l), l, z3.If(z3.fpGT(x.elem, h), h, x.elem)))
    r = BitTensor(x.shape, x.dtype, e)
    r.garbled = x.garbled
    return r


class RandintLog:
    def __init__(self) -> None:
        self.calls: List[Dict[str, Any]] = []


def t_randint(interp: Any, args: List[Any], kwargs: Dict[str, Any]) -> Any:
    ctx = interp.ctx
    lo, hi, size = args[0], args[1], args[2]
    dt = kwargs.get("dtype")
    name = dt.name if isinstance(dt, DTypeTok) else "int64"
    w = INT_BITS[name]
    R = z3.BitVec(ctx.fresh("R"), w)
    if name in UNSIGNED or hi > 2 ** (w - 1) - 1:
        if hi > 2**w:
            raise PyRaise("RuntimeError", f"randint: high {hi} out of range for {name}")
        ctx.assume(z3.UGE(R, z3.BitVecVal(lo, w)) if hi == 2**w else z3.And(z3.UGE(R, z3.BitVecVal(lo, w)), z3.ULT(R, z3.BitVecVal(hi, w))))
    else:
        ctx.assume(z3.And(R >= z3.BitVecVal(lo, w), R < z3.BitVecVal(hi, w)))
    log = ctx.__dict__.setdefault("randint_calls", [])
    log.append({"low": lo, "high": hi, "size": size, "dtype": name, "R": R})
    if not isinstance(size, Shape):
        size = Shape(list(size))
    return BitTensor(size, name, R)


class FInfo:
    """ASSUMED torch.finfo(dtype)"""

    TABLE = {"float32": (24, -126, 127), "float64": (53, -1022, 1023), "float16": (11, -14, 15), "bfloat16": (8, -126, 127)}

    def __init__(self, dtype: str):
        sb, emin, emax = self.TABLE[dtype]
        self.vals = {"bits": ELEM_BYTES[dtype] * 8, "eps": Fraction(2) ** (1 - sb), "max": Fraction(2) ** emax * (2 - Fraction(2) ** (1 - sb)), "tiny": Fraction(2) ** emin, "smallest_normal": Fraction(2) ** emin}
        self.vals["min"] = -self.vals["max"]

    def pyvc_getattr(self, interp: Any, name: str) -> Any:
        if name in self.vals:
            return self.vals[name]
        raise PyRaise("AttributeError", name)


def t_finfo(interp: Any, args: List[Any], kwargs: Dict[str, Any]) -> Any:
    dt = args[0]
    if not isinstance(dt, DTypeTok) or dt.name not in FInfo.TABLE:
        raise OutOfReach("torch.finfo of a non-float dtype")
    return FInfo(dt.name)


def externals(interp: Any, name: str) -> Any:
    from . import torchmodel
    from .interp import Builtin, TypeTok
    from .torchmodel import _mod

    if name == "torch":
        ents: Dict[str, Any] = {
            "Tensor": TypeTok("Tensor"),
            "tensor": Builtin("torch.tensor", t_tensor),
            "clip": Builtin("torch.clip", t_clip),
            "clamp": Builtin("torch.clamp", t_clip),
            "randint": Builtin("torch.randint", t_randint),
            "finfo": Builtin("torch.finfo", t_finfo),
            "autograd": _mod("torch.autograd", {"Function": torchmodel.AUTOGRAD_FUNCTION, "function": _mod("torch.autograd.function", {"FunctionCtx": TypeTok("FunctionCtx")})}),
        }
        for n, d in DT.items():
            ents[n] = d
        return _mod("torch", ents)
    return torchmodel.externals(interp, name)


# ----------------------------------------------------------------------------------
# specification of the value set of a format, on float32 bit patterns (independent of
# the quantisation algorithm; cross-checked against an exact Fraction enumeration by
# trusted/validate_formats.py)

W = 280  # width of exact scaled integers: every finite float32 is an integer multiple of 2^-149


def f32_fields(bits: z3.BitVecRef) -> Tuple[z3.BitVecRef, z3.BitVecRef, z3.BitVecRef]:
    return z3.Extract(31, 31, bits), z3.Extract(30, 23, bits), z3.Extract(22, 0, bits)


def scaled_int(bits: z3.BitVecRef) -> z3.BitVecRef:
    """|y| * 2^149 as a W-bit unsigned integer (finite float32 pattern)."""
    _, e, m = f32_fields(bits)
    sig = z3.ZeroExt(W - 24, z3.Concat(z3.If(e == 0, z3.BitVecVal(0, 1), z3.BitVecVal(1, 1)), m))
    sh = z3.If(e == 0, z3.BitVecVal(0, W), z3.ZeroExt(W - 8, e) - 1)
    return sig << sh


def signed_scaled(bits: z3.BitVecRef) -> z3.BitVecRef:
    s, _, _ = f32_fields(bits)
    mag = scaled_int(bits)
    return z3.If(s == 1, -mag, mag)


def fmt_consts(E: int, M: int) -> Dict[str, Any]:
    emin = 1 - 2 ** (E - 1)
    emax = 2 ** (E - 1) - 1
    maxv = Fraction(2) ** emax * (2 - Fraction(1, 2**M))
    return {"emin": emin, "emax": emax, "max": maxv, "min_normal": Fraction(2) ** emin, "min_sub": Fraction(2) ** (emin - M), "emin_b": emin + 127, "D": 23 - M}


def int_of_fraction(v: Fraction) -> z3.BitVecRef:
    x = v * 2**149
    assert x.denominator == 1
    return z3.BitVecVal(x.numerator, W)


def repr_pred(E: int, M: int, bits: z3.BitVecRef) -> z3.BoolRef:
    """bits (a finite float32 pattern) is a value of the format (E, M): |y| <= max and y
    is an integer multiple of 2^(max(floor(log2|y|), emin) - M)."""
    c = fmt_consts(E, M)
    mag = scaled_int(bits)
    _, e, m = f32_fields(bits)
    finite = e != 255
    # spacing (scaled): 2^(max(ue, emin) - M + 149) with ue = e - 127 for normal float32, ue < emin for float32 subnormals
    # exponent of the spacing in scaled units: max(e - 127, emin) - M + 149 = max(e, emin_b) + 22 - M
    emin_b = c["emin_b"]  # 128 - 2^(E-1) >= 0
    e32 = z3.ZeroExt(24, e)
    eb = z3.If(z3.UGE(e32, z3.BitVecVal(emin_b, 32)), e32, z3.BitVecVal(emin_b, 32))
    k = eb + (22 - M)
    kW = z3.ZeroExt(W - 32, k)
    low_mask = (z3.BitVecVal(1, W) << kW) - 1
    multiple = (mag & low_mask) == 0
    if emin_b + 22 - M < 0:
        # only E=8, M=23: the spacing 2^-150 below 2^-126 is finer than float32's own 2^-149
        multiple = z3.If(e == 0, z3.BoolVal(True), multiple)
    return z3.And(finite, z3.ULE(mag, int_of_fraction(c["max"])), multiple)
