"""pyvc.sym -- symbolic scalars, path context, obligations.

Trusted core of the VC generator (assumption A7).  Python `float` is the real line and
`int` is Z (assumption A1); concrete floats are kept as exact `Fraction`s built from the
literal text of the source, never from a binary double.
"""
from __future__ import annotations

import itertools
from fractions import Fraction
from typing import Any, Dict, List, Optional, Tuple

import z3


class PathCut(Exception):
    """This path needs more unrolling of a loop with a symbolic bound than the executor does
    (a loop invariant would be needed): the path is abandoned, the job is marked incomplete
    (out of reach) but the obligations of the completed paths are still decided."""


class OutOfReach(Exception):
    """A construct outside the supported subset: fail closed (exit 3)."""


class PyRaise(Exception):
    """The interpreted program raised a Python exception: an *outcome* of the path."""

    def __init__(self, exc: str, msg: str = ""):
        super().__init__(f"{exc}: {msg}")
        self.exc = exc
        self.msg = msg


class Restart(Exception):
    """Internal: abandon the current re-execution (decision list exhausted oddly)."""


# ----------------------------------------------------------------------------------
# symbolic scalar values


class SV:
    """Symbolic number.  kind in {'int','real'}."""

    __slots__ = ("z", "kind")

    def __init__(self, z: z3.ArithRef, kind: str):
        self.z = z
        self.kind = kind

    def __repr__(self) -> str:
        return f"SV<{self.kind}:{self.z}>"

    def __bool__(self) -> bool:  # never decide natively
        raise OutOfReach("native truth value of a symbolic number")

    __hash__ = object.__hash__


class SB:
    """Symbolic bool."""

    __slots__ = ("z",)

    def __init__(self, z: z3.BoolRef):
        self.z = z

    def __repr__(self) -> str:
        return f"SB<{self.z}>"

    def __bool__(self) -> bool:
        raise OutOfReach("native truth value of a symbolic bool")

    __hash__ = object.__hash__


Num = (int, Fraction, SV)


def is_num(x: Any) -> bool:
    return isinstance(x, (int, Fraction, SV)) and not isinstance(x, bool) or isinstance(x, bool)


def is_concrete_num(x: Any) -> bool:
    return isinstance(x, (int, Fraction))


def kind_of(x: Any) -> str:
    if isinstance(x, SV):
        return x.kind
    if isinstance(x, Fraction):
        return "real"
    if isinstance(x, (bool, int)):
        return "int"
    raise OutOfReach(f"not a number: {x!r}")


def zint(x: Any) -> z3.ArithRef:
    if isinstance(x, SV):
        if x.kind != "int":
            raise OutOfReach("real used where an int is needed")
        return x.z
    if isinstance(x, bool):
        return z3.IntVal(int(x))
    if isinstance(x, int):
        return z3.IntVal(x)
    raise OutOfReach(f"zint of {x!r}")


def zreal(x: Any) -> z3.ArithRef:
    if isinstance(x, SV):
        return x.z if x.kind == "real" else z3.ToReal(x.z)
    if isinstance(x, bool):
        return z3.RealVal(int(x))
    if isinstance(x, int):
        return z3.RealVal(x)
    if isinstance(x, Fraction):
        return z3.RealVal(x)
    if z3.is_expr(x):
        return x if x.sort() == z3.RealSort() else z3.ToReal(x)
    raise OutOfReach(f"zreal of {x!r}")


def zbool(x: Any) -> z3.BoolRef:
    if isinstance(x, SB):
        return x.z
    if isinstance(x, bool):
        return z3.BoolVal(x)
    raise OutOfReach(f"zbool of {x!r}")


def simp(e: z3.ExprRef) -> z3.ExprRef:
    return z3.simplify(e)


def as_concrete(z: z3.ExprRef) -> Optional[Any]:
    """If a z3 numeral/bool constant, its Python value."""
    z = z3.simplify(z)
    if z3.is_int_value(z):
        return z.as_long()
    if z3.is_rational_value(z):
        return Fraction(z.numerator_as_long(), z.denominator_as_long())
    if z3.is_true(z):
        return True
    if z3.is_false(z):
        return False
    return None


def mk_num(z: z3.ArithRef, kind: str) -> Any:
    c = as_concrete(z)
    if c is not None and not isinstance(c, bool):
        if kind == "int":
            return int(c)
        return Fraction(c)
    return SV(z, kind)


def mk_bool(z: z3.BoolRef) -> Any:
    c = as_concrete(z)
    if isinstance(c, bool):
        return c
    return SB(z)


# ----------------------------------------------------------------------------------
# obligations and the per-path context


class Obligation:
    def __init__(self, name: str, hyps: List[z3.BoolRef], goal: z3.BoolRef, info: Dict[str, Any]):
        self.name = name
        self.hyps = hyps
        self.goal = goal
        self.info = info
        self.status: Optional[str] = None  # discharged / violated / undecided
        self.solver: Optional[str] = None
        self.time_s: float = 0.0
        self.model: Optional[Dict[str, str]] = None

    def formula(self) -> z3.BoolRef:
        """sat  <=>  obligation violated."""
        return z3.And(*self.hyps, z3.Not(self.goal)) if self.hyps else z3.Not(self.goal)


class Ctx:
    """State of one symbolic re-execution (one path)."""

    _uid = itertools.count()

    def __init__(self, decisions: Tuple[bool, ...] = (), branch_timeout_ms: int = 2000):
        self.decisions = decisions
        self.trace: List[bool] = []
        self.alternatives: List[Tuple[bool, ...]] = []
        self.pc: List[z3.BoolRef] = []
        self.axioms: List[z3.BoolRef] = []
        self.obligations: List[Obligation] = []
        self.names: Dict[str, int] = {}
        self.branch_timeout_ms = branch_timeout_ms
        self.exp_terms: List[Tuple[z3.ArithRef, z3.ArithRef]] = []
        self.log_terms: List[Tuple[z3.ArithRef, z3.ArithRef]] = []
        self.pw_seen: set = set()
        self.notes: List[str] = []
        self.effects: List[Any] = []  # frame / side-effect log
        self.inputs: Dict[str, Any] = {}  # named symbolic inputs (for replay)
        self.unknown_branches = 0
        self.protected: Dict[int, str] = {}  # id(container) -> description (frame conditions)

    # -- naming ---------------------------------------------------------------
    def fresh(self, base: str) -> str:
        k = self.names.get(base, 0)
        self.names[base] = k + 1
        return base if k == 0 else f"{base}!{k}"

    def fresh_real(self, base: str) -> SV:
        return SV(z3.Real(self.fresh(base)), "real")

    def fresh_int(self, base: str) -> SV:
        return SV(z3.Int(self.fresh(base)), "int")

    def fresh_bool(self, base: str) -> SB:
        return SB(z3.Bool(self.fresh(base)))

    # -- facts ----------------------------------------------------------------
    def assume(self, fact: Any) -> None:
        if isinstance(fact, bool):
            if not fact:
                self.pc.append(z3.BoolVal(False))
            return
        self.pc.append(fact.z if isinstance(fact, SB) else fact)

    def axiom(self, fact: z3.BoolRef) -> None:
        self.axioms.append(fact)

    def hyps(self) -> List[z3.BoolRef]:
        return list(self.axioms) + list(self.pc)

    def lemma(self, name: str, hyps: List[z3.BoolRef], goal: z3.BoolRef, **info: Any) -> None:
        """A consequence of already-stated obligations (its hypotheses must each be the
        goal of another obligation of the same path): discharged WITHOUT the axioms and the
        path condition, which keeps the nonlinear query small."""
        ob = Obligation(name, list(hyps), goal, dict(info, lemma_over=[str(h)[:120] for h in hyps]))
        ob._pc = []  # type: ignore[attr-defined]
        ob._ctx = None  # type: ignore[attr-defined]
        self.obligations.append(ob)

    def oblige(self, name: str, goal: Any, **info: Any) -> None:
        if isinstance(goal, bool):
            goal = z3.BoolVal(goal)
        elif isinstance(goal, SB):
            goal = goal.z
        # axioms list is shared by reference and re-read at solve time (monotone truths)
        ob = Obligation(name, [], goal, dict(info))
        ob._pc = list(self.pc)  # type: ignore[attr-defined]
        ob._ctx = self  # type: ignore[attr-defined]
        self.obligations.append(ob)

    # -- branching ------------------------------------------------------------
    def _feasible(self, cond: z3.BoolRef) -> str:
        s = z3.Solver()
        s.set("timeout", self.branch_timeout_ms)
        s.add(*self.axioms)
        s.add(*self.pc)
        s.add(cond)
        r = s.check()
        return str(r)

    def branch(self, cond: Any) -> bool:
        if isinstance(cond, bool):
            return cond
        if isinstance(cond, SB):
            cond = cond.z
        c = as_concrete(cond)
        if isinstance(c, bool):
            return c
        i = len(self.trace)
        if i < len(self.decisions):
            d = self.decisions[i]
        else:
            ft = self._feasible(cond)
            ff = self._feasible(z3.Not(cond))
            if ft == "unknown" or ff == "unknown":
                self.unknown_branches += 1
            t_ok = ft != "unsat"
            f_ok = ff != "unsat"
            if t_ok and f_ok:
                d = True
                self.alternatives.append(tuple(self.trace) + (False,))
            elif t_ok:
                d = True
            elif f_ok:
                d = False
            else:  # path itself infeasible; pick any, obligations are vacuous
                d = True
        self.trace.append(d)
        self.pc.append(cond if d else z3.Not(cond))
        return d


# ----------------------------------------------------------------------------------
# arithmetic

_PW = z3.Function("pw", z3.RealSort(), z3.RealSort(), z3.RealSort())
_EXP = z3.Function("ex", z3.RealSort(), z3.RealSort())
_LOG = z3.Function("ln", z3.RealSort(), z3.RealSort())
PI = z3.Real("pi")


def pi_value(ctx: Ctx) -> SV:
    if "pi" not in ctx.names:
        ctx.names["pi"] = 1
        ctx.axiom(z3.And(PI > z3.RealVal("3.14159265358"), PI < z3.RealVal("3.14159265359")))
    return SV(PI, "real")


def _ipow_z(b: z3.ArithRef, n: int) -> z3.ArithRef:
    assert n >= 0
    if n == 0:
        return z3.RealVal(1) if b.sort() == z3.RealSort() else z3.IntVal(1)
    r = b
    for _ in range(n - 1):
        r = r * b
    return r


def num_pow(ctx: Ctx, base: Any, exp: Any) -> Any:
    if isinstance(base, bool):
        base = int(base)
    if isinstance(exp, bool):
        exp = int(exp)
    # concrete ** concrete with integer exponent
    if is_concrete_num(base) and isinstance(exp, int):
        if exp >= 0:
            return base**exp
        if base == 0:
            raise PyRaise("ZeroDivisionError", "0 ** negative")
        return Fraction(base) ** exp
    if isinstance(exp, Fraction) and exp.denominator == 1:
        r = num_pow(ctx, base, int(exp))
        return Fraction(r) if is_concrete_num(r) else SV(zreal(r), "real")
    if isinstance(exp, int):
        if exp >= 0:
            if kind_of(base) == "int":
                return mk_num(_ipow_z(zint(base), exp), "int")
            return mk_num(_ipow_z(zreal(base), exp), "real")
        if ctx.branch(zreal(base) == 0):
            raise PyRaise("ZeroDivisionError", "0 ** negative")
        return mk_num(1 / _ipow_z(zreal(base), -exp), "real")
    # rational or symbolic exponent: pw(base, exp) with instantiated axioms
    b = zreal(base)
    e = zreal(exp)
    if ctx.branch(b < 0):
        # Python returns a complex number (or raises for symbolic non-integers)
        raise PyRaise("ComplexResult", "negative base with fractional exponent")
    if isinstance(exp, Fraction):
        p, q = exp.numerator, exp.denominator
        if p < 0 and ctx.branch(b == 0):
            raise PyRaise("ZeroDivisionError", "0 ** negative")
        # exact small perfect powers of concrete bases stay concrete
        if is_concrete_num(base):
            fb = Fraction(base)
            for cand_n, cand_d in _root_candidates(fb, q):
                cand = Fraction(cand_n, cand_d)
                if cand**q == fb:
                    return cand**p
        t = _PW(b, e)
        key = t.get_id()
        if key not in ctx.pw_seen:
            ctx.pw_seen.add(key)
            if p >= 0:
                ctx.axiom(z3.And(t >= 0, _ipow_z(t, q) == _ipow_z(b, p)))
                ctx.axiom(z3.Implies(b > 0, t > 0))
            else:
                ctx.axiom(z3.And(t > 0, _ipow_z(t, q) * _ipow_z(b, -p) == 1))
        return SV(t, "real")
    # symbolic exponent
    t = _PW(b, e)
    key = t.get_id()
    if key not in ctx.pw_seen:
        ctx.pw_seen.add(key)
        ctx.axiom(z3.Implies(b > 0, t > 0))
        ctx.axiom(z3.Implies(e == 1, t == b))
        ctx.axiom(z3.Implies(z3.And(e == 0, b > 0), t == 1))
        ctx.axiom(z3.Implies(z3.And(e == z3.RealVal("1/2"), b >= 0), z3.And(t >= 0, t * t == b)))
        ctx.axiom(z3.Implies(b == 1, t == 1))
    return SV(t, "real")


def _root_candidates(fb: Fraction, q: int):
    if fb < 0 or q > 4:
        return
    import math

    n = round(fb.numerator ** (1.0 / q))
    d = round(fb.denominator ** (1.0 / q))
    for dn in (-1, 0, 1):
        for dd in (-1, 0, 1):
            if n + dn >= 0 and d + dd > 0:
                yield n + dn, d + dd


def num_exp(ctx: Ctx, x: Any) -> Any:
    if is_concrete_num(x) and x == 0:
        return Fraction(1)
    a = zreal(x)
    t = _EXP(a)
    if all(not t.eq(u) for u, _ in ctx.exp_terms):
        ctx.axiom(t > 0)
        ctx.axiom(_LOG(t) == a)
        ctx.axiom((a == 0) == (t == 1))
        ctx.axiom((a > 0) == (t > 1))
        for u, ua in ctx.exp_terms:
            ctx.axiom((a < ua) == (t < u))
            ctx.axiom((a == ua) == (t == u))
        for l, la in ctx.log_terms:
            # ex(ln(y)) = y
            ctx.axiom(z3.Implies(z3.And(la > 0, a == l), t == la))
            ctx.axiom(z3.Implies(la > 0, (a < l) == (t < la)))
            ctx.axiom(z3.Implies(la > 0, (a > l) == (t > la)))
        ctx.exp_terms.append((t, a))
    return SV(t, "real")


def num_log(ctx: Ctx, x: Any) -> Any:
    if is_concrete_num(x):
        if x <= 0:
            raise PyRaise("ValueError", "math domain error")
        if x == 1:
            return Fraction(0)
    a = zreal(x)
    if ctx.branch(a <= 0):
        raise PyRaise("ValueError", "math domain error")
    t = _LOG(a)
    if all(not t.eq(u) for u, _ in ctx.log_terms):
        ctx.axiom(z3.Implies(a > 0, _EXP(t) == a))
        ctx.axiom(z3.Implies(a > 0, (t > 0) == (a > 1)))
        ctx.axiom(z3.Implies(a > 0, (t == 0) == (a == 1)))
        for u, ua in ctx.log_terms:
            ctx.axiom(z3.Implies(z3.And(a > 0, ua > 0), (a < ua) == (t < u)))
            ctx.axiom(z3.Implies(z3.And(a > 0, ua > 0), (a == ua) == (t == u)))
        for e, ea in ctx.exp_terms:
            ctx.axiom(z3.Implies(z3.And(a > 0), (t < ea) == (a < e)))
            ctx.axiom(z3.Implies(z3.And(a > 0), (t > ea) == (a > e)))
        ctx.log_terms.append((t, a))
    return SV(t, "real")


def num_binop(ctx: Ctx, op: str, a: Any, b: Any) -> Any:
    if isinstance(a, bool):
        a = int(a)
    if isinstance(b, bool):
        b = int(b)
    if op == "**":
        return num_pow(ctx, a, b)
    if is_concrete_num(a) and is_concrete_num(b):
        if op == "+":
            return a + b
        if op == "-":
            return a - b
        if op == "*":
            return a * b
        if op == "/":
            if b == 0:
                raise PyRaise("ZeroDivisionError", "division by zero")
            return Fraction(a) / Fraction(b)
        if op == "//":
            if b == 0:
                raise PyRaise("ZeroDivisionError", "division by zero")
            r = a // b
            return r if isinstance(a, int) and isinstance(b, int) else Fraction(r)
        if op == "%":
            if b == 0:
                raise PyRaise("ZeroDivisionError", "modulo by zero")
            return a % b
        if isinstance(a, int) and isinstance(b, int):
            if op == "<<":
                return a << b
            if op == ">>":
                return a >> b
            if op == "&":
                return a & b
            if op == "|":
                return a | b
            if op == "^":
                return a ^ b
        raise OutOfReach(f"binop {op} on {a!r},{b!r}")
    both_int = kind_of(a) == "int" and kind_of(b) == "int"
    if op in "+-*":
        if both_int:
            x, y = zint(a), zint(b)
            k = "int"
        else:
            x, y = zreal(a), zreal(b)
            k = "real"
        z = x + y if op == "+" else x - y if op == "-" else x * y
        return mk_num(z, k)
    if op == "/":
        y = zreal(b)
        if ctx.branch(y == 0):
            raise PyRaise("ZeroDivisionError", "division by zero")
        return mk_num(zreal(a) / y, "real")
    if op == "//":
        if not both_int:
            raise OutOfReach("floor division on reals")
        x, y = zint(a), zint(b)
        if ctx.branch(y == 0):
            raise PyRaise("ZeroDivisionError", "division by zero")
        return mk_num(z3.If(y > 0, x / y, (-x) / (-y)), "int")
    if op == "%":
        if not both_int:
            raise OutOfReach("modulo on reals")
        x, y = zint(a), zint(b)
        if ctx.branch(y == 0):
            raise PyRaise("ZeroDivisionError", "modulo by zero")
        # python: result has the sign of the divisor
        return mk_num(z3.If(y > 0, x % y, -((-x) % (-y))), "int")
    raise OutOfReach(f"symbolic binop {op}")


def num_neg(a: Any) -> Any:
    if is_concrete_num(a):
        return -a
    return mk_num(-a.z, a.kind)


def num_cmp(op: str, a: Any, b: Any) -> Any:
    if isinstance(a, bool):
        a = int(a)
    if isinstance(b, bool):
        b = int(b)
    if is_concrete_num(a) and is_concrete_num(b):
        return {
            "==": a == b,
            "!=": a != b,
            "<": a < b,
            "<=": a <= b,
            ">": a > b,
            ">=": a >= b,
        }[op]
    if kind_of(a) == "int" and kind_of(b) == "int":
        x, y = zint(a), zint(b)
    else:
        x, y = zreal(a), zreal(b)
    z = {
        "==": x == y,
        "!=": x != y,
        "<": x < y,
        "<=": x <= y,
        ">": x > y,
        ">=": x >= y,
    }[op]
    return mk_bool(z)


def bool_not(x: Any) -> Any:
    if isinstance(x, SB):
        return mk_bool(z3.Not(x.z))
    return not x


def bool_and(*xs: Any) -> Any:
    zs = []
    for x in xs:
        if isinstance(x, SB):
            zs.append(x.z)
        elif not x:
            return False
    if not zs:
        return True
    return mk_bool(z3.And(*zs))


def bool_or(*xs: Any) -> Any:
    zs = []
    for x in xs:
        if isinstance(x, SB):
            zs.append(x.z)
        elif x:
            return True
    if not zs:
        return False
    return mk_bool(z3.Or(*zs))
