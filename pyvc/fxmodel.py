"""pyvc.fxmodel -- ASSUMED contracts of the torch.fx graph API used by the transforms
(validated at run time by trusted/validate_torch.py, group `fx`):

  node.users        the nodes whose args/kwargs mention the node at ANY nesting depth
                    (tuples, lists, dicts, slices); maintained on every assignment to
                    .args / .kwargs
  graph.erase_node  raises RuntimeError unless node.users is empty
  graph.nodes       iteration follows live `next` links: erasing the current node and
                    inserting after it are tolerated; nodes inserted after the current
                    node ARE visited
  graph.inserting_after(n) / call_function(...)   new node placed right after n
  node.replace_all_uses_with(m)   deep substitution in every user's args/kwargs
  graph.lint()      every argument node belongs to the graph and precedes its user
"""
from __future__ import annotations

import itertools
from typing import Any, Callable, Dict, Iterator, List, Optional, Tuple

from .interp import Builtin, ObjVal, TypeTok
from .sym import OutOfReach, PyRaise


def map_arg(a: Any, f: Callable[["FxNode"], Any]) -> Any:
    if isinstance(a, FxNode):
        return f(a)
    if isinstance(a, tuple):
        return tuple(map_arg(x, f) for x in a)
    if isinstance(a, list):
        return [map_arg(x, f) for x in a]
    if isinstance(a, dict):
        return {k: map_arg(v, f) for k, v in a.items()}
    if isinstance(a, slice):
        return slice(map_arg(a.start, f), map_arg(a.stop, f), map_arg(a.step, f))
    return a


def nodes_in(a: Any) -> List["FxNode"]:
    out: List[FxNode] = []
    map_arg(a, lambda n: out.append(n) or n)
    return out


class FxNode:
    _ids = itertools.count()

    def __init__(self, graph: "FxGraph", name: str, op: str, target: Any, args: Tuple[Any, ...] = (), kwargs: Optional[Dict[str, Any]] = None, type_expr: Any = None):
        self.graph = graph
        self.name = name
        self.op = op
        self.target = target
        self._args = tuple(args)
        self._kwargs = dict(kwargs or {})
        self.meta: Dict[str, Any] = {}
        self.type = type_expr
        self.erased = False
        self.nid = next(FxNode._ids)
        self.next: Optional[FxNode] = None  # live link kept after erasure (iteration semantics)

    def __repr__(self) -> str:
        return f"%{self.name}"

    def pyvc_types(self) -> Any:
        return {"Node"}

    # -- the users relation
    def users_list(self) -> List["FxNode"]:
        return [n for n in self.graph.nodes if any(m is self for m in nodes_in((n._args, n._kwargs)))]

    def input_nodes(self) -> List["FxNode"]:
        seen: List[FxNode] = []
        for m in nodes_in((self._args, self._kwargs)):
            if not any(m is s for s in seen):
                seen.append(m)
        return seen

    def pyvc_getattr(self, interp: Any, name: str) -> Any:
        B = Builtin
        if name in ("name", "op", "target", "meta", "type", "graph"):
            return getattr(self, name)
        if name == "args":
            return self._args
        if name == "kwargs":
            return self._kwargs
        if name == "users":
            return UsersView(self)
        if name in ("all_input_nodes",):
            return self.input_nodes()
        if name == "_input_nodes":
            return {n: None for n in self.input_nodes()}
        if name == "replace_all_uses_with":
            return B("Node.replace_all_uses_with", lambda it, a, k: self.replace_all_uses_with(it, a[0]))
        if name == "replace_input_with":
            return B("Node.replace_input_with", lambda it, a, k: self.replace_input_with(it, a[0], a[1]))
        if name == "next":
            return self.next
        raise PyRaise("AttributeError", f"Node has no attribute {name}")

    def pyvc_setattr(self, interp: Any, name: str, v: Any) -> None:
        interp.ctx.effects.append(("graph", self.graph, f"set {self.name}.{name}"))
        self.graph.log.append(("set", self, name))
        if name == "args":
            if not isinstance(v, tuple):
                raise PyRaise("AssertionError", "Node.args must be a tuple")
            self._args = v
        elif name == "kwargs":
            self._kwargs = dict(v)
        elif name in ("target", "name", "type", "meta"):
            setattr(self, name, v)
        else:
            raise OutOfReach(f"Node.{name} = ...")

    def replace_all_uses_with(self, interp: Any, new: "FxNode") -> Any:
        users = self.users_list()
        for u in users:
            if u is new:
                continue
            u._args = map_arg(u._args, lambda n: new if n is self else n)
            u._kwargs = map_arg(u._kwargs, lambda n: new if n is self else n)
        self.graph.log.append(("replace_all_uses", self, new))
        return users

    def replace_input_with(self, interp: Any, old: "FxNode", new: "FxNode") -> None:
        self._args = map_arg(self._args, lambda n: new if n is old else n)
        self._kwargs = map_arg(self._kwargs, lambda n: new if n is old else n)
        self.graph.log.append(("replace_input", self, old, new))

    def pyvc_equals(self, interp: Any, a: Any, b: Any) -> Any:
        return a is b


class UsersView:
    def __init__(self, node: FxNode):
        self.node = node

    def pyvc_iter(self, interp: Any) -> List[FxNode]:
        return self.node.users_list()

    def pyvc_list(self, interp: Any) -> List[FxNode]:
        return self.node.users_list()

    def pyvc_len(self, interp: Any) -> int:
        return len(self.node.users_list())

    def pyvc_contains(self, interp: Any, item: Any) -> bool:
        return any(item is u for u in self.node.users_list())

    def pyvc_getattr(self, interp: Any, name: str) -> Any:
        if name == "keys":
            return Builtin("users.keys", lambda it, a, k: self.node.users_list())
        raise PyRaise("AttributeError", name)


class NodeList:
    def __init__(self, graph: "FxGraph"):
        self.graph = graph

    def pyvc_lazy_iter(self, interp: Any) -> Iterator[FxNode]:
        g = self.graph
        cur = g.nodes[0] if g.nodes else None
        steps = 0
        while cur is not None:
            steps += 1
            if steps > 10000:
                raise OutOfReach("graph iteration did not terminate")
            if not cur.erased:
                yield cur
            cur = cur.next

    def pyvc_iter(self, interp: Any) -> List[FxNode]:
        return list(self.graph.nodes)

    def pyvc_list(self, interp: Any) -> List[FxNode]:
        return list(self.graph.nodes)

    def pyvc_len(self, interp: Any) -> int:
        return len(self.graph.nodes)


class InsertCtx:
    def __init__(self, graph: "FxGraph", after: Optional[FxNode]):
        self.graph, self.after = graph, after
        self.saved: Any = None

    def pyvc_getattr(self, interp: Any, name: str) -> Any:
        if name == "__enter__":
            def enter(it: Any, a: Any, k: Any) -> Any:
                self.saved = self.graph.insert_after
                self.graph.insert_after = self.after
                return None

            return Builtin("enter", enter)
        if name == "__exit__":
            def exit_(it: Any, a: Any, k: Any) -> Any:
                self.graph.insert_after = self.saved
                return None

            return Builtin("exit", exit_)
        raise PyRaise("AttributeError", name)


class FxGraph:
    def __init__(self) -> None:
        self.nodes: List[FxNode] = []
        self.insert_after: Optional[FxNode] = None
        self.log: List[Any] = []
        self.names: Dict[str, int] = {}
        self.attrs: Dict[str, Any] = {}

    def pyvc_types(self) -> Any:
        return {"Graph"}

    def _name(self, base: str) -> str:
        k = self.names.get(base, 0)
        self.names[base] = k + 1
        return base if k == 0 else f"{base}_{k}"

    def add(self, op: str, target: Any, args: Tuple[Any, ...] = (), kwargs: Optional[Dict[str, Any]] = None, name: Optional[str] = None, type_expr: Any = None) -> FxNode:
        base = name or (getattr(target, "name", None) or getattr(target, "qualname", None) or str(target)).split(".")[-1].strip("_")
        n = FxNode(self, self._name(base), op, target, args, kwargs, type_expr)
        if self.insert_after is not None and any(self.insert_after is m for m in self.nodes):
            i = next(j for j, m in enumerate(self.nodes) if m is self.insert_after)
            self.nodes.insert(i + 1, n)
        elif self.insert_after is not None:
            self.nodes.append(n)
        else:
            # default insertion point: before the output node if there is one
            outs = [j for j, m in enumerate(self.nodes) if m.op == "output"]
            if outs and op != "output":
                self.nodes.insert(outs[0], n)
            else:
                self.nodes.append(n)
        self._relink()
        return n

    def _relink(self) -> None:
        for a, b in zip(self.nodes, self.nodes[1:]):
            a.next = b
        if self.nodes:
            self.nodes[-1].next = None

    def erase_node(self, interp: Any, n: FxNode) -> None:
        users = n.users_list()
        if users:
            raise PyRaise("RuntimeError", f"Tried to erase Node {n.name} but it still had {len(users)} users in the graph")
        if not any(n is m for m in self.nodes):
            raise PyRaise("RuntimeError", "node not in graph")
        i = next(j for j, m in enumerate(self.nodes) if m is n)
        nxt = self.nodes[i + 1] if i + 1 < len(self.nodes) else None
        self.nodes.pop(i)
        self._relink()
        n.next = nxt  # erased nodes keep their forward link
        n.erased = True
        self.log.append(("erase", n))

    def lint(self, interp: Any) -> None:
        pos = {id(n): i for i, n in enumerate(self.nodes)}
        for n in self.nodes:
            for m in n.input_nodes():
                if id(m) not in pos:
                    raise PyRaise("RuntimeError", f"Argument {m.name} of Node {n.name} does not reference a node in this graph")
                if pos[id(m)] >= pos[id(n)]:
                    raise PyRaise("RuntimeError", f"Argument {m.name} of Node {n.name} was used before it has been defined")

    def pyvc_getattr(self, interp: Any, name: str) -> Any:
        B = Builtin
        if name == "nodes":
            return NodeList(self)
        if name == "inserting_after":
            return B("Graph.inserting_after", lambda it, a, k: InsertCtx(self, a[0] if a else k.get("n")))
        if name == "call_function":
            def cf(it: Any, a: List[Any], k: Dict[str, Any]) -> Any:
                target = a[0] if a else k["the_function"]
                args = a[1] if len(a) > 1 else k.get("args", ())
                kwargs = a[2] if len(a) > 2 else k.get("kwargs", {})
                ty = a[3] if len(a) > 3 else k.get("type_expr")
                it.ctx.effects.append(("graph", self, "call_function"))
                n = self.add("call_function", target, tuple(args or ()), dict(kwargs or {}), type_expr=ty)
                self.log.append(("new", n))
                return n

            return B("Graph.call_function", cf)
        if name == "erase_node":
            def er(it: Any, a: List[Any], k: Dict[str, Any]) -> Any:
                it.ctx.effects.append(("graph", self, "erase_node"))
                self.erase_node(it, a[0])

            return B("Graph.erase_node", er)
        if name == "lint":
            return B("Graph.lint", lambda it, a, k: self.lint(it))
        if name == "eliminate_dead_code":
            # ASSUMED Graph.eliminate_dead_code: in reverse order, erase every node without users that
            # is not a placeholder / output (the opaque targets of the model graphs count as pure)
            def dce(it: Any, a: List[Any], k: Dict[str, Any]) -> Any:
                changed = False
                for n in reversed(list(self.nodes)):
                    if n.op not in ("placeholder", "output") and not n.users_list():
                        it.ctx.effects.append(("graph", self, "erase_node"))
                        self.erase_node(it, n)
                        changed = True
                return changed

            return B("Graph.eliminate_dead_code", dce)
        if name in self.attrs:
            return self.attrs[name]
        raise PyRaise("AttributeError", f"Graph.{name}")

    def pyvc_setattr(self, interp: Any, name: str, v: Any) -> None:
        interp.ctx.effects.append(("graph", self, f"set graph.{name}"))
        self.attrs[name] = v

    def clone(self) -> Tuple["FxGraph", Dict[int, FxNode]]:
        g = FxGraph()
        mapping: Dict[int, FxNode] = {}
        for n in self.nodes:
            m = FxNode(g, n.name, n.op, n.target, (), {}, n.type)
            m.meta = dict(n.meta)
            g.nodes.append(m)
            mapping[id(n)] = m
        for n in self.nodes:
            m = mapping[id(n)]
            m._args = map_arg(n._args, lambda x: mapping[id(x)])
            m._kwargs = map_arg(n._kwargs, lambda x: mapping[id(x)])
        g.names = dict(self.names)
        g._relink()
        return g, mapping

    def signature(self) -> List[Tuple[str, str, Any, Any, Any]]:
        return [(n.name, n.op, n.target, n._args, n._kwargs) for n in self.nodes]


def b_deepcopy(interp: Any, args: List[Any], kwargs: Dict[str, Any]) -> Any:
    v = args[0]
    if isinstance(v, FxGraph):
        g, _ = v.clone()
        return g
    h = getattr(v, "pyvc_deepcopy", None)
    if h is not None:
        return h(interp)
    raise OutOfReach(f"deepcopy of {type(v).__name__}")


class GraphModuleModel:
    def __init__(self, root: Any, graph: FxGraph):
        self.root, self.graph = root, graph
        self.attrs: Dict[str, Any] = {}

    def pyvc_getattr(self, interp: Any, name: str) -> Any:
        if name == "graph":
            return self.graph
        if name in self.attrs:
            return self.attrs[name]
        raise PyRaise("AttributeError", name)

    def pyvc_setattr(self, interp: Any, name: str, v: Any) -> None:
        self.attrs[name] = v


def hook(interp: Any, name: str) -> Any:
    if name in ("torch.fx.graph",):
        return {"Graph": TypeTok("Graph", lambda it, a, k: FxGraph())}
    if name in ("torch.fx.node",):
        return {"Node": TypeTok("Node"), "Target": TypeTok("Target")}
    if name == "torch.fx.graph_module":
        return {"GraphModule": TypeTok("GraphModule", lambda it, a, k: GraphModuleModel(a[0], a[1]))}
    if name == "copy":
        return {"deepcopy": Builtin("copy.deepcopy", b_deepcopy)}
    if name == "torch.fx":
        return {"Interpreter": TypeTok("Interpreter"), "Graph": TypeTok("Graph", lambda it, a, k: FxGraph()), "Node": TypeTok("Node")}
    return None
