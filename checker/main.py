#!/usr/bin/env python3
"""./check <property-id> [--tier quick|thorough] [--replay FILE] [--only SUBSTR] [--no-canaries]

Exit codes: 0 held on everything decided · 1 violation (VIOLATION line printed)
            2 undecided obligation(s) · 3 machinery error (out of reach, crash, assumption
            validator failed, canary not caught)
"""
from __future__ import annotations

import argparse
import hashlib
import json
import multiprocessing as mp
import os
import re
import subprocess
import sys
import time
from typing import Any, Dict, List, Optional, Tuple

ROOT = os.path.dirname(os.path.dirname(os.path.abspath(__file__)))
sys.path.insert(0, ROOT)
os.environ.setdefault("PYVC_TMP", "/dev/shm" if os.path.isdir("/dev/shm") else "/tmp")

VENV_PY = "/venv/bin/python"


def load_jobs() -> Dict[str, Any]:
    import importlib

    from contracts.registry import JOBS

    for mod in sorted(os.listdir(os.path.join(ROOT, "contracts"))):
        if mod.startswith("jobs_") and mod.endswith(".py"):
            importlib.import_module("contracts." + mod[:-3])
    import contracts.known  # noqa: F401  (installs known-finding restrictions)

    return JOBS


def _run_job(key: str) -> Dict[str, Any]:
    from contracts.registry import JOBS
    from pyvc import harness

    harness.CURRENT_JOB[0] = key
    t0 = time.time()
    try:
        rec = JOBS[key].run()
        d = rec.to_json()
    except Exception as e:  # crash outside run_config
        import traceback

        d = {"fn": JOBS[key].fn, "cfg": JOBS[key].cfg, "obligations": [], "paths": 0, "error": f"{type(e).__name__}: {e}\n{traceback.format_exc()}", "error_kind": "crash", "inlined": [], "contracts_used": [], "cover": "?", "notes": [], "wall_s": 0}
    d["job"] = key
    d["wall_s"] = round(time.time() - t0, 3)
    return d


def _run_canary(item: Tuple[str, str]) -> Dict[str, Any]:
    """Apply an in-memory mutation of the real source, run one job, report which
    obligations fail."""
    cid, _ = item
    from contracts.canaries import CANARIES
    from pyvc import interp

    c = CANARIES[cid]
    src = open(os.path.join(interp.REPO, c["file"])).read()
    if src.count(c["old"]) != 1:
        return {"canary": cid, "status": "pattern-not-found", "detail": f"{c['file']}: pattern occurs {src.count(c['old'])} times"}
    interp.OVERLAY[c["module"]] = src.replace(c["old"], c["new"])
    try:
        d = _run_job(c["job"])
    finally:
        interp.OVERLAY.clear()
    # a canary with not_proved=True targets an inductive job whose solver answers `unknown` rather than
    # `sat` on quantified goals: there, "the proof no longer goes through" is the detection
    bad_status = ("violated", "known_finding", "undecided") if c.get("not_proved") else ("violated", "known_finding")
    failed = sorted({o["name"] for o in d["obligations"] if o["status"] in bad_status})
    expected = c["expect"]
    hit = [n for n in failed if any(e in n for e in expected)]
    if not hit and c.get("via"):
        # modular detection: the change is inside a callee whose own contract job catches it
        interp.OVERLAY[c["module"]] = src.replace(c["old"], c["new"])
        try:
            d2 = _run_job(c["via"])
        finally:
            interp.OVERLAY.clear()
        failed2 = sorted({o["name"] for o in d2["obligations"] if o["status"] in ("violated", "known_finding")})
        hit = [n for n in failed2 if any(e in n for e in c.get("via_expect", expected))]
        failed = failed + failed2
    return {
        "canary": cid,
        # a canary is a mutant that must be DETECTED; which obligation detects it is informative only
        # (mutants written against local names must not turn a harmless renaming into an alarm)
        "status": "caught" if hit else ("caught-by-another-obligation" if failed else ("error" if d.get("error") else "MISSED")),
        "failed_obligations": failed[:8],
        "expected": expected,
        "error": (d.get("error") or "")[:300],
        "wall_s": d["wall_s"],
    }


def sanitize(s: str) -> str:
    return re.sub(r"[^A-Za-z0-9_.=-]+", "_", s)[:120]


def main() -> int:
    ap = argparse.ArgumentParser()
    ap.add_argument("prop")
    ap.add_argument("--tier", default=os.environ.get("VERIF_TIER", "quick"))
    ap.add_argument("--replay")
    ap.add_argument("--only", default="")
    ap.add_argument("--no-canaries", action="store_true")
    ap.add_argument("--procs", type=int, default=int(os.environ.get("VERIF_PROCS", "16")))
    a = ap.parse_args()
    prop = a.prop
    seed = int(os.environ.get("VERIF_SEED", "0"))
    t0 = time.time()

    if a.replay:
        r = subprocess.run([VENV_PY, os.path.join(ROOT, "replay", "replay.py"), a.replay])
        return r.returncode

    from checker import props

    info = props.PROPS.get(prop)
    if info is None:
        print(f"property {prop} is not claimed (see MANIFEST.json not_applicable)")
        return 3

    jobs = load_jobs()
    extra_sel = info.get("extra_jobs")
    extra_pref = tuple(info.get("extra_prefixes", []))
    sel = [k for k, j in jobs.items() if (prop in j.props or (extra_sel is not None and extra_sel(j))) and (a.tier == "thorough" or j.tier == "quick") and a.only in k]
    mp.set_start_method("fork")
    results: List[Dict[str, Any]] = []
    with mp.Pool(min(a.procs, max(1, len(sel)))) as pool:
        for d in pool.imap_unordered(_run_job, sel, chunksize=1):
            results.append(d)
    results.sort(key=lambda d: d["job"])

    # ---- canaries (vacuity guard): mutants of the real source that MUST fail
    canary_results: List[Dict[str, Any]] = []
    if not a.no_canaries and not a.only:
        from contracts.canaries import CANARIES

        cs = [(cid, "") for cid, c in CANARIES.items() if prop in c["props"] and (a.tier == "thorough" or c.get("tier", "quick") == "quick")]
        if cs:
            with mp.Pool(min(a.procs, len(cs))) as pool:
                canary_results = list(pool.imap_unordered(_run_canary, cs, chunksize=1))
            canary_results.sort(key=lambda d: d["canary"])

    # ---- extra components (Lean, assumption validators, bounded stand-ins)
    comps: List[Dict[str, Any]] = []
    if not a.only:
        for comp in info.get("components", []):
            comps.append(comp(a.tier, seed))

    # ---- collect
    obligations: List[Dict[str, Any]] = []
    errors: List[str] = []
    functions: Dict[str, str] = {}
    inlined: set = set()
    contracts_used: set = set()
    covers_bad: List[str] = []
    notes: List[str] = []
    from pyvc.interp import Repo

    repo = Repo()
    for d in results:
        if d.get("error"):
            errors.append(f"{d['job']}: {d['error'][:600]}")
        is_extra = extra_sel is not None and prop not in jobs[d["job"]].props
        mine = [o for o in d["obligations"] if (o["name"].startswith(prop + ":") and not is_extra) or (jobs[d["job"]].shared and not is_extra) or (is_extra and o["name"].startswith(extra_pref))]
        for o in mine:
            o["job"] = d["job"]
            obligations.append(o)
        if mine and d.get("cover") != "sat":
            covers_bad.append(d["job"])
        inlined |= set(d.get("inlined", []))
        contracts_used |= set(d.get("contracts_used", []))
        notes += [f"{d['job']}: {n}" for n in d.get("notes", [])]
        fn = d["fn"]
        if fn not in functions:
            try:
                parts = fn.split(".")
                for i in range(len(parts), 0, -1):
                    m = ".".join(parts[:i])
                    if repo.module_path(m):
                        functions[fn] = repo.function_hash(m, ".".join(parts[i:])) if parts[i:] else "module"
                        break
            except Exception:
                functions[fn] = "n/a"

    n_ob = len(obligations)
    st: Dict[str, int] = {}
    for o in obligations:
        st[o["status"]] = st.get(o["status"], 0) + 1
    violated = [o for o in obligations if o["status"] == "violated"]
    known = [o for o in obligations if o["status"] == "known_finding"]
    undecided = [o for o in obligations if o["status"] == "undecided"]

    out_lines: List[str] = []
    exit_code = 0

    # known findings
    seen_known = set()
    for o in known:
        fid = o["info"].get("finding", "?")
        if fid in seen_known:
            continue
        seen_known.add(fid)
        from contracts.known import FINDINGS

        out_lines.append(f"KNOWN-FINDING: property={prop} {fid}: {FINDINGS.get(fid, {}).get('what', o['name'])}")

    # violations -> replay
    n_viol = 0
    rdir = os.path.join(ROOT, "out", "replays", prop)
    reported = set()
    pending: List[Tuple[Dict[str, Any], str, Dict[str, Any]]] = []
    for o in violated:
        key = (o["name"], o["job"])
        if key in reported:
            continue
        reported.add(key)
        n_viol += 1
        os.makedirs(rdir, exist_ok=True)
        path = os.path.join(rdir, sanitize(o["name"]) + "__" + hashlib.sha1(o["job"].encode()).hexdigest()[:8] + ".json")
        rj = {
            "property": prop,
            "obligation": o["name"],
            "job": o["job"],
            "function": jobs[o["job"]].fn,
            "cfg": jobs[o["job"]].cfg,
            "witness": o.get("witness") or {},
            "model": o.get("model") or {},
            "info": o.get("info"),
            "solver": o.get("solver"),
            "seed": seed,
        }
        json.dump(rj, open(path, "w"), indent=1, default=str)
        pending.append((o, path, rj))
    # replays on the real code, several per interpreter start (torch import dominates); a replay that
    # mutates process-wide state can only affect the few replays that share its process
    BATCH = 6
    outcome: Dict[str, Tuple[bool, str]] = {}
    for b in range(0, len(pending), BATCH):
        chunk = [p_ for _, p_, _ in pending[b : b + BATCH]]
        try:
            rr = subprocess.run([VENV_PY, os.path.join(ROOT, "replay", "replay.py"), "--batch"] + chunk, capture_output=True, text=True, timeout=1800)
            buf: List[str] = []
            for line in (rr.stdout or "").splitlines():
                if line.startswith("RESULT "):
                    _, code, pth = line.split(" ", 2)
                    outcome[pth] = (code == "1", "\n".join(buf)[-3000:])
                    buf = []
                else:
                    buf.append(line)
            for pth in chunk:
                outcome.setdefault(pth, (False, "replay produced no result: " + (rr.stderr or "")[-1500:]))
        except Exception as e:
            for pth in chunk:
                outcome.setdefault(pth, (False, f"replay failed to run: {e}"))
    for o, path, rj in pending:
        reproduced, rout = outcome.get(path, (False, "not replayed"))
        rj["replay_output"] = rout
        rj["reproduced_on_real_code"] = reproduced
        json.dump(rj, open(path, "w"), indent=1, default=str)
        if not reproduced and (o.get("info") or {}).get("generic_ops"):
            # the failed obligation depends on an UNMODELLED torch function and the real code does
            # not reproduce the failure: undecided, not a violation
            n_viol -= 1
            undecided.append(o)
            out_lines.append(f"UNDECIDED property={prop} obligation={o['name']} depends on unmodelled torch function(s) {o['info']['generic_ops']}; replay on the real code did not reproduce (file {path})")
            continue
        suffix = "" if reproduced else " no-failing-input-found"
        out_lines.append(f"VIOLATION property={prop} replay={path} obligation={o['name']}{suffix}")
        exit_code = 1

    for comp in comps:
        for v in comp.get("violations", []):
            n_viol += 1
            os.makedirs(rdir, exist_ok=True)
            path = os.path.join(rdir, sanitize(v["name"]) + ".json")
            json.dump(dict(v, property=prop, component=comp["name"]), open(path, "w"), indent=1, default=str)
            suffix = "" if v.get("reproduced", True) else " no-failing-input-found"
            out_lines.append(f"VIOLATION property={prop} replay={path} obligation={v['name']}{suffix}")
            exit_code = 1
        for kf in comp.get("known", []):
            out_lines.append(f"KNOWN-FINDING: property={prop} {kf}")
        if comp.get("error"):
            errors.append(f"component {comp['name']}: {comp['error']}")

    missed = [c for c in canary_results if c["status"] == "MISSED"]
    canary_err = [c for c in canary_results if c["status"] == "error"]
    if exit_code == 0:
        if undecided:
            exit_code = 2
        if errors or missed or covers_bad or n_ob == 0 and not comps:
            exit_code = 3

    # ---- evidence
    level = info["level"]
    samples = []
    for o in obligations[:: max(1, len(obligations) // 6)][:6]:
        samples.append({"obligation": o["name"], "job": o["job"], "status": o["status"], "solver": o["solver"], "time_s": o["time_s"]})
    solver_time = round(sum(o["time_s"] for o in obligations), 3)
    by_solver: Dict[str, int] = {}
    for o in obligations:
        if o["status"] == "discharged":
            by_solver[o["solver"]] = by_solver.get(o["solver"], 0) + 1
    comp_summaries = [{k: v for k, v in c.items() if k not in ("violations",)} for c in comps]
    n_comp_ob = sum(c.get("obligations", 0) for c in comps)
    n_comp_dis = sum(c.get("discharged", 0) for c in comps)
    coverage: Dict[str, Any] = {
        # obligations to discharge: every generated obligation except those decided as VIOLATED by a
        # recorded known finding (listed separately; they are not counted as proved)
        "obligations": n_ob - len(known) + n_comp_ob,
        "discharged": st.get("discharged", 0) + n_comp_dis,
        "known_finding_obligations": len(known),
        "known_findings": sorted({o["info"].get("finding", "?") for o in known}),
        "violated": len(violated),
        "undecided": len(undecided),
        "checker_cmd": f"./check {prop} --tier {a.tier}",
        "trusted_base": info["trusted_base"],
        "explanation": info["explanation"],
        "functions_under_contract": functions,
        "inlined_helpers": sorted(inlined),
        "callee_contracts_used": sorted(contracts_used),
        "discharged_by_backend": by_solver,
        "solver_time_s": solver_time,
        "jobs": len(results),
        "paths": sum(d.get("paths", 0) for d in results),
        "canaries": canary_results,
        "components": comp_summaries,
        "bounded_standins": info.get("bounded", []),
        "uncovered_clauses": info.get("uncovered", []),
        "extraction_drops": props.EXTRACTION_DROPS,
        "undecided_obligations": [o["name"] + " @ " + o["job"] for o in undecided][:20],
        "machinery_errors": errors[:20],
        "notes": notes[:20],
        "samples": samples or [{"note": "no SMT obligations; see components"}],
        "evaluations": max(1, n_ob + n_comp_ob),
        "distinct_nontrivial": max(2, len({o["name"] for o in obligations}) + n_comp_ob),
        "rule": "one evaluation = one named proof obligation (function x configuration x path x clause); distinct = distinct obligation names",
    }
    ev = {
        "property_id": prop,
        "tier": a.tier,
        "seed": seed,
        "level": level,
        "coverage": coverage,
        "assumptions": info["assumptions"],
        "wall_s": round(time.time() - t0, 2),
        "violations": n_viol,
    }
    # evidence/<id>.json describes a run on the tree as it is; runs against a deliberately changed tree
    # (seeded sweep, false-alarm test) write theirs elsewhere so that they cannot be committed by mistake
    ev_dir = os.environ.get("VERIF_EVIDENCE_DIR") or os.path.join(ROOT, "evidence")
    os.makedirs(ev_dir, exist_ok=True)
    json.dump(ev, open(os.path.join(ev_dir, f"{prop}.json"), "w"), indent=1, default=str)

    for ln in out_lines:
        print(ln)
    print(
        f"[{prop}] tier={a.tier} jobs={len(results)} obligations={n_ob + n_comp_ob} status={st} components={[(c['name'], c.get('ok')) for c in comps]} "
        f"canaries={[(c['canary'], c['status']) for c in canary_results]} wall={ev['wall_s']}s exit={exit_code}"
    )
    for e in errors[:10]:
        print("  ERROR:", e[:400])
    for o in undecided[:10]:
        print("  UNDECIDED:", o["name"], "@", o["job"])
    for c in missed:
        print("  CANARY MISSED:", c)
    for j in covers_bad[:5]:
        print("  VACUOUS (no satisfiable path):", j)
    return exit_code


if __name__ == "__main__":
    sys.exit(main())
