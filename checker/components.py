"""Extra components of a property check: Lean lemmas, assumption validators, engine
cross-checks, bounded stand-ins.  Each returns a dict:
  name, kind, ok, obligations, discharged, detail, error?, violations?, known?"""
from __future__ import annotations

import json
import os
import re
import subprocess
import time
from typing import Any, Callable, Dict, List

ROOT = os.path.dirname(os.path.dirname(os.path.abspath(__file__)))
VENV_PY = "/venv/bin/python"


def lean(theorems: List[str]) -> Callable[[str, int], Dict[str, Any]]:
    def run(tier: str, seed: int) -> Dict[str, Any]:
        t0 = time.time()
        r = subprocess.run(["sh", os.path.join(ROOT, "lean", "build.sh")], capture_output=True, text=True, timeout=3600)
        src = open(os.path.join(ROOT, "lean", "Means.lean")).read() + open(os.path.join(ROOT, "lean", "Telescoping.lean")).read()
        have = set(re.findall(r"^theorem\s+(\w+)", src, flags=re.M))
        missing = [t for t in theorems if t not in have]
        ok = r.returncode == 0 and not missing
        d = {
            "name": "lean-lemmas",
            "kind": "proof (Lean 4.33 + Mathlib kernel)",
            "ok": ok,
            "obligations": len(theorems),
            "discharged": len(theorems) if ok else 0,
            "theorems": theorems,
            "detail": (r.stdout + r.stderr)[-400:],
            "wall_s": round(time.time() - t0, 1),
        }
        if not ok:
            d["error"] = f"Lean build failed or theorems missing: {missing} :: {(r.stdout + r.stderr)[-300:]}"
        return d

    return run


def validators(groups: List[str], n_quick: int = 8, n_thorough: int = 60) -> Callable[[str, int], Dict[str, Any]]:
    def run(tier: str, seed: int) -> Dict[str, Any]:
        t0 = time.time()
        n = n_quick if tier == "quick" else n_thorough
        r = subprocess.run([VENV_PY, os.path.join(ROOT, "trusted", "validate_torch.py"), "--groups", ",".join(groups), "--seed", str(seed), "--n", str(n)], capture_output=True, text=True, timeout=3600)
        try:
            out = json.loads(r.stdout.strip().splitlines()[-1])
        except Exception:
            return {"name": "assumption-validators", "kind": "assumption validation (bounded)", "ok": False, "error": "validator crashed: " + (r.stdout + r.stderr)[-400:]}
        failed = {g: v["failed"] for g, v in out.items() if v["failed"]}
        d = {
            "name": "assumption-validators",
            "kind": "assumption validation against the installed torch (bounded, randomised; NOT counted as proof)",
            "ok": not failed,
            "groups": {g: v["checks"] for g, v in out.items()},
            "detail": f"{sum(v['checks'] for v in out.values())} executions of assumed dependency contracts",
            "wall_s": round(time.time() - t0, 1),
        }
        if failed:
            d["error"] = f"assumed contract(s) of a dependency do not hold on the installed version: {json.dumps(failed)[:600]}"
        return d

    return run


def script(name: str, kind: str, argv: List[str], python: str = VENV_PY) -> Callable[[str, int], Dict[str, Any]]:
    """A component implemented as a script printing one JSON object on its last line:
    {ok, obligations?, discharged?, detail, violations?: [{name, ...}], known?: [...], error?}"""

    def run(tier: str, seed: int) -> Dict[str, Any]:
        t0 = time.time()
        env = dict(os.environ, VERIF_SEED=str(seed), VERIF_TIER=tier)
        r = subprocess.run([python] + [a.replace("{ROOT}", ROOT) for a in argv] + ["--tier", tier, "--seed", str(seed)], capture_output=True, text=True, timeout=7200, env=env, cwd=ROOT)
        try:
            d = json.loads(r.stdout.strip().splitlines()[-1])
        except Exception:
            return {"name": name, "kind": kind, "ok": False, "error": f"{name} crashed: " + (r.stdout + r.stderr)[-600:]}
        d.setdefault("name", name)
        d.setdefault("kind", kind)
        d["wall_s"] = round(time.time() - t0, 1)
        return d

    return run
