#!/usr/bin/env python3
"""Engine validation for the bit-precise mode (NOT property evidence): the SMT term the VC
generator derives for FPFormat.quantise is evaluated (z3 constant folding) on concrete
float32 bit patterns and compared with the real quantise run by torch on the same patterns;
for stochastic rounding the random draw is pinned (torch.randint substituted).  Also checks
bitmodel.repr_pred against an exact Fraction oracle of the value set."""
from __future__ import annotations

import argparse
import json
import os
import random
import subprocess
import sys
import tempfile
import time

ROOT = os.path.dirname(os.path.dirname(os.path.abspath(__file__)))
sys.path.insert(0, ROOT)
import z3  # noqa: E402


def main() -> int:
    ap = argparse.ArgumentParser()
    ap.add_argument("--tier", default="quick")
    ap.add_argument("--seed", type=int, default=0)
    a = ap.parse_args()
    from contracts import jobs_formats as jf
    from pyvc import bitmodel as bm
    from pyvc.bitmodel import BitTensor
    from pyvc.harness import lookup_fn
    from pyvc.sym import Ctx
    from pyvc.tensor import Run, Shape, Storage

    t0 = time.time()
    rng = random.Random(a.seed)
    n = 300 if a.tier == "quick" else 3000
    fmts = [(4, 3, "nearest", 0), (5, 2, "nearest", 0), (2, 1, "nearest", 0), (8, 23, "nearest", 0), (5, 10, "nearest", 0), (4, 3, "stochastic", 4), (5, 2, "stochastic", 0), (3, 0, "stochastic", 2)]
    cases = []
    repr_bad = []
    for E, M, rounding, s in fmts:
        ctx = Ctx()
        it = jf.mk_bit_interp(ctx, [jf.FM + "FPFormat.quantise"])
        fmt = jf.mk_format(it, E, M, rounding, s)
        x = jf.fp32("x")
        xt = BitTensor(Shape([Run(ctx, "a")]), "float32", x, Storage("input:x"), "x")
        r = it.call(lookup_fn(it, jf.FM + "FPFormat.quantise"), [fmt, xt], {})
        code_bits = z3.fpToIEEEBV(r.elem)
        calls = ctx.__dict__.get("randint_calls", [])
        R = calls[0]["R"] if calls else None
        sr = fmt.attrs["srbits"]
        xs = []
        for _ in range(n):
            mode = rng.random()
            if mode < 0.5:
                b = rng.getrandbits(32)
            elif mode < 0.8:
                e = rng.randint(max(1, 127 - 2 ** (E - 1) - 3), min(254, 127 + 2 ** (E - 1) + 1))
                b = (rng.getrandbits(1) << 31) | (e << 23) | rng.getrandbits(23)
            else:
                e = rng.randint(max(1, 127 - 2 ** (E - 1) - 3), min(254, 127 + 2 ** (E - 1) + 1))
                mant = (rng.getrandbits(M) << (23 - M)) if M else 0
                b = (rng.getrandbits(1) << 31) | (e << 23) | mant | rng.choice([0, 0, 1, (1 << (23 - M)) >> 1 if M < 23 else 0])
            if (b >> 23) & 0xFF == 0xFF:
                continue
            if E == 8 and ((b >> 23) & 0xFF) >= 253:
                continue
            xs.append(b)
        for b in xs:
            sub = [(x, z3.fpBVToFP(z3.BitVecVal(b, 32), z3.Float32()))]
            rv = rng.randrange(0, 2**sr) if R is not None else 0
            if R is not None:
                sub.append((R, z3.BitVecVal(rv, 32)))
            v = z3.simplify(z3.substitute(code_bits, *sub))
            if not z3.is_bv_value(v):
                continue
            cases.append({"E": E, "M": M, "rounding": rounding, "srbits": s, "x": b, "R": rv, "want": v.as_long()})
            # value-set predicate vs exact oracle (computed by the consumer)
            rp = z3.simplify(bm.repr_pred(E, M, z3.BitVecVal(b, 32)))
            cases[-1]["repr"] = bool(z3.is_true(rp))
    with tempfile.NamedTemporaryFile("w", suffix=".json", delete=False, dir=os.environ.get("PYVC_TMP")) as f:
        json.dump(cases, f)
        path = f.name
    try:
        r_ = subprocess.run(["/venv/bin/python", os.path.join(ROOT, "replay", "crosscheck_bits_consumer.py"), path], capture_output=True, text=True, timeout=3600)
        out = json.loads(r_.stdout.strip().splitlines()[-1])
    except Exception as e:
        out = {"compared": 0, "mismatches": [f"consumer failed: {e}"]}
    finally:
        os.unlink(path)
    ok = not out["mismatches"] and out["compared"] > 0
    res = {"name": "engine-cross-check-bits", "kind": "engine validation (bit-precise SMT term of quantise and the value-set predicate vs the real code / an exact oracle on concrete patterns); NOT property evidence", "ok": ok, "obligations": 0, "discharged": 0, "evaluations": out["compared"], "detail": f"{len(fmts)} formats x ~{n} float32 patterns, {out['compared']} comparisons", "wall_s": round(time.time() - t0, 1)}
    if not ok:
        res["error"] = f"bit-precise model disagrees with torch: {out['mismatches'][:4]}"
    print(json.dumps(res))
    return 0


if __name__ == "__main__":
    sys.exit(main())
