#!/usr/bin/env python3
"""Regenerate /verif/MANIFEST.json from checker/props.py (run with python3-vt)."""
import json
import os
import sys

ROOT = os.path.dirname(os.path.dirname(os.path.abspath(__file__)))
sys.path.insert(0, ROOT)
from checker import props  # noqa: E402

ALL = [json.loads(l)["id"] for l in open(os.path.join(ROOT, "properties.jsonl"))]
checks = []
for pid in ALL:
    info = props.PROPS.get(pid)
    if info is None:
        continue
    checks.append(
        {
            "property_id": pid,
            "quick_cmd": f"./check {pid} --tier quick",
            "thorough_cmd": f"./check {pid} --tier thorough",
            "evidence_file": f"evidence/{pid}.json",
            "replay_cmd_template": f"./check {pid} --replay {{path}}",
            "engine": "pyvc",
            "level_claimed": {"category": info["level"], "text": info["explanation"], "design_ref": f"DESIGN.md §3 {pid}"},
            "level_note": "; ".join(info["assumptions"] + ["trusted base: " + ", ".join(info["trusted_base"])]),
            "technique": info.get("technique", "contract-based deductive verification: VCs generated from the real Python AST (pyvc), discharged by z3/cvc5"),
        }
    )
na = [{"property_id": pid, "reason": props.NOT_APPLICABLE.get(pid, "machinery not built yet (build in progress)")} for pid in ALL if pid not in props.PROPS]
m = {
    "version": 1,
    "setup_cmd": "./setup.sh",
    "hooks": {
        "guard": "UNIT_SCALING_VERIF",
        "enable": "no hooks are needed: the checks read /repo's working tree as text (pyvc) and import the installed package unmodified (replays, validators); the guard variable is unused",
        "baseline_off_cmd": "cd /repo && /venv/bin/python -m pytest -ra -q -p no:cacheprovider --timeout=900 --continue-on-collection-errors",
        "source_commits": [],
        "add_only": True,
    },
    "engines": [
        {"name": "pyvc", "path": "pyvc/", "serves_properties": [c["property_id"] for c in checks], "kind_free_text": "self-written verification-condition generator: symbolic execution of the real Python AST of /repo against sidecar contracts, obligations discharged by z3 5.1 (cvc5 / z3 4.8 fallback); Lean 4 + Mathlib for inductive lemmas; bit-precise FP/BV mode for formats.py"}
    ],
    "checks": checks,
    "notes": "Exit codes of ./check: 0 held, 1 violation (VIOLATION line), 2 undecided, 3 machinery error. Genuine defects repaired by 'fix:' commits in /repo are listed in known_findings.json under 'fixed'; recorded ones under 'findings'.",
    "not_applicable": na,
}
json.dump(m, open(os.path.join(ROOT, "MANIFEST.json"), "w"), indent=1)
print("checks:", [c["property_id"] for c in checks], "n/a:", [x["property_id"] for x in na])
