#!/usr/bin/env python3
"""Engine validation ("CPython cross-check", DESIGN 2.9) -- NOT property evidence.

For a selection of (op, configuration) pairs the symbolic run of the real source is
instantiated on a concrete small model of its inputs (shapes, hyper-parameters) found by
the solver; the forward scalar k and every gradient scalar b_i the VC generator derived are
evaluated in that model and compared with the values MEASURED by running the real function
under CPython / torch on tensors of exactly those shapes (replay.measure_op).  A mismatch
means the generator's encoding of Python / torch semantics is wrong: checker exit 3.

run with python3-vt; prints one JSON object on the last line."""
from __future__ import annotations

import argparse
import json
import os
import subprocess
import sys
import tempfile
import time

ROOT = os.path.dirname(os.path.dirname(os.path.abspath(__file__)))
sys.path.insert(0, ROOT)

import z3  # noqa: E402


def num(m: z3.ModelRef, e: z3.ExprRef) -> float:
    """evaluate e with the TRUE meaning of the uninterpreted arithmetic functions (pw = power,
    ex = exp, ln = log, pi) and the model's values for the input symbols only"""
    import math

    cache = {}

    def ev(x: z3.ExprRef):
        key = x.get_id()
        if key in cache:
            return cache[key]
        r = _ev(x)
        cache[key] = r
        return r

    def _ev(x: z3.ExprRef):
        if z3.is_int_value(x):
            return x.as_long()
        if z3.is_rational_value(x):
            return x.numerator_as_long() / x.denominator_as_long()
        if z3.is_true(x):
            return True
        if z3.is_false(x):
            return False
        k = x.decl().kind()
        name = x.decl().name()
        ch = x.children()
        if z3.is_const(x) and k == z3.Z3_OP_UNINTERPRETED:
            if name == "pi":
                return math.pi
            v = z3.simplify(m.eval(x, model_completion=True))
            if z3.is_int_value(v):
                return v.as_long()
            if z3.is_algebraic_value(v):
                v = v.approx(30)
            return v.numerator_as_long() / v.denominator_as_long()
        if k == z3.Z3_OP_UNINTERPRETED:
            a = [ev(c) for c in ch]
            if name == "pw":
                return float(a[0]) ** float(a[1])
            if name == "ex":
                return math.exp(a[0])
            if name == "ln":
                return math.log(a[0])
            if name == "n_valid":
                return float("nan")
            raise ValueError(f"uninterpreted {name}")
        a = [ev(c) for c in ch]
        if k == z3.Z3_OP_ADD:
            return sum(a)
        if k == z3.Z3_OP_MUL:
            r = 1
            for v in a:
                r = r * v
            return r
        if k == z3.Z3_OP_SUB:
            r = a[0]
            for v in a[1:]:
                r = r - v
            return r
        if k == z3.Z3_OP_UMINUS:
            return -a[0]
        if k == z3.Z3_OP_DIV:
            return a[0] / a[1]
        if k == z3.Z3_OP_IDIV:
            return a[0] // a[1] if a[1] > 0 else -((-a[0]) // a[1])
        if k == z3.Z3_OP_MOD:
            return a[0] % a[1]
        if k == z3.Z3_OP_TO_REAL:
            return float(a[0])
        if k == z3.Z3_OP_TO_INT:
            return math.floor(a[0])
        if k == z3.Z3_OP_POWER:
            return a[0] ** a[1]
        if k == z3.Z3_OP_ITE:
            return a[1] if a[0] else a[2]
        if k == z3.Z3_OP_LE:
            return a[0] <= a[1]
        if k == z3.Z3_OP_LT:
            return a[0] < a[1]
        if k == z3.Z3_OP_GE:
            return a[0] >= a[1]
        if k == z3.Z3_OP_GT:
            return a[0] > a[1]
        if k == z3.Z3_OP_EQ:
            return a[0] == a[1]
        if k == z3.Z3_OP_NOT:
            return not a[0]
        if k == z3.Z3_OP_AND:
            return all(a)
        if k == z3.Z3_OP_OR:
            return any(a)
        raise ValueError(f"operator {x.decl()}")

    try:
        return float(ev(e))
    except (ValueError, ZeroDivisionError, OverflowError, AttributeError, z3.Z3Exception):
        return float("nan")


def main() -> int:
    ap = argparse.ArgumentParser()
    ap.add_argument("--tier", default="quick")
    ap.add_argument("--seed", type=int, default=0)
    a = ap.parse_args()
    from contracts import jobs_functional as jf
    from contracts.common import grad_for, grads_of, mk_interp
    from pyvc.harness import eval_expr, lc_ratio, lookup_fn
    from pyvc.interp import explore
    from pyvc.sym import SV, Ctx
    from pyvc.tensor import SymTensor

    t0 = time.time()
    cases = []
    errors = []
    for spec in jf.OPS:
        cfgs = spec.configs()
        pick = cfgs if a.tier == "thorough" else [c for c in cfgs if c.get("constraint", None) in (None, "gmean", "to_grad_input_scale", "to_right_grad_scale")]
        pick = [c for c in pick if c.get("constraint") != jf.UNKNOWN and c.get("scale_power") != "symbolic" and not c.get("out") and c.get("kind") not in ("tensor+float", "int+tensor")]
        if a.tier != "thorough":
            pick = pick[:: max(1, len(pick) // 4)]
        for cfg in pick:
            qual = jf.UF + spec.name

            def build(ctx: Ctx, spec=spec, cfg=cfg, qual=qual):
                it = mk_interp(ctx, verifying=[qual])
                args, meta = spec.make(ctx, cfg)
                if spec.constraints is not None:
                    args["constraint"] = cfg.get("constraint")
                fl = [v for v in args.values() if isinstance(v, SymTensor) and z3.is_const(v.dtype) and v.dtype.decl().kind() == z3.Z3_OP_UNINTERPRETED]
                for v in fl[1:]:
                    ctx.assume(v.dtype == fl[0].dtype)
                f = lookup_fn(it, qual)

                def thunk():
                    res = jf._call(it, f, args)
                    ref = eval_expr(it, spec.ref, args)
                    refg = eval_expr(it, spec.ref_grad, args) if spec.ref_grad else ref
                    return res, ref, refg, args

                return it, thunk

            try:
                for p in explore(build):
                    if p.outcome != "return":
                        continue
                    ctx = p.ctx
                    res, ref, refg, args = p.value
                    k, _ = lc_ratio(ctx, res.val, ref.val)
                    _, gr = grads_of(ctx, p.interp, res)
                    _, gq = grads_of(ctx, p.interp, refg)
                    bs = {}
                    for name in spec.diff:
                        t = args.get(name)
                        if isinstance(t, SymTensor):
                            b, _ = lc_ratio(ctx, grad_for(gr, t), grad_for(gq, t))
                            if b is not None:
                                bs[name] = b
                    s = z3.Solver()
                    s.set("timeout", 20000)
                    s.add(*ctx.hyps())
                    syms = {n: v.z for n, v in ctx.inputs.items() if isinstance(v, SV)}
                    for r in ctx.__dict__.get("_runs", []):
                        syms[r.name + ".n"], syms[r.name + ".P"] = r.n, r.P
                    import random

                    rng = random.Random(a.seed + len(cases))
                    # keep the instance non-degenerate and realisable by the replay's shape builder
                    if spec.name == "conv1d":
                        s.add(syms["dilation"] == 1, syms["padding"] <= 1, syms["seq_len"] >= syms["kernel_size"] + 1, syms["stride"] <= 2)
                    if spec.name == "cross_entropy":
                        s.add(syms["ignore_index"] == -100)
                    if spec.name == "scaled_dot_product_attention":
                        s.add(syms["dropout_p"] == 0, syms["seq_q"] == syms["seq_len"])
                    if spec.name == "add" and cfg.get("kind") == "tensors":
                        s.add(z3.Int("bcast.P") == syms["a.P"] * syms["b.P"])
                    for n, z in syms.items():
                        if z.sort() == z3.IntSort():
                            s.add(z <= 6)
                            if n.endswith(".n"):
                                s.add(z >= 1, z <= 2)
                            if n.endswith(".P") or n in ("fan_in", "fan_out", "seq_len", "vocab_size", "batch_size", "inner_size", "left_size", "right_size", "d_head", "norm_dim0", "vocab"):
                                s.add(z >= 2)
                        elif n not in ("ignore_index",):
                            lo = rng.choice([0.25, 0.5, 0.75, 1.25, 2.0])
                            s.push()
                            s.add(z == z3.RealVal(str(lo)))
                            if s.check() != z3.sat:
                                s.pop()
                            # keep the pin when satisfiable
                    if s.check() != z3.sat:
                        continue
                    m = s.model()
                    w = {n: str(m.eval(z, model_completion=True)) for n, z in syms.items()}
                    import math as _m

                    kv = num(m, k) if k is not None else None
                    case = {"op": spec.name, "cfg": cfg, "witness": w, "k": None if kv is None or _m.isnan(kv) else kv, "b": {n: v for n, v in ((n, num(m, b)) for n, b in bs.items()) if not _m.isnan(v)}}
                    cases.append(case)
                    break
            except Exception as e:
                errors.append(f"{spec.name}{cfg}: {type(e).__name__}: {e}"[:200])
    with tempfile.NamedTemporaryFile("w", suffix=".json", delete=False, dir=os.environ.get("PYVC_TMP")) as f:
        json.dump(cases, f)
        path = f.name
    try:
        r = subprocess.run(["/venv/bin/python", os.path.join(ROOT, "replay", "crosscheck_consumer.py"), path], capture_output=True, text=True, timeout=3600)
        out = json.loads(r.stdout.strip().splitlines()[-1])
    except Exception as e:
        out = {"compared": 0, "mismatches": [f"consumer failed: {e}: {(r.stdout + r.stderr)[-300:] if 'r' in dir() else ''}"]}
    finally:
        os.unlink(path)
    ok = not out["mismatches"] and not errors and out["compared"] > 0
    res = {
        "name": "engine-cross-check",
        "kind": "engine validation (symbolic k, b_i evaluated on a concrete model vs values measured on the real code under CPython); NOT property evidence",
        "ok": ok,
        "obligations": 0,
        "discharged": 0,
        "evaluations": out["compared"],
        "detail": f"{len(cases)} (op, configuration) instances, {out['compared']} scalars compared, max relative deviation {out.get('max_rel', 0):.2e}",
        "wall_s": round(time.time() - t0, 1),
    }
    if not ok:
        res["error"] = f"VC generator disagrees with CPython/torch: {(out['mismatches'] + errors)[:4]}"
    print(json.dumps(res))
    return 0


if __name__ == "__main__":
    sys.exit(main())
