"""Per-property metadata for the checker: level, assumptions, trusted base, components."""
from __future__ import annotations

from typing import Any, Dict

from . import components as comp

EXTRACTION_DROPS = [
    "docstrings, type annotations and `# type:` comments",
    "decorators are recorded but not executed (docstring_from/inherit_docstring are given the separately verified contract 'returns _validate(f, unsupported_args)'; format_docstring/dataclass/staticmethod/property by their Python meaning)",
    "logger.* calls are skipped (assumed effect-free)",
    "f-strings become an opaque string (only used in messages)",
    "generator expressions are evaluated eagerly; default-argument expressions are evaluated at call time",
    "Python float = real line, int = Z (A1) except in the bit-precise mode used for formats.py",
]

A1 = "A1: machine arithmetic in scalar scale computations treated as mathematical (float = R, int = Z); the bf16/f16 cast of the saved backward scale is not modelled"
A2 = "A2: torch ops are deterministic uninterpreted functions of their normalised arguments with the shape/dtype rules, algebraic identities and linear VJPs listed in pyvc/torchmodel.py (assumed; validated at run time, bounded, by trusted/validate_torch.py); Function.apply gives forward's value and backward's VJP; autograd sums consumer gradients"
A7 = "A7: the self-written VC generator (pyvc) and the SMT solvers are trusted; mitigated by canaries that must fail, a CPython cross-check of scalar encodings, and second solvers on unknown"

PROPS: Dict[str, Dict[str, Any]] = {}


def _p(pid: str, **kw: Any) -> None:
    kw.setdefault("components", [])
    PROPS[pid] = kw


SMT = ["pyvc (self-written AST->SMT VC generator over the real source)", "z3 5.1.0 (Python API)", "cvc5 1.0.3 / z3 4.8.12 (fallback on unknown)"]

_p(
    "C01",
    level="proof",
    trusted_base=SMT + ["pyvc/torchmodel.py: assumed contracts of torch ops", "contracts/summaries.py: callee contracts, each verified against its body in the same run"],
    assumptions=[A1, A2, A7, "precondition: all floating tensor arguments of one call share a dtype; mult > 0; 0 <= p < 1; dims >= 1; documented constraint names; normalized_shape rank enumerated 1..3; conv1d input 2-D or 3-D"],
    components=[comp.validators(["algebra", "shapes"]), comp.script("engine-cross-check", "engine validation", ["{ROOT}/checker/crosscheck.py"], python="python3-vt")],
    explanation="For each of the 16 public ops and each discrete configuration (constraint name, bias/weight presence, reduction, rank of logits / normalized_shape) the real function body is executed symbolically for ALL shapes (symbolic rank and dims), ALL hyper-parameter values and ALL tensor values; the postcondition result == k*reference with k>0, k data-independent (k==1 for losses/norms/embedding), equal shape and dtype, and the frame condition are discharged per path by z3.",
    uncovered=["dtype clause is proved at the level of torch's promotion rules (A2), not of rounding", "argument guard: see C01:docs._validate obligations (call shapes enumerated exhaustively)"],
)
_p(
    "C02",
    level="proof",
    trusted_base=SMT + ["pyvc/tensor.py symbolic reverse mode; VJPs of torch ops uninterpreted and linear in g (A2)"],
    assumptions=[A1, A2, A7],
    components=[comp.validators(["algebra"]), comp.script("engine-cross-check", "engine validation", ["{ROOT}/checker/crosscheck.py"], python="python3-vt")],
    explanation="Symbolic reverse-mode over the same symbolic run as C01: for every differentiable input grad == b*reference gradient with b>0 and b free of tensor values and of the upstream gradient; _ScaledGrad.forward/backward are executed from source and scale_fwd/scale_bwd proved equal to their contracts for every real factor (zero and negative included).",
)
_p(
    "C03",
    level="proof",
    trusted_base=SMT + ["term-count spec functions of the reference torch ops (trusted/validate_torch.py measures them on all-ones tensors)"],
    assumptions=[A1, A2, A7, "term counts are facts about torch ops (assumed contracts), validated by measurement on randomised shapes every run"],
    components=[comp.validators(["terms", "shapes"]), comp.script("engine-cross-check", "engine validation", ["{ROOT}/checker/crosscheck.py"], python="python3-vt")],
    explanation="With constraint None and default scale powers: scale^2 * terms == 1 for the output and every gradient of linear, matmul, conv1d, add, embedding, dropout, mse_loss, layer_norm/rms_norm gains; nonlinear real arithmetic over symbolic shapes.",
)
_p(
    "C05",
    level="proof",
    trusted_base=SMT + ["Lean 4.33 + Mathlib for the n-ary mean inequalities (lean/Means.lean)"],
    assumptions=[A1, A2, A7, "A8: identity of the z3 spec functions (nth root of product, n/sum of reciprocals, sum/n) and their Lean twins is by inspection"],
    components=[comp.lean(["amean_perm", "gmean_perm", "hmean_perm", "gmean_le_amean", "hmean_le_gmean", "hmean_le_amean", "means_between", "gmean_pow", "min_le_hmean", "amean_le_max"])],
    explanation="apply_constraint and the rule functions are proved equal to their contracts for every name bound in the module namespace plus a fresh name; each op taking a constraint is run with the constraint and with None in the same symbolic state and k == b_i == rule(k_None, b_None...) is discharged; mean inequalities for all n in Lean, n<=2 second opinion in z3.",
)

NOT_APPLICABLE: Dict[str, str] = {
    "C20": "relates two external execution engines (eager vs TorchDynamo/AOT autograd/Inductor) on the same repo code; the only repo code involved (the 3-way branch in _ScaledGrad.forward) is covered under C02; engine equivalence cannot be expressed as a contract on a repo function. See DESIGN.md §C20.",
}

_p(
    "C06",
    level="proof",
    trusted_base=SMT + ["Lean 4.33 + Mathlib: stack_sum_sq (induction over stacking depth)"],
    assumptions=[A1, A2, A7, "the branch function f is an arbitrary uninterpreted function with an uninterpreted VJP linear in the upstream gradient; stacking to any depth follows by instantiating f with another layer (compositional contract) and the inductive Lean lemma stack_sum_sq"],
    components=[comp.lean(["stack_sum_sq"])],
    explanation="residual_split, residual_add and residual_apply are executed symbolically with an uninterpreted branch f and tau>0: value == (x + tau f(x))/sqrt(1+tau^2) (weights as exact algebraic characterisations), squares of the weights sum to 1, gradient at x == g/sqrt(1+tau^2) + tau/sqrt(1+tau^2) vjp_f(x;g), gradient entering f's output == g, residual_apply == split/f/add through the two callee contracts.",
)
_p(
    "C10",
    level="proof",
    trusted_base=SMT,
    assumptions=[A1, A7, "float and 0-dim tensor learning rates are compared as reals: item(c*t) == c*item(t) (assumed linearity; 'up to tensor precision' is outside real arithmetic)", "torch.optim base constructors are stubs recording their arguments"],
    explanation="lr_scale_func_adam / lr_scale_func_sgd / lr_scale_for_depth / _get_fan_in are executed for every tag, rank 1-3 (all dims symbolic), rank>=4, depth None or any int>=1 and compared with the u-muP table of the statement (squared, exact); scaled_parameters: one generic iteration of both loops from an arbitrary earlier state (loop invariant), lr == source lr * factor for every combination of bare tensor / group, float / tensor / missing lr, tagged / untagged, allowed / not; SGD/Adam/AdamW constructors forward exactly the right rule and arguments.",
)
_p(
    "C11",
    level="proof",
    trusted_base=SMT + ["trusted/validate_torch.py: SGD / AdamW zero-gradient step formula (assumed, validated at run time)"],
    assumptions=[A1, A7, "extra group options are represented by two opaque-valued keys (the code compares keys only with the three literal names)", "optimizer step formulas p <- p(1 - lr*wd) for zero gradients are assumed (A6) and validated numerically"],
    components=[comp.validators(["optim"])],
    explanation="Loop-invariant proof of scaled_parameters (initiation: result == [] at loop entry; preservation: an arbitrary iteration of the outer and of the inner loop appends exactly one group mk(entry, param) after the earlier ones; use: the returned list): one parameter per group, same parameter object, every other option carried over by identity, caller's dict / list / lr tensor never written, scaled tensor lr is a fresh tensor, lr*wd == requested decay (independent) or wd passed through.",
)

BITP = ["pyvc bit-precise mode (pyvc/bitmodel.py): assumed FP/BV semantics of .to, clip, /=, *=, view, +, &, ~, //, <<, randint", "z3 5.1.0 theories FP + BV (cvc5 fallback)"]
_p(
    "C13",
    level="proof",
    technique="contract-based deductive verification, bit-precise: FPFormat.quantise executed from the real AST into SMT FP/BV terms; obligations discharged by z3 for all 2^32 float32 inputs per format",
    trusted_base=["pyvc (self-written AST->SMT VC generator over the real source)"] + BITP + ["bitmodel.repr_pred: value-set specification on float32 patterns (cross-checked against an exact Fraction enumeration by trusted/validate_formats.py)"],
    assumptions=[A7, "torch primitive semantics as listed in pyvc/bitmodel.py (assumed; validated at run time, bounded)", "inputs: every non-NaN float32 bit pattern (|x| < 2^126 when E = 8); formats enumerated: quick 6 formats, thorough all 168 (E 2..8, M 0..23)", "float64 / bfloat16 / float16 inputs: proved equal to the float32 path composed with the conversions (element model), for rank 1 and rank 2 shapes with symbolic dims; 'idempotent' is the consequence of 'representable' and 'representable input unchanged' (both for all inputs)"],
    components=[comp.validators(["bits"]), comp.script("engine-cross-check-bits", "engine validation", ["{ROOT}/checker/crosscheck_bits.py"], python="python3-vt")],
    explanation="For each format the result element of the real quantise body is an SMT term over the input's float32 pattern; representable, sign, saturation, neighbour (no representable value strictly between), nearest (exact 280-bit scaled-integer distances; slack only below 2^emin), fix-point, odd symmetry, monotonicity (two variables), dtype/shape/frame and the three range properties are discharged by z3 for ALL inputs.",
)

_p(
    "C14",
    level="proof",
    technique="contract-based deductive verification, bit-precise: the random draw is a universally quantified bit-vector; probabilities are COUNTED from a proved threshold form",
    trusted_base=["pyvc (self-written AST->SMT VC generator over the real source)"] + BITP,
    assumptions=[A7, "torch.randint(0, 2^s, shape) yields per-element independent uniform integers (assumed); the check proves it is called once with size == x.shape and range [0, 2^s)", "inputs: every finite float32 bit pattern and every draw R in [0, 2^srbits); formats E 2..7, M 0..10, srbits 1..12 and default: quick 10 triples, thorough all 858"],
    components=[comp.validators(["bits"]), comp.script("engine-cross-check-bits", "engine validation", ["{ROOT}/checker/crosscheck_bits.py"], python="python3-vt")],
    explanation="For all x and all R: the result is representable, one of the two neighbours of the clamped input, never moves a representable input; it rounds away from zero exactly when R >= 2^s - rnd(d/2^(D-s)) where d/2^D is the fractional position between the neighbours (pattern-space lemmas about the value set, normal range; RNE-scaled position with error <= 2^-(D+1) below 2^emin); counting lemmas (LIA) turn the threshold into P(away) = rnd(d/2^(D-s))/2^s, exact when s = D and within 2^-(s+1) otherwise.",
)

NN = ["pyvc/nnmodel.py: assumed contracts of torch.nn base constructors, nn.Parameter, nn.init (validated at run time, bounded)"]
_p(
    "C08",
    level="proof",
    technique="contract-based deductive verification: symbolic object execution of __init__/forward of every module class from the real AST; delegation/option/tag obligations are identities over symbolic constructor arguments",
    trusted_base=SMT + NN + ["recording contracts for unit_scaling.functional ops (their own contracts: C01/C02/C05)", "contract of unit_scaling.parameter.Parameter (verified against its body under C09)"],
    assumptions=[A7, "torch.nn base-class constructors set the attributes listed in pyvc/nnmodel.py and nn.Linear/_ConvNd.__init__ call the virtual reset_parameters (assumed, validated at run time)", "the clause 'matches the same-named torch.nn module up to the scalars of C01/C02' is the corollary module == U.fn (proved here), U.fn == k * F.fn (C01), nn.Module.forward == F.fn on its attributes (assumed)", "einops.rearrange is an uninterpreted re-indexing"],
    components=[comp.validators(["nn"])],
    # "each option is honoured in the forward AND backward computation ... matches torch.nn up to the
    # scalars of C01/C02": the functional contracts the modules delegate to are part of this property
    extra_jobs=lambda j: j.key.startswith("op:") and j.cfg.get("constraint", None) is None,
    extra_prefixes=["C01:", "C02:"],
    explanation="For every module class and every discrete configuration (bias on/off, padding mode, affine flags) with all other constructor arguments symbolic: forward is exactly one call of the corresponding unit_scaling.functional op whose every bound argument IS the module's own parameter / the constructor's option (or construction raises ValueError for a non-default unsupported option); fresh modules hold exactly the expected parameters, each produced by unit_scaling.Parameter with the expected mup_type, depth None and initial state N(0,1) / zeros / ones; depth containers tag every parameter with len(self) and refuse untagged ones (loop invariant); composite modules route every option to the consuming call.",
)

_p(
    "C07",
    level="proof",
    trusted_base=SMT + ["Lean 4.33 + Mathlib: lean/Telescoping.lean (induction over depth)"] + NN,
    assumptions=[A1, A7, "'contribution' of a layer is defined through the C06 contract of residual_add (x_{i+1} = (x_i + tau_i f_i)/sqrt(1+tau_i^2)); the link between the z3 step facts (hypotheses hS0/hstep/htau of the Lean theorems) and the Lean statements is by inspection (A8)", "'mean layer contribution relative to the embedding' is read as sqrt((sum attn^2 + sum mlp^2)/2)/embedding == residual_mult, the reading of the function's docstring and of tests/core/test_functional.py"],
    components=[comp.lean(["S_pos", "one_add_tau_sq", "telescope", "S_eq_sum", "contrib2_eq", "emb2_eq", "sum_contrib", "sum_attn", "sum_mlp", "attn_mlp_ratio_sq", "mean_vs_embedding_sq"])],
    explanation="The real closure _tau(index, layers) is executed symbolically for ALL depths and both parities: tau>0 and tau^2*S(index) == a(index)^2 with S(i+1) == S(i)+a(i)^2, S(0) == layers/2 (z3, exact reals); Lean proves by induction that these step facts give squared contributions summing to 1, equal attention / equal MLP contributions, the requested attn:MLP ratio and multiplier, for every depth. TransformerStack.__init__ is executed with a symbolic number of layers and a generic index i: layer i gets rule(2i, 2*layers) and rule(2i+1, 2*layers), and TransformerLayer.forward uses the attention tau in the first split/add pair and the MLP tau in the second.",
)

_p(
    "C09",
    level="proof",
    technique="contract-based deductive verification: a representation invariant on unit_scaling.Parameter objects proved preserved by every repo function a history step dispatches to (induction over the history)",
    trusted_base=SMT + NN + ["assumed contracts of copy.deepcopy / pickle / torch.save dispatch, nn.Parameter.__deepcopy__, torch._utils._get_obj_state / _rebuild_parameter_with_state, Module.to/half/float/load_state_dict/requires_grad_ acting in place (validated at run time: group copy)"],
    assumptions=[A7, "copy.deepcopy(x) calls the INSTANCE attribute x.__deepcopy__(memo); pickle and torch.save call the instance attribute __reduce_ex__ and unpickling applies the returned callable to the returned arguments; deepcopy(module) deep-copies each parameter through its own __deepcopy__; dtype conversions, load_state_dict and requires_grad_ mutate the same parameter object (A3, validated)", "library transforms = one deepcopy(module) (apply_transform, C17) followed by re-homing of the same parameter objects"],
    components=[comp.validators(["copy"])],
    explanation="tagged_full(p) (tags present AND both instance hooks installed and bound to p itself) is proved to hold for Parameter(...), for the result of the deepcopy hook and for the result of the reduce_ex hook followed by the rebuild function, with identical tags, values, shape/dtype and requires_grad, the source left intact; since every history step is one of these (or acts in place), any history of any length preserves the tags, and the optimizer rules read only (mup_type, mup_scaling_depth, shape) (C10) so the learning-rate scale is unchanged.",
)

_p(
    "C12",
    level="proof",
    technique="contract-based deductive verification: a lemma over the symbolic results of three real code paths (layer forward, module tagging, Adam lr rule)",
    trusted_base=SMT + NN + ["assumed: Adam/AdamW first step with eps=0 is -lr*sign(grad) (validated at run time: group optim)"],
    assumptions=[A1, A2, A7, "Adam first-step formula (A6); grad_W[j,i] = b*g_j*x_i with b>0 is C02; |x_i| = 1 and g_j != 0 as in the property; Conv1d with a single output position (input length == kernel size, no padding, stride 1)"],
    components=[comp.validators(["optim"])],
    explanation="The real module is constructed symbolically (fan_in, fan_out, kernel size symbolic), its real forward gives out_scale (ratio to the torch op), its weight's tag comes from the real __init__, the real lr_scale_func_adam gives the learning-rate factor for that tag / shape / depth; z3 discharges out_scale * lr_factor * fan == depth^-1/2 for Linear, LinearReadout and Conv1d, default constraint and None, with and without depth: a consistent-looking change of any one of the three parts breaks the lemma.",
)

_p(
    "C04",
    level="other",
    technique="contract-based deductive verification of the closed-form clauses (z3); the statistical bands only by bounded run-time contracts on the real functions (Gauss-Hermite quadrature for the elementwise ops, fixed-seed Monte-Carlo with 2^20 elements for softmax / attention / cross-entropy / norms), labelled bounded",
    trusted_base=SMT + ["bounded/c04_quadrature.py, bounded/c04_montecarlo.py (bounded stand-ins, not proof)"],
    assumptions=[A1, A2, A7, "d CE_sum / d logits = softmax - onehot (assumed torch fact) for the uniform-logits clause"],
    components=[comp.script("c04-quadrature", "BOUNDED stand-in", ["{ROOT}/bounded/c04_quadrature.py"]), comp.script("c04-montecarlo", "BOUNDED stand-in", ["{ROOT}/bounded/c04_montecarlo.py"])],
    bounded=["gelu (exact and tanh), silu, silu_glu: output std and input-gradient RMS within 7% of 1 for mult in [1/16,16] -- run-time contract on the real functions by 120-node Gauss-Hermite quadrature on 81 (quick) / 1025 (thorough) multipliers incl. the end points; NOT counted as proved", "softmax (width 16..4096, mult 1/8..4: output and gradient RMS in [0.55,1.35]), attention (seq 16..1024, head 16..128, mult 1/4..16, causal or not, dropout 0 / 0.3: output and value-gradient RMS in [0.7,1.3]), cross-entropy (vocab 2..1024 / 8192, mult 1/4..4 resp. 1/16..4: logit-gradient RMS in [0.95,1.45], exactly 1 for uniform logits), layer_norm / rms_norm (width 16..4096: within 10% of 1): fixed-seed Monte-Carlo with 2^20 elements per configuration on the grid of bounded/c04_montecarlo.py (192 quick / ~1000 thorough evaluations); NOT counted as proved"],
    uncovered=["the statistical bands between grid points: expectations of transcendental functions of high-dimensional Gaussians have no closed form a contract could state; they are evaluated, as the property prescribes, on a grid (range end points + geometric interior points)"],
    explanation="PROVED (z3, all mult > 0, all widths): logarithmic_interpolation(alpha, lo, hi) lies between lo and hi for alpha in [0,1] and equals them at the end points; every empirical scale of gelu / silu / silu_glu / softmax (output and input-gradient) lies between its flat and its sharp limit; the cross-entropy logit-gradient scale is V/sqrt(V-1) and gives RMS exactly 1 for uniform logits for every V >= 2; norm gain/bias gradient scales are one-term-per-row (shared with C03). BOUNDED: the 7% bands of the elementwise ops (quadrature). NOT COVERED: the Monte-Carlo bands.",
)

FX = ["pyvc/fxmodel.py: assumed contracts of the torch.fx graph API (validated at run time: group fx)"]
_p(
    "C15",
    level="other",
    technique="contract-based deductive verification at function level (straight-through estimators, wrappers, format round trip, argument splice over every call shape, one generic iteration of the backend loop, lossless identity bit-precise); the whole-graph clause by a bounded stand-in; TorchDynamo's graph capture assumed",
    trusted_base=SMT + BITP + FX + ["contract of FPFormat.quantise in the value algebra: an uninterpreted function of the tensor and of the four format fields (bit-level meaning: C13/C14)", "bounded/c15_graphs.py (bounded stand-in, not proof)"],
    assumptions=[A2, A7, "A5: TorchDynamo presents the module's operations as call_function nodes with the targets of the replacement map and builds a callable equal to the graph (trusted, not validated)", "Function.apply contract (A2) for the local autograd.Function classes of quantise_fwd / quantise_bwd"],
    components=[comp.validators(["fx", "bits"]), comp.script("c15-fx-graphs", "BOUNDED stand-in", ["{ROOT}/bounded/c15_graphs.py"])],
    bounded=["whole-graph rewrite: real backend on all hand-built fx programs of <= 2 (quick) / <= 4 (thorough, sampled 400) call nodes over {F.linear, U.linear, F.sdpa, U.sdpa, relu, add} x {E4M3/E5M2 nearest, lossless E8M23}, compared bit for bit (outputs and gradients) with hand-inserted quantise_fwd/quantise_bwd", "the real TorchDynamo path: simulate_format on three small modules whose root is a container / a bare nn.Linear / an nn.Sequential x the same two format pairs, outputs and all gradients bit for bit against the hand-inserted reference"],
    uncovered=["the real TorchDynamo path (graph capture, guards, caching) is assumed beyond the bounded runs; the preconditions of that assumption the repo code is responsible for (user-code forward on root and children, cache reset before each compilation) are obligations of apply_transform"],
    explanation="PROVED: quantise_fwd == (value Q_self(x), gradient unchanged) and quantise_bwd == (value unchanged, gradient Q_self(g)) from the real local autograd.Function classes; tuple_to_format(format_to_tuple(f)) == f on all four fields; each of the four wrappers == OP on the forward-quantised tensor operands (bias / mask / scalars untouched) with the output gradient quantised to bwd, using exactly the caller's formats; the argument splice binds every original parameter to its original value and the two format parameters to the caller's formats for every enumerated call shape (positional prefix of any length, the rest by keyword or omitted: 188 shapes over the four targets; the failing shapes of known finding F4b were repaired in 658c13d); the backend replaces a matching node in place (order, positional and keyword users) and leaves every other node untouched (one generic iteration); simulate_fp8 is the E4M3 / E5M2 instance; a lossless format is the identity bit for bit for all |x| < 2^126 and every random draw. BOUNDED: the whole-graph comparison.",
)

_p(
    "C16",
    level="other",
    technique="contract-based deductive verification of the graph passes of transforms/_unit_scale.py (per-node contracts on one generic node of an arbitrary graph, under assumed torch.fx contracts) against the User-Guide recipe written as a spec function; the composition of the passes by BOUNDED exhaustive symbolic execution of the real source over every graph of stated families; the real torch.fx / TorchDynamo path by a bounded stand-in",
    trusted_base=SMT + FX + ["contracts/refs_c16.py: the recipe (spec function, written from the property statement) and the canonical form", "assumed: TorchDynamo hands the backend an fx graph that faithfully represents module.forward; fx.GraphModule executes a graph faithfully (A5)", "assumed contract of functional._gen_torch_function_map (module-level code over dir(torch)/dir(F)): the 14-entry name-based table -- validated against the real object on every run", "bounded/c16_realgraphs.py (bounded stand-in, not proof)"],
    assumptions=[A7, "A4: torch.fx contracts as listed in pyvc/fxmodel.py -- validated at run time (group fx) and, jointly with the executor, by the real-fx sweep of bounded/c16_realgraphs.py", "inspect.signature(f).parameters is the ordered parameter-name mapping; it raises for C builtins; types.BuiltinFunctionType classification of the vocabulary (validated)", "precondition of the residual clauses: well-nested blocks (the skip tensor of a residual addition is read only by that addition and its branch) -- the property's quantifier; other graphs are counted outside-precondition, not decided", "same function := same canonical expression tree of the output (bound arguments by parameter name; node names, positional-vs-keyword passing and order immaterial) -- equal trees compute equal functions under the fx execution assumption; the converse is not needed"],
    components=[comp.validators(["fx"]), comp.script("c16-real-graphs", "BOUNDED stand-in", ["{ROOT}/bounded/c16_realgraphs.py"])],
    bounded=["composition of the passes: every graph built from <= 3 (quick) / <= 4 (thorough) ops over {gelu, softmax, tanh} x {add, matmul} with arbitrary wiring, <= 2 / <= 3 ops over {user fn, gelu, tensor+scalar, scalar+tensor, layer_norm} x {iadd, torch.add, add} with a user replacement map, chains of 0-2 / 0-3 well-nested residual blocks (branches mlp / softmax / attention / unmapped; skip = input / residual output / plain sum; either operand order; tails none / linear / plain add / add of two), 2 (quick) / 2-3 (thorough) parallel residual towers of 1-2 chained blocks each on own or shared inputs merged by mul / plain add / matmul, 38 generic-node classes (incl. the exact calls nn.Softmax / GELU / LayerNorm / Embedding / Dropout / SiLU / RMSNorm / CrossEntropyLoss / MSELoss emit) x {later residual add or not} x {earlier part ends in opaque op / plain sum / residual add}; module-level torch_map must be left unchanged by every run", "_add_dependency_meta: every DAG with <= 4 / <= 5 nodes and <= 3 inputs per node, arguments nested in tuples / kwargs lists, x {fresh, recalculate over stale metadata, valid memo on half the nodes}", "_is_self_attention: branches of depth <= 3 with the softmax-class op at every position / absent / only upstream of the skip / on a side input", "real torch.fx graphs of the same families + 5 modules end to end through TorchDynamo against hand conversions (outputs, input and parameter gradients, weight re-initialisation)"],
    uncovered=["graphs outside the families (larger, not well-nested, call_module nodes, kwargs-passed add operands)", "TorchDynamo's tracing itself (graph breaks, which python constructs become which nodes)"],
    explanation="DECIDED per node class (finite case analysis over every class of node the code distinguishes, in opaque surroundings; that the verdict carries over to arbitrary surroundings rests on the frame obligations and the locality argument of DESIGN.md 9.9, which is not machine-checked): _is_add(n) <=> call_function of a C builtin named add/iadd, pure; _unconstrain_node keeps the call well-formed however `constraint` was passed (positionally, by keyword, not at all), binds it to None iff the target is a Python function with such a parameter and the node a call_function, changes no other argument and no other node; each class of node is rewritten as the recipe prescribes (R1 user map first, then torch_map, same arguments; R2 residual split/add with tau 0.5 / 0.01, either operand order, iadd; R3 plain add -> U.add(..., constraint=None); R4 unconstrained iff no later residual add; R5 untouched) with everything else untouched, whatever the earlier part ends in (this is where the two defects F8/F9 lived). PROVED FOR ALL DAGS (pyvc/setvc.py, inductive): the memoised recursion `recurse` of _add_dependency_meta returns and records exactly the ancestors, under a heap model of Python sets (aliasing visible), a recursion contract with a decreasing rank and an inductive loop invariant. BOUNDED: the outer loops of _add_dependency_meta and nested argument shapes (dependency metadata == ancestors on every DAG with <= 4 / <= 5 nodes); _is_self_attention <=> the branch contains softmax/attention; the composition of the passes equals the recipe on every graph of the families; real fx + Dynamo.",
)

_p(
    "C19",
    level="other",
    technique="contract-based deductive verification of _prune and of the three helpers on one generic node of an arbitrary graph, under assumed fx contracts; whole-graph clauses on real tracked graphs by a bounded stand-in",
    trusted_base=SMT + FX + ["bounded/c19_tracked.py (bounded stand-in, not proof)"],
    assumptions=[A7, "A4: torch.fx contracts as listed in pyvc/fxmodel.py (deep `users`, erase_node refusing nodes with users, live iteration of graph.nodes, deepcopy of a Graph) -- validated at run time, group fx", "the generic node stands between an arbitrary earlier and later part of the graph; argument nestings enumerated: positional, keyword, both, list, tuple in keyword, index tuple, slice bound, dict value"],
    components=[comp.validators(["fx"]), comp.script("c19-tracked-graphs", "BOUNDED stand-in", ["{ROOT}/bounded/c19_tracked.py"])],
    bounded=["graphs produced by the real track_scales (TorchDynamo) for 3 small modules (cat/stack, keyword tensor arguments, integer index tensors, views/negations, multi-output), rtol in {2^-16} (quick) / {2^-16, 2^-8, 2^-2} (thorough): no exception, lint, sub-sequence, exact removed set for the non-float helper, no invented paths, input graph unchanged"],
    explanation="PROVED (under the fx contracts): _prune never raises, removes the node and rewrites every user's arguments to the deep substitution node -> replacement for every argument nesting (also for the output node); prune_non_float_tensors / prune_same_scale_tensors work on a deep copy (input graph unchanged), remove a node iff the documented condition holds (non-float; exactly one float-tensor input whose mean |x| is within rtol forward and, when both recorded, backward -- math.isclose semantics exact), bypass it to its single float input wherever it appeared in the consumer's arguments, keep the order of the survivors and add nothing, and return a graph that lints; prune_selected_nodes cuts the edge (None) in place. BOUNDED: real tracked graphs.",
)

_p(
    "C18",
    level="other",
    technique="contract-based deductive verification of the tracking autograd functions, Metrics.from_tensor, both run_node overrides and the input-requires-grad wrapper; end-to-end behaviour through TorchDynamo / fx.Interpreter by a bounded stand-in",
    trusted_base=SMT + FX + ["assumed: fx.Interpreter executes the traced graph faithfully and stores what run_node returns for all consumers; autograd delivers to a Function's backward the gradient summed over all consumers (A2, A5)", "bounded/c18_tracking.py (bounded stand-in, not proof)"],
    assumptions=[A2, A7, "torch reductions (abs, mean, std, max, min, item) are uninterpreted functions: 'the true statistics' means term equality with mean|x|, |mean x|, std, max|x|, min|x|, numel", "autograd tolerates extra trailing None gradients returned by a Function's backward (validated)"],
    components=[comp.validators(["algebra", "fx"]), comp.script("c18-tracking-e2e", "BOUNDED stand-in", ["{ROOT}/bounded/c18_tracking.py"])],
    bounded=["real track_scales vs the unwrapped module on 3 small modules (fan-out, integer intermediates, tensors with zeros): outputs and gradients bit-identical; input forward/backward metrics equal statistics recomputed from the actual tensor / total gradient"],
    uncovered=["analyse_module's tracer (utils.py lines 183-324: source rewriting, autowrap) is not under contract"],
    explanation="PROVED: ScaleTrackingAutogradFunction and ScaleTracker return the tracked tensor's value unchanged (clone / alias) and pass the gradient through unchanged; the only side effect is node_meta['metrics'] = Metrics(t) (forward) and .set_bwd(g) (backward) resp. the two std fields; Metrics.from_tensor's six fields are mean|x|, |mean x|, std, max|x|, min|x|, numel as terms over the torch reductions; bwd stays None until backward runs; both run_node overrides return the tracked tensor (so all consumers use it and its backward receives their summed gradient), never instrument non-float values and give them no metrics; _make_input_tensors_require_grad forwards every argument unchanged and only calls requires_grad_() on float tensors. BOUNDED: end-to-end bit-identity and metric recomputation.",
)

_p(
    "C17",
    level="other",
    technique="contract-based deductive verification of frame / aliasing / ordering contracts of apply_transform, _compose_backends (loop invariant), _order_backends (all lists of the quantifier, exhaustive), unit_scale and torch_nn_modules_to_user_modules under assumed deepcopy and TorchDynamo contracts; end-to-end chains by a bounded stand-in",
    trusted_base=SMT + ["assumed contract of copy.deepcopy on modules (deep; functions / closures atomic; bound methods re-bound to the copy; parameter storage cloned: C09 + validators group copy)", "A5: TorchDynamo is a deterministic function of (module.forward at call time, inputs, backend list) -- trusted, not validated", "bounded/c17_chains.py (bounded stand-in, not proof)"],
    assumptions=[A7, "_order_backends: every list over {unit-scaling, quantisation, two other function backends} of length <= 4 (quick) / <= 6 (thorough) with at most one unit-scaling and one quantisation backend is executed (exhaustive for the property's quantifier: chains use each at most once)", "track_scales / compile come last (documented): their backend objects are not functions and are outside _order_backends' domain"],
    components=[comp.validators(["copy"]), comp.script("c17-chains", "BOUNDED stand-in", ["{ROOT}/bounded/c17_chains.py"])],
    bounded=["real chains U, Q, UQ, QU (nearest-rounding formats) on 1 (quick) / 2 (thorough) small modules through TorchDynamo: original state_dict / outputs / gradients unchanged, no shared storage, repeat-call equality, backend order, each transform once, both orders compute the same function given equal parameters"],
    uncovered=["what TorchDynamo does with the patched forward (graph breaks, guard failures, cache resets) is not decided"],
    explanation="PROVED (under the deepcopy / Dynamo contracts): apply_transform returns a new module sharing no object or storage with its argument and never writes to anything reachable from the argument; result.backends == earlier backends ++ [new]; base_forward is the ORIGINAL forward re-bound to the copy (an earlier wrapper is not wrapped again: each earlier transform exactly once); the first call re-traces (no stale dynamo_forward of the source is used), later calls reuse it, the wrapper is restored after each call; the composite backend closes over the result's OWN backend list so the in-place reordering by unit_scale is effective; _compose_backends applies the backends in list order, each once (loop invariant); _order_backends yields a permutation with unit scaling before quantisation, other backends' relative order unchanged, identity if already ordered; unit_scale reorders the result's list and initialises the result only; torch_nn_modules_to_user_modules keeps the same parameter objects. BOUNDED: real chains.",
)
