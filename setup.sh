#!/bin/sh
# Offline setup: nothing to download.  Builds the Lean lemmas (if present) and runs the
# engine self-test.
cd "$(dirname "$0")" || exit 1
mkdir -p out evidence
if [ -d lean ] && [ -f lean/build.sh ]; then sh lean/build.sh || exit 1; fi
python3-vt -c "import z3, sys; sys.path.insert(0,'.'); import pyvc.interp, pyvc.torchmodel; print('pyvc ok, z3', z3.get_version_string())" || exit 1
