#!/venv/bin/python
"""Run-time validation of the ASSUMED contracts on dependencies (torch, copy, pickle, fx).

This is *assumption validation* (bounded, randomised), not proof of any property: each
group executes the assumed fact against the installed libraries.  A failure means an
assumption of the proofs is broken (checker exit 3), never a property violation.

usage: validate_torch.py --groups algebra,shapes,terms,nn,optim,bits,copy,fx [--seed N] [--n N]
prints one JSON object: {group: {"checks": n, "failed": [...]}}
"""
from __future__ import annotations

import argparse
import copy
import io
import json
import math
import pickle
import random
import sys

import torch
import torch.nn as nn
import torch.nn.functional as F


def close(a, b, tol=1e-9):
    return torch.allclose(a.double(), b.double(), rtol=tol, atol=tol)


def g_algebra(rng, n):
    fails, checks = [], 0

    def chk(name, ok):
        nonlocal checks
        checks += 1
        if not ok:
            fails.append(name)

    for _ in range(n):
        sh = [rng.randint(1, 5) for _ in range(rng.randint(1, 3))]
        x = torch.randn(sh, dtype=torch.float64, requires_grad=True)
        m = rng.uniform(0.1, 4)
        chk("silu(y) == y*sigmoid(y)", close(F.silu(x * m), (x * m) * torch.sigmoid(x * m)))
        t = torch.randn(sh, dtype=torch.float64)
        chk("mse mean == sum/numel", close(F.mse_loss(x, t), F.mse_loss(x, t, reduction="sum") / x.numel()))
        chk("dropout(training=False) is identity", torch.equal(F.dropout(x, 0.3, False), x))
        # VJP linearity
        for op in (lambda v: F.gelu(v), lambda v: F.softmax(v, -1), lambda v: F.layer_norm(v, v.shape[-1:])):
            y = op(x)
            g1, g2 = torch.randn_like(y), torch.randn_like(y)
            c = rng.uniform(-2, 2)
            a = torch.autograd.grad(y, x, c * g1 + g2, retain_graph=True)[0]
            b = c * torch.autograd.grad(y, x, g1, retain_graph=True)[0] + torch.autograd.grad(y, x, g2, retain_graph=True)[0]
            chk("vjp linear in g", close(a, b, 1e-8))
        # dtype rules
        for dt in (torch.float64, torch.float32, torch.bfloat16, torch.float16):
            z = torch.ones(3, dtype=dt)
            chk("python scalar keeps tensor dtype", (z * 0.37).dtype == dt and (0.5 * z).dtype == dt and (z / 3).dtype == dt)
            chk("0-dim tensor does not promote", (z * torch.tensor(0.5, dtype=torch.float64)).dtype == dt if dt != torch.float64 else True)
        # cross entropy mean == sum / n_valid
        B, V = rng.randint(2, 6), rng.randint(2, 7)
        logits = torch.randn(B, V, dtype=torch.float64)
        tgt = torch.randint(0, V, (B,))
        ii = rng.choice([-100, 0, 1])
        k = rng.randint(0, B - 1)
        tgt[:k] = ii
        nv = int((tgt != ii).sum())
        if nv > 0:
            chk("CE mean == CE sum / n_valid", close(F.cross_entropy(logits, tgt, ignore_index=ii), F.cross_entropy(logits, tgt, ignore_index=ii, reduction="sum") / nv))
            chk("1 <= n_valid <= batch", 1 <= nv <= B)
        # rms_norm identity
        ns = sh[-1:]
        w = torch.randn(ns, dtype=torch.float64)
        eps = rng.uniform(0, 1e-3)
        ref = F.rms_norm(x, ns, w, eps)
        mine = x / (x.float().pow(2).mean((-1,), keepdim=True) + eps).sqrt().to(x.dtype) * w
        chk("rms_norm identity", close(ref, mine, 1e-5))
        # item linearity for 0-dim tensors
        s = torch.tensor(rng.uniform(0.1, 2))
        c = rng.uniform(0.1, 3)
        chk("item(c*t) == c*item(t)", abs(float(s * c) - c * float(s)) < 1e-6)
        # embedding max_norm renormalises its weight argument in place
        wt = torch.randn(5, 3) * 10
        w0 = wt.clone()
        F.embedding(torch.tensor([1, 2]), wt, max_norm=1.0)
        chk("embedding(max_norm) writes its weight argument", not torch.equal(wt, w0))
    return checks, fails


def g_shapes(rng, n):
    fails, checks = [], 0
    for _ in range(n):
        b = [rng.randint(1, 4) for _ in range(rng.randint(0, 3))]
        fi, fo = rng.randint(1, 6), rng.randint(1, 6)
        checks += 1
        if tuple(F.linear(torch.zeros(b + [fi]), torch.zeros(fo, fi)).shape) != tuple(b + [fo]):
            fails.append("F.linear shape")
        m, k, q = rng.randint(1, 5), rng.randint(1, 5), rng.randint(1, 5)
        checks += 1
        if tuple(torch.matmul(torch.zeros(b + [m, k]), torch.zeros(b + [k, q])).shape) != tuple(b + [m, q]):
            fails.append("matmul shape")
        g = rng.randint(1, 3)
        cg, og, K = rng.randint(1, 3), rng.randint(1, 3), rng.randint(1, 4)
        st, pad, dil = rng.randint(1, 3), rng.randint(0, 3), rng.randint(1, 3)
        L = rng.randint(1, 12)
        out_len = (L + 2 * pad - dil * (K - 1) - 1) // st + 1
        if out_len >= 1:
            for lead in ([], [rng.randint(1, 3)]):
                checks += 1
                y = F.conv1d(torch.zeros(lead + [cg * g, L]), torch.zeros(og * g, cg, K), None, st, pad, dil, g)
                if tuple(y.shape) != tuple(lead + [og * g, out_len]):
                    fails.append(f"conv1d shape {tuple(y.shape)}")
        s1 = [rng.choice([1, rng.randint(1, 4)]) for _ in range(rng.randint(0, 3))]
        s2 = [rng.choice([1, d]) for d in s1[-rng.randint(0, len(s1)):]] if s1 else []
        try:
            bs = torch.broadcast_shapes(tuple(s1), tuple(s2))
            N = math.prod(bs)
            checks += 1
            if N % max(1, math.prod(s1)) or N % max(1, math.prod(s2)):
                fails.append("broadcast numel multiple")
        except RuntimeError:
            pass
    return checks, fails


def g_terms(rng, n):
    """term-count spec functions of contracts/jobs_functional.py, MEASURED on all-ones tensors"""
    fails, checks = [], 0
    for _ in range(n):
        b = [rng.randint(1, 4) for _ in range(rng.randint(0, 3))]
        fi, fo = rng.randint(1, 6), rng.randint(1, 6)
        x = torch.ones(b + [fi], dtype=torch.float64, requires_grad=True)
        w = torch.ones(fo, fi, dtype=torch.float64, requires_grad=True)
        bias = torch.zeros(fo, dtype=torch.float64, requires_grad=True)
        y = F.linear(x, w, bias)
        gx, gw, gb = torch.autograd.grad(y, [x, w, bias], torch.ones_like(y))
        batch = x.numel() // fi
        checks += 4
        if float(y.max()) != fi:
            fails.append("linear out terms")
        if float(gx.max()) != fo:
            fails.append("linear grad_input terms")
        if float(gw.max()) != batch or float(gb.max()) != batch:
            fails.append("linear grad_weight/bias terms")
        m, k, q = rng.randint(1, 5), rng.randint(1, 5), rng.randint(1, 5)
        l = torch.ones(b + [m, k], dtype=torch.float64, requires_grad=True)
        r = torch.ones(b + [k, q], dtype=torch.float64, requires_grad=True)
        y = torch.matmul(l, r)
        gl, gr = torch.autograd.grad(y, [l, r], torch.ones_like(y))
        checks += 3
        if float(y.max()) != k or float(gl.max()) != q or float(gr.max()) != m:
            fails.append("matmul terms")
        # conv1d (no padding): out (C_in/groups)*K ; weight/bias grads L_out*batch ; input grad mean (C_out/groups)*K/stride at interior
        g = rng.randint(1, 2)
        cg, og, K = rng.randint(1, 3), rng.randint(1, 3), rng.randint(1, 3)
        L = rng.randint(K, 10)
        B = rng.randint(1, 3)
        xi = torch.ones(B, cg * g, L, dtype=torch.float64, requires_grad=True)
        wi = torch.ones(og * g, cg, K, dtype=torch.float64, requires_grad=True)
        bi = torch.zeros(og * g, dtype=torch.float64, requires_grad=True)
        y = F.conv1d(xi, wi, bi, 1, 0, 1, g)
        gxi, gwi, gbi = torch.autograd.grad(y, [xi, wi, bi], torch.ones_like(y))
        checks += 3
        if float(y.max()) != cg * K:
            fails.append("conv1d out terms")
        if float(gwi.max()) != y.shape[-1] * B or float(gbi.max()) != y.shape[-1] * B:
            fails.append("conv1d weight terms")
        if float(gxi.max()) != og * K and L >= 2 * K - 1:
            fails.append("conv1d input-grad interior terms")
        # add with broadcasting: grad to operand a sums numel(out)/numel(a) terms
        a = torch.ones([rng.randint(2, 4), 1], dtype=torch.float64, requires_grad=True)
        c = torch.ones([1, rng.randint(2, 4)], dtype=torch.float64, requires_grad=True)
        y = torch.add(a, c)
        ga, gc = torch.autograd.grad(y, [a, c], torch.ones_like(y))
        checks += 2
        if float(ga.max()) != y.numel() / a.numel() or float(gc.max()) != y.numel() / c.numel():
            fails.append("add broadcast terms")
        # norm gains: one term per normalised row
        rows, d = rng.randint(1, 5), rng.randint(2, 6)
        xn = torch.randn(rows, d, dtype=torch.float64)
        wn = torch.ones(d, dtype=torch.float64, requires_grad=True)
        bn = torch.zeros(d, dtype=torch.float64, requires_grad=True)
        y = F.layer_norm(xn, (d,), wn, bn)
        gb_ = torch.autograd.grad(y, bn, torch.ones_like(y))[0]
        checks += 1
        if float(gb_.max()) != rows:
            fails.append("layer_norm bias terms")
        # embedding: expected look-ups of one row
        V, D = rng.randint(2, 6), rng.randint(1, 4)
        idx = torch.randint(0, V, (rng.randint(1, 20),))
        we = torch.ones(V, D, dtype=torch.float64, requires_grad=True)
        ge = torch.autograd.grad(F.embedding(idx, we), we, torch.ones(idx.numel(), D, dtype=torch.float64))[0]
        checks += 1
        if abs(float(ge.sum()) / (V * D) - idx.numel() / V) > 1e-9:
            fails.append("embedding mean look-ups")
    # dropout second moment 1/(1-p) ; mse sum-grad variance 8 (statistical facts, large sample)
    torch.manual_seed(0)
    p = 0.3
    y = F.dropout(torch.ones(2_000_000), p, True)
    checks += 1
    if abs(float((y * y).mean()) - 1 / (1 - p)) > 5e-3:
        fails.append("dropout second moment")
    x, t = torch.randn(2_000_000, requires_grad=True), torch.randn(2_000_000)
    gx = torch.autograd.grad(F.mse_loss(x, t, reduction="sum"), x)[0]
    checks += 1
    if abs(float(gx.var()) - 8) > 0.05:
        fails.append("mse sum-grad variance 8")
    return checks, fails


def g_nn(rng, n):
    fails, checks = [], 0

    def chk(name, ok):
        nonlocal checks
        checks += 1
        if not ok:
            fails.append(name)

    calls = []

    class L(nn.Linear):
        def reset_parameters(self):
            calls.append("L")

    class C(nn.Conv1d):
        def reset_parameters(self):
            calls.append("C")

    L(3, 4)
    C(2, 4, 3)
    chk("nn.Linear/_ConvNd.__init__ call the virtual reset_parameters", calls == ["L", "C"])
    m = nn.Linear(3, 5, bias=False)
    chk("Linear attrs", m.in_features == 3 and m.out_features == 5 and tuple(m.weight.shape) == (5, 3) and m.bias is None)
    c = nn.Conv1d(4, 6, 3, 2, 1, 1, 2, True, "circular")
    chk("Conv1d attrs", c.kernel_size == (3,) and c.stride == (2,) and c.padding == (1,) and c.dilation == (1,) and c.groups == 2 and c.padding_mode == "circular" and list(c._reversed_padding_repeated_twice) == [1, 1] and tuple(c.weight.shape) == (6, 2, 3))
    ln = nn.LayerNorm(5)
    chk("LayerNorm attrs", ln.normalized_shape == (5,) and bool((ln.weight == 1).all()) and bool((ln.bias == 0).all()))
    ln2 = nn.LayerNorm(5, elementwise_affine=False)
    chk("LayerNorm no affine", ln2.weight is None and ln2.bias is None)
    torch.manual_seed(0)
    e = nn.Embedding(2000, 64, padding_idx=-1)
    chk("Embedding attrs/init", e.padding_idx == 1999 and abs(float(e.weight[:-1].std()) - 1) < 0.02 and abs(float(e.weight[:-1].mean())) < 0.02)
    chk("GELU/SiLU/Softmax/Dropout attrs", nn.GELU("tanh").approximate == "tanh" and nn.SiLU(True).inplace is True and nn.Softmax(-2).dim == -2 and nn.Dropout(0.2, True).p == 0.2)
    ce = nn.CrossEntropyLoss(ignore_index=3, reduction="sum", label_smoothing=0.1)
    chk("CrossEntropyLoss attrs", ce.ignore_index == 3 and ce.reduction == "sum" and ce.label_smoothing == 0.1 and ce.weight is None)
    d = torch.randn(3, 2)
    p = nn.Parameter(d)
    chk("nn.Parameter shares storage, no instance attrs", p.data_ptr() == d.data_ptr() and p.__dict__ == {})
    w = torch.empty(1000, 100)
    nn.init.normal_(w)
    chk("nn.init.normal_ default N(0,1)", abs(float(w.std()) - 1) < 0.02 and abs(float(w.mean())) < 0.02)
    x = torch.randn(2, 4, 9)
    c2 = nn.Conv1d(4, 6, 3, padding=1, padding_mode="reflect")
    chk("nn.Conv1d non-zero padding mode: pad explicitly, convolve with padding 0", torch.allclose(c2(x), F.conv1d(F.pad(x, c2._reversed_padding_repeated_twice, mode="reflect"), c2.weight, c2.bias, 1, 0, 1, 1)))
    ml = nn.ModuleList([nn.Linear(2, 2), nn.Linear(2, 2)])
    chk("containers len / named_parameters", len(ml) == 2 and [k for k, _ in ml.named_parameters()] == ["0.weight", "0.bias", "1.weight", "1.bias"] and len(nn.Sequential(nn.Linear(1, 1), nn.GELU())) == 2)
    return checks, fails


def g_optim(rng, n):
    fails, checks = [], 0
    for _ in range(n):
        lr, wd = rng.uniform(1e-3, 0.5), rng.uniform(0, 0.5)
        for opt_cls in (torch.optim.SGD, torch.optim.AdamW):
            p = nn.Parameter(torch.randn(4, 3, dtype=torch.float64))
            p0 = p.detach().clone()
            o = opt_cls([dict(params=[p], lr=lr, weight_decay=wd)])
            p.grad = torch.zeros_like(p)
            o.step()
            checks += 1
            if not torch.allclose(p.detach(), p0 * (1 - lr * wd), rtol=1e-12, atol=1e-14):
                fails.append(f"{opt_cls.__name__} zero-grad step")
        for opt_cls in (torch.optim.Adam, torch.optim.AdamW):
            p = nn.Parameter(torch.randn(4, 3, dtype=torch.float64))
            p0 = p.detach().clone()
            o = opt_cls([dict(params=[p], lr=lr, weight_decay=0.0)], eps=0.0)
            g = torch.randn_like(p)
            g[g == 0] = 1.0
            p.grad = g
            o.step()
            checks += 1
            if not torch.allclose(p.detach(), p0 - lr * torch.sign(g), rtol=1e-9, atol=1e-12):
                fails.append(f"{opt_cls.__name__} first step is -lr*sign(g)")
        # per-group lr / weight_decay win over constructor defaults
        p = nn.Parameter(torch.ones(2))
        o = torch.optim.SGD([dict(params=[p], lr=lr, weight_decay=0.0)], lr=123.0)
        checks += 1
        if o.param_groups[0]["lr"] != lr:
            fails.append("per-group lr wins")
    return checks, fails


def g_bits(rng, n):
    fails, checks = [], 0

    def chk(name, ok):
        nonlocal checks
        checks += 1
        if not ok:
            fails.append(name)

    x = torch.randn(6)
    chk(".to(same dtype) returns self", x.to(torch.float32) is x)
    chk("view(int32) of float64 doubles the last dim", tuple(torch.zeros(3, 4, dtype=torch.float64).view(torch.int32).shape) == (3, 8))
    chk("view(int32) of bfloat16 halves the last dim", tuple(torch.zeros(3, 4, dtype=torch.bfloat16).view(torch.int32).shape) == (3, 2))
    i32 = torch.tensor([5, -7], dtype=torch.int32)
    m64 = torch.tensor(2**10 - 1)
    chk("int32 tensor op 0-dim int64 stays int32", (i32 + m64 // 2).dtype == torch.int32 and (i32 & ~m64).dtype == torch.int32 and m64.dtype == torch.int64)
    i0 = torch.tensor(5, dtype=torch.int32)
    chk("0-dim int32 op 0-dim int64 promotes to int64", (i0 + m64).dtype == torch.int64 and (i0 & ~m64).dtype == torch.int64)
    try:
        (i0 + m64).view(torch.float32)
        chk("view(float32) of a 0-dim int64 raises", False)
    except RuntimeError:
        chk("view(float32) of a 0-dim int64 raises", True)
    chk("view(float32) of a 0-dim int32 works", torch.tensor(0, dtype=torch.int32).view(torch.float32).dtype == torch.float32)
    try:
        torch.clip(torch.zeros(2), -(2**127), 2**127)
        chk("clip with a Python int bound beyond int64 raises OverflowError", False)
    except OverflowError:
        chk("clip with a Python int bound beyond int64 raises OverflowError", True)
    chk("clip with a Python int bound inside int64 works", torch.equal(torch.clip(torch.tensor([1e30]), -(2**62), 2**62), torch.tensor([float(2**62)])))
    u8 = torch.tensor([200, 3], dtype=torch.uint8)
    chk("uint8 << k wraps modulo 256", (u8 << 5).tolist() == [(200 << 5) % 256, (3 << 5) % 256] and (u8 << 5).dtype == torch.uint8)
    v8 = u8.clone()
    v8 += 4096 + 7
    chk("uint8 += python int wraps modulo 256", v8.tolist() == [(200 + 7) % 256, 10] and v8.dtype == torch.uint8)
    chk("int32 tensor + uint8 tensor -> int32, zero-extended", (torch.tensor([1, 1], dtype=torch.int32) + u8).tolist() == [201, 4] and (torch.tensor([1, 1], dtype=torch.int32) + u8).dtype == torch.int32)
    chk("int8 x uint8 -> int16", (torch.tensor([1], dtype=torch.int8) + torch.tensor([1], dtype=torch.uint8)).dtype == torch.int16)
    r8 = torch.randint(0, 2**8, (500,), dtype=torch.uint8)
    chk("randint honours dtype=uint8 over [0, 256)", r8.dtype == torch.uint8 and int(r8.max()) <= 255)
    chk("two's complement & / ~", (torch.tensor([-1], dtype=torch.int32) & ~torch.tensor(255)).item() == -256)
    r = torch.randint(0, 2**5, (1000,), dtype=torch.int32)
    chk("randint range/dtype", r.dtype == torch.int32 and int(r.min()) >= 0 and int(r.max()) < 32)
    chk("clip bounds / nan", torch.equal(torch.clip(torch.tensor([-5.0, 0.5, 9.0]), -2.0, 2.0), torch.tensor([-2.0, 0.5, 2.0])) and math.isnan(float(torch.clip(torch.tensor(float("nan")), -1.0, 1.0))))
    for _ in range(n * 20):
        a = torch.tensor(rng.uniform(-1e3, 1e3), dtype=torch.float32)
        k = rng.randint(-20, 20)
        q = a.clone()
        q /= 2.0**k
        import numpy as np

        chk("/= power of two is exact RNE float32", float(q) == float(np.float32(float(a)) / np.float32(2.0**k)))
    chk("<< on int32 / += int", ((torch.tensor([3], dtype=torch.int32) << 4) + (1 << 3)).item() == 56)
    return checks, fails


def g_copy(rng, n):
    """assumptions behind C09/C17: how copy / pickle / torch.save treat instance hooks"""
    fails, checks = [], 0

    def chk(name, ok):
        nonlocal checks
        checks += 1
        if not ok:
            fails.append(name)

    log = []
    p = nn.Parameter(torch.randn(2))
    p.__deepcopy__ = lambda memo: log.append("dc") or nn.Parameter.__deepcopy__(p, memo)
    copy.deepcopy(p)
    chk("copy.deepcopy uses an instance-level __deepcopy__", log == ["dc"])
    q = nn.Parameter(torch.randn(2))
    q.tag = 5
    r = nn.Parameter.__deepcopy__(q, {})
    chk("nn.Parameter.__deepcopy__ returns a plain Parameter (clone, no instance attrs)", type(r) is nn.Parameter and r.__dict__ == {} and r.data_ptr() != q.data_ptr() and torch.equal(r, q) and r.requires_grad == q.requires_grad)
    st = torch._utils._get_obj_state(q)
    chk("_get_obj_state returns the instance dict", st == {"tag": 5})
    rb = torch._utils._rebuild_parameter_with_state(q.data, True, __import__("collections").OrderedDict(), {"tag": 7})
    chk("_rebuild_parameter_with_state restores the state", isinstance(rb, nn.Parameter) and rb.tag == 7)
    so = nn.Parameter(torch.randn(2))
    chk("_set_obj_state sets a dict state as instance attributes and returns the object", torch._utils._set_obj_state(so, {"tag": 9}) is so and so.tag == 9)
    m = nn.Linear(2, 2)
    m.weight.tag = 1
    w = m.weight
    m.to(torch.float64)
    chk("Module.to converts parameters in place (same object)", m.weight is w and m.weight.dtype == torch.float64 and m.weight.tag == 1)
    m.half()
    chk("Module.half in place", m.weight is w)
    m.float()
    m.load_state_dict({"weight": torch.zeros(2, 2), "bias": torch.zeros(2)})
    chk("load_state_dict copies into the same parameter object", m.weight is w and float(m.weight.abs().sum()) == 0 and m.weight.tag == 1)
    w.requires_grad_(False)
    chk("requires_grad_ in place", m.weight is w and not w.requires_grad)
    m2 = copy.deepcopy(m)
    chk("deepcopy(module) deep-copies parameters", m2.weight is not m.weight and m2.weight.data_ptr() != m.weight.data_ptr())
    return checks, fails


def g_fx(rng, n):
    """assumptions behind C15/C19: torch.fx graph API"""
    import torch.fx as fx

    fails, checks = [], 0

    def chk(name, ok):
        nonlocal checks
        checks += 1
        if not ok:
            fails.append(name)

    g = fx.Graph()
    x = g.placeholder("x")
    a = g.call_function(torch.relu, (x,))
    b = g.call_function(torch.cat, ([a, x],), {"dim": 0})
    g.output((b,))
    chk("users are tracked through nested args", b in a.users and b in x.users)
    try:
        g.erase_node(a)
        chk("erase_node refuses a node with users", False)
    except RuntimeError:
        chk("erase_node refuses a node with users", True)
    with g.inserting_after(a):
        c = g.call_function(torch.neg, (a,))
    chk("inserting_after places the new node right after", a.next is c)
    a.replace_all_uses_with(c)
    chk("replace_all_uses_with rewrites nested args", b.args[0][0] is c and a not in [n for n in b.all_input_nodes])
    order = []
    for nd in g.nodes:
        order.append(nd.name)
        if nd is a:
            c.args = (x,)
            g.erase_node(a)
    chk("iteration tolerates erasing the current node", order[:3] == ["x", "relu", "neg"] and len(order) == 5)
    g.lint()
    return checks, fails


GROUPS = {"algebra": g_algebra, "shapes": g_shapes, "terms": g_terms, "nn": g_nn, "optim": g_optim, "bits": g_bits, "copy": g_copy, "fx": g_fx}


def main():
    ap = argparse.ArgumentParser()
    ap.add_argument("--groups", default=",".join(GROUPS))
    ap.add_argument("--seed", type=int, default=0)
    ap.add_argument("--n", type=int, default=20)
    a = ap.parse_args()
    rng = random.Random(a.seed)
    torch.manual_seed(a.seed)
    out = {}
    for gname in a.groups.split(","):
        try:
            checks, fails = GROUPS[gname](rng, a.n)
            out[gname] = {"checks": checks, "failed": sorted(set(fails))}
        except Exception as e:  # a crash is a failed validation
            import traceback

            out[gname] = {"checks": 0, "failed": [f"crash: {type(e).__name__}: {e}", traceback.format_exc()[-600:]]}
    print(json.dumps(out))
    return 0


if __name__ == "__main__":
    sys.exit(main())
