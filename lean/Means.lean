/-
C05 (mean rules, all n >= 1):  min <= hmean <= gmean <= amean <= max, permutation invariance.
Definitions mirror the z3 spec functions of contracts/summaries.py (A8: by inspection):
  amean s = (Σ s i) / n          gmean s = (∏ s i)^(1/n)          hmean s = n / Σ (s i)⁻¹
-/
import Mathlib.Analysis.MeanInequalities
import Mathlib.Algebra.BigOperators.Field
import Mathlib.Algebra.Order.BigOperators.Ring.Finset
import Mathlib.Algebra.Order.Field.Basic

open Finset BigOperators

noncomputable section

variable {n : ℕ}

def amean (s : Fin n → ℝ) : ℝ := (∑ i, s i) / n
def gmean (s : Fin n → ℝ) : ℝ := (∏ i, s i) ^ ((1 : ℝ) / n)
def hmean (s : Fin n → ℝ) : ℝ := n / ∑ i, (s i)⁻¹

/-- permutation invariance -/
theorem amean_perm (s : Fin n → ℝ) (σ : Equiv.Perm (Fin n)) : amean (s ∘ σ) = amean s := by
  unfold amean; congr 1; exact Equiv.sum_comp σ s

theorem gmean_perm (s : Fin n → ℝ) (σ : Equiv.Perm (Fin n)) : gmean (s ∘ σ) = gmean s := by
  unfold gmean; congr 1; exact Equiv.prod_comp σ s

theorem hmean_perm (s : Fin n → ℝ) (σ : Equiv.Perm (Fin n)) : hmean (s ∘ σ) = hmean s := by
  unfold hmean; congr 1; exact Equiv.sum_comp σ (fun i => (s i)⁻¹)

/-- GM ≤ AM for all n ≥ 1 -/
theorem gmean_le_amean (hn : 0 < n) (s : Fin n → ℝ) (hs : ∀ i, 0 < s i) : gmean s ≤ amean s := by
  have hn' : (0 : ℝ) < n := Nat.cast_pos.mpr hn
  have key := Real.geom_mean_le_arith_mean_weighted (Finset.univ) (fun _ : Fin n => (1 : ℝ) / n) s
    (fun i _ => by positivity)
    (by
      rw [Finset.sum_const, Finset.card_univ, Fintype.card_fin, nsmul_eq_mul]
      field_simp)
    (fun i _ => (hs i).le)
  unfold gmean amean
  have e1 : ∏ i : Fin n, s i ^ ((1 : ℝ) / n) = (∏ i, s i) ^ ((1 : ℝ) / n) :=
    Real.finsetProd_rpow _ _ (fun i _ => (hs i).le) _
  have e2 : ∑ i : Fin n, (1 : ℝ) / n * s i = (∑ i, s i) / n := by
    rw [← Finset.mul_sum]; ring
  rw [e1, e2] at key
  exact key

theorem prod_pos' (s : Fin n → ℝ) (hs : ∀ i, 0 < s i) : 0 < ∏ i, s i :=
  Finset.prod_pos (fun i _ => hs i)

theorem gmean_pos (s : Fin n → ℝ) (hs : ∀ i, 0 < s i) : 0 < gmean s := by
  unfold gmean
  exact Real.rpow_pos_of_pos (prod_pos' s hs) _

theorem sum_inv_pos (hn : 0 < n) (s : Fin n → ℝ) (hs : ∀ i, 0 < s i) : 0 < ∑ i, (s i)⁻¹ := by
  have : Nonempty (Fin n) := ⟨⟨0, hn⟩⟩
  exact Finset.sum_pos (fun i _ => inv_pos.mpr (hs i)) Finset.univ_nonempty

theorem hmean_pos (hn : 0 < n) (s : Fin n → ℝ) (hs : ∀ i, 0 < s i) : 0 < hmean s := by
  have hn' : (0 : ℝ) < n := Nat.cast_pos.mpr hn
  unfold hmean
  exact div_pos hn' (sum_inv_pos hn s hs)

/-- gmean of reciprocals is reciprocal of gmean -/
theorem gmean_inv (s : Fin n → ℝ) (hs : ∀ i, 0 < s i) :
    gmean (fun i => (s i)⁻¹) = (gmean s)⁻¹ := by
  unfold gmean
  rw [Finset.prod_inv_distrib, Real.inv_rpow (prod_pos' s hs).le]

/-- amean of reciprocals is reciprocal of hmean -/
theorem amean_inv (s : Fin n → ℝ) : amean (fun i => (s i)⁻¹) = (hmean s)⁻¹ := by
  unfold amean hmean
  rw [inv_div]

/-- HM ≤ GM for all n ≥ 1 -/
theorem hmean_le_gmean (hn : 0 < n) (s : Fin n → ℝ) (hs : ∀ i, 0 < s i) : hmean s ≤ gmean s := by
  have key := gmean_le_amean hn (fun i => (s i)⁻¹) (fun i => inv_pos.mpr (hs i))
  rw [gmean_inv s hs, amean_inv s] at key
  exact (inv_le_inv₀ (gmean_pos s hs) (hmean_pos hn s hs)).mp key

theorem hmean_le_amean (hn : 0 < n) (s : Fin n → ℝ) (hs : ∀ i, 0 < s i) : hmean s ≤ amean s :=
  (hmean_le_gmean hn s hs).trans (gmean_le_amean hn s hs)

theorem amean_le_max (hn : 0 < n) (s : Fin n → ℝ) (M : ℝ) (hM : ∀ i, s i ≤ M) : amean s ≤ M := by
  have hn' : (0 : ℝ) < n := Nat.cast_pos.mpr hn
  unfold amean
  rw [div_le_iff₀ hn']
  calc ∑ i, s i ≤ ∑ _i : Fin n, M := Finset.sum_le_sum (fun i _ => hM i)
    _ = M * n := by
      rw [Finset.sum_const, Finset.card_univ, Fintype.card_fin, nsmul_eq_mul]; ring

theorem min_le_amean (hn : 0 < n) (s : Fin n → ℝ) (m : ℝ) (hm : ∀ i, m ≤ s i) : m ≤ amean s := by
  have hn' : (0 : ℝ) < n := Nat.cast_pos.mpr hn
  unfold amean
  rw [le_div_iff₀ hn']
  calc m * n = ∑ _i : Fin n, m := by
        rw [Finset.sum_const, Finset.card_univ, Fintype.card_fin, nsmul_eq_mul]; ring
    _ ≤ ∑ i, s i := Finset.sum_le_sum (fun i _ => hm i)

theorem min_le_hmean (hn : 0 < n) (s : Fin n → ℝ) (m : ℝ) (hs : ∀ i, 0 < s i)
    (hm : ∀ i, m ≤ s i) (hm0 : 0 < m) : m ≤ hmean s := by
  -- amean of reciprocals ≤ m⁻¹, then invert
  have h1 : amean (fun i => (s i)⁻¹) ≤ m⁻¹ :=
    amean_le_max hn _ _ (fun i => (inv_le_inv₀ (hs i) hm0).mpr (hm i))
  rw [amean_inv s] at h1
  exact (inv_le_inv₀ (hmean_pos hn s hs) hm0).mp h1

theorem hmean_le_max (hn : 0 < n) (s : Fin n → ℝ) (M : ℝ) (hs : ∀ i, 0 < s i)
    (hM : ∀ i, s i ≤ M) : hmean s ≤ M :=
  (hmean_le_amean hn s hs).trans (amean_le_max hn s M hM)

theorem means_between (hn : 0 < n) (s : Fin n → ℝ) (m M : ℝ) (hs : ∀ i, 0 < s i)
    (hm : ∀ i, m ≤ s i) (hM : ∀ i, s i ≤ M) (hm0 : 0 < m) :
    m ≤ hmean s ∧ hmean s ≤ gmean s ∧ gmean s ≤ amean s ∧ amean s ≤ M :=
  ⟨min_le_hmean hn s m hs hm hm0, hmean_le_gmean hn s hs, gmean_le_amean hn s hs,
    amean_le_max hn s M hM⟩

/-- gmean is the positive n-th root of the product -/
theorem gmean_pow (hn : 0 < n) (s : Fin n → ℝ) (hs : ∀ i, 0 < s i) :
    0 < gmean s ∧ (gmean s) ^ n = ∏ i, s i := by
  have hn' : (n : ℝ) ≠ 0 := Nat.cast_ne_zero.mpr hn.ne'
  refine ⟨gmean_pos s hs, ?_⟩
  unfold gmean
  rw [← Real.rpow_natCast, ← Real.rpow_mul (prod_pos' s hs).le, one_div, inv_mul_cancel₀ hn',
    Real.rpow_one]

end
