#!/bin/sh
# Compile the Lean proofs and reject any sorry/admit/axiom.
cd "$(dirname "$0")" || exit 1
if grep -nE 'sorry|admit|^axiom' Means.lean Telescoping.lean; then
  echo "lean FAIL: forbidden token (sorry/admit/axiom) in sources" >&2
  exit 1
fi
out=$( { lean Means.lean && lean Telescoping.lean; } 2>&1 )
rc=$?
if [ -n "$out" ]; then printf '%s\n' "$out"; fi
if [ "$rc" -ne 0 ]; then
  echo "lean FAIL: compile error" >&2
  exit 1
fi
if printf '%s\n' "$out" | grep -qE ": error|declaration uses 'sorry'"; then
  echo "lean FAIL: errors or sorry in compiler output" >&2
  exit 1
fi
echo "lean ok"
