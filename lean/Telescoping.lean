/-
Residual stack telescoping identities.
  S (i+1) = S i + (a i)^2,   (τ i)^2 * S i = (a i)^2,   S 0 > 0.
Then  ∏_{j<k} (1 + τ(i+j)^2) * S i = S (i+k),  the squared contribution of layer i after L
layers is (a i)^2 / S L, the embedding contributes S 0 / S L, and they sum to 1.
-/
import Mathlib.Algebra.BigOperators.Field
import Mathlib.Algebra.BigOperators.Intervals
import Mathlib.Algebra.Order.BigOperators.Ring.Finset
import Mathlib.Algebra.Order.Field.Basic
import Mathlib.Data.Real.Basic
import Mathlib.Tactic

open Finset BigOperators

noncomputable section

/-- squared contribution of layer `i` to the output of an `L`-layer stack (`i < L`) -/
def contrib2 (τ : ℕ → ℝ) (i L : ℕ) : ℝ :=
  (τ i) ^ 2 / ∏ j ∈ Finset.range (L - i), (1 + (τ (i + j)) ^ 2)

/-- squared contribution of the embedding to the output of an `L`-layer stack -/
def emb2 (τ : ℕ → ℝ) (L : ℕ) : ℝ :=
  1 / ∏ j ∈ Finset.range L, (1 + (τ j) ^ 2)

section General

variable (a S τ : ℕ → ℝ)

theorem S_pos (hS0 : 0 < S 0) (hstep : ∀ i, S (i + 1) = S i + (a i) ^ 2) : ∀ i, 0 < S i := by
  intro i
  induction i with
  | zero => exact hS0
  | succ k ih =>
    rw [hstep k]
    have := sq_nonneg (a k)
    linarith

theorem one_add_tau_sq (hstep : ∀ i, S (i + 1) = S i + (a i) ^ 2)
    (hτ : ∀ i, (τ i) ^ 2 * S i = (a i) ^ 2) : ∀ i, (1 + (τ i) ^ 2) * S i = S (i + 1) := by
  intro i
  rw [hstep i, ← hτ i]
  ring

theorem telescope (hstep : ∀ i, S (i + 1) = S i + (a i) ^ 2)
    (hτ : ∀ i, (τ i) ^ 2 * S i = (a i) ^ 2) :
    ∀ i k, (∏ j ∈ Finset.range k, (1 + (τ (i + j)) ^ 2)) * S i = S (i + k) := by
  intro i k
  induction k with
  | zero => simp
  | succ k ih =>
    rw [Finset.prod_range_succ, mul_right_comm, ih, mul_comm,
      one_add_tau_sq a S τ hstep hτ (i + k)]
    rfl

theorem S_eq_sum (hstep : ∀ i, S (i + 1) = S i + (a i) ^ 2) :
    ∀ k, S k = S 0 + ∑ j ∈ Finset.range k, (a j) ^ 2 := by
  intro k
  induction k with
  | zero => simp
  | succ k ih =>
    rw [Finset.sum_range_succ, hstep k, ih]
    ring

theorem contrib2_eq (hS0 : 0 < S 0) (hstep : ∀ i, S (i + 1) = S i + (a i) ^ 2)
    (hτ : ∀ i, (τ i) ^ 2 * S i = (a i) ^ 2) {i L : ℕ} (hi : i < L) :
    contrib2 τ i L = (a i) ^ 2 / S L := by
  have hSi : 0 < S i := S_pos a S hS0 hstep i
  have hSL : 0 < S L := S_pos a S hS0 hstep L
  have htel := telescope a S τ hstep hτ i (L - i)
  rw [Nat.add_sub_cancel' hi.le] at htel
  have hP : (∏ j ∈ Finset.range (L - i), (1 + (τ (i + j)) ^ 2)) = S L / S i := by
    rw [eq_div_iff hSi.ne', htel]
  unfold contrib2
  rw [hP, ← hτ i]
  field_simp

theorem emb2_eq (hS0 : 0 < S 0) (hstep : ∀ i, S (i + 1) = S i + (a i) ^ 2)
    (hτ : ∀ i, (τ i) ^ 2 * S i = (a i) ^ 2) (L : ℕ) :
    emb2 τ L = S 0 / S L := by
  have hSL : 0 < S L := S_pos a S hS0 hstep L
  have htel := telescope a S τ hstep hτ 0 L
  simp only [Nat.zero_add] at htel
  have hP : (∏ j ∈ Finset.range L, (1 + (τ j) ^ 2)) = S L / S 0 := by
    rw [eq_div_iff hS0.ne', htel]
  unfold emb2
  rw [hP]
  field_simp

/-- sum of `contrib2` over any subset of the layers below `L` -/
theorem sum_contrib2_subset (hS0 : 0 < S 0) (hstep : ∀ i, S (i + 1) = S i + (a i) ^ 2)
    (hτ : ∀ i, (τ i) ^ 2 * S i = (a i) ^ 2) (L : ℕ) (A : Finset ℕ)
    (hA : ∀ i ∈ A, i < L) :
    ∑ i ∈ A, contrib2 τ i L = (∑ i ∈ A, (a i) ^ 2) / S L := by
  rw [Finset.sum_div]
  exact Finset.sum_congr rfl (fun i hi => contrib2_eq a S τ hS0 hstep hτ (hA i hi))

theorem sum_contrib (hS0 : 0 < S 0) (hstep : ∀ i, S (i + 1) = S i + (a i) ^ 2)
    (hτ : ∀ i, (τ i) ^ 2 * S i = (a i) ^ 2) (L : ℕ) :
    emb2 τ L + ∑ i ∈ Finset.range L, contrib2 τ i L = 1 := by
  have hSL : 0 < S L := S_pos a S hS0 hstep L
  rw [emb2_eq a S τ hS0 hstep hτ L,
    sum_contrib2_subset a S τ hS0 hstep hτ L (Finset.range L)
      (fun i hi => Finset.mem_range.mp hi),
    ← add_div, ← S_eq_sum a S hstep L]
  exact div_self hSL.ne'

end General

section Transformer

variable (a S τ : ℕ → ℝ) (αa αm r m : ℝ) (n L : ℕ)

/-- alternating sum, even positions -/
theorem sum_even_alt (f : ℕ → ℝ) (x y : ℝ)
    (hf : ∀ i, f i = if i % 2 = 0 then x else y) (n : ℕ) :
    ∑ i ∈ (Finset.range (2 * n)).filter (fun i => i % 2 = 0), f i = n * x := by
  induction n with
  | zero => simp
  | succ k ih =>
    have h0 : (2 * k) % 2 = 0 := by omega
    have h1 : ¬ (2 * k + 1) % 2 = 0 := by omega
    rw [show 2 * (k + 1) = 2 * k + 1 + 1 by ring, Finset.range_add_one, Finset.filter_insert,
      if_neg h1, Finset.range_add_one, Finset.filter_insert, if_pos h0,
      Finset.sum_insert (by simp), ih, hf, if_pos h0]
    push_cast
    ring

/-- alternating sum, odd positions -/
theorem sum_odd_alt (f : ℕ → ℝ) (x y : ℝ)
    (hf : ∀ i, f i = if i % 2 = 0 then x else y) (n : ℕ) :
    ∑ i ∈ (Finset.range (2 * n)).filter (fun i => i % 2 = 1), f i = n * y := by
  induction n with
  | zero => simp
  | succ k ih =>
    have h0 : ¬ (2 * k) % 2 = 1 := by omega
    have h1 : (2 * k + 1) % 2 = 1 := by omega
    have h1' : ¬ (2 * k + 1) % 2 = 0 := by omega
    rw [show 2 * (k + 1) = 2 * k + 1 + 1 by ring, Finset.range_add_one, Finset.filter_insert,
      if_pos h1, Finset.range_add_one, Finset.filter_insert, if_neg h0,
      Finset.sum_insert (by simp), ih, hf, if_neg h1']
    push_cast
    ring

theorem sum_attn (hL : L = 2 * n) (ha : ∀ i, a i = if i % 2 = 0 then αa else αm) :
    ∑ i ∈ (Finset.range L).filter (fun i => i % 2 = 0), (a i) ^ 2 = n * αa ^ 2 := by
  subst hL
  refine sum_even_alt (fun i => (a i) ^ 2) (αa ^ 2) (αm ^ 2) (fun i => ?_) n
  show (a i) ^ 2 = _
  rw [ha i]; split_ifs <;> rfl

theorem sum_mlp (hL : L = 2 * n) (ha : ∀ i, a i = if i % 2 = 0 then αa else αm) :
    ∑ i ∈ (Finset.range L).filter (fun i => i % 2 = 1), (a i) ^ 2 = n * αm ^ 2 := by
  subst hL
  refine sum_odd_alt (fun i => (a i) ^ 2) (αa ^ 2) (αm ^ 2) (fun i => ?_) n
  show (a i) ^ 2 = _
  rw [ha i]; split_ifs <;> rfl

theorem attn_mlp_ratio_sq
    (hS0 : 0 < S 0) (hstep : ∀ i, S (i + 1) = S i + (a i) ^ 2)
    (hτ : ∀ i, (τ i) ^ 2 * S i = (a i) ^ 2)
    (hL : L = 2 * n) (_hn : 0 < n) (ha : ∀ i, a i = if i % 2 = 0 then αa else αm)
    (_hS0L : S 0 = (L : ℝ) / 2) (hr : αa = r * αm)
    (_hα : αm ^ 2 * (1 + r ^ 2) = 2 * m ^ 2) (_hr0 : 0 < r) (_hm0 : 0 < m) :
    ∑ i ∈ (Finset.range L).filter (fun i => i % 2 = 0), contrib2 τ i L
      = r ^ 2 * ∑ i ∈ (Finset.range L).filter (fun i => i % 2 = 1), contrib2 τ i L := by
  have hmem : ∀ (p : ℕ → Prop) [DecidablePred p], ∀ i ∈ (Finset.range L).filter p, i < L :=
    fun p _ i hi => Finset.mem_range.mp (Finset.mem_filter.mp hi).1
  rw [sum_contrib2_subset a S τ hS0 hstep hτ L _ (hmem _),
    sum_contrib2_subset a S τ hS0 hstep hτ L _ (hmem _),
    sum_attn a αa αm n L hL ha, sum_mlp a αa αm n L hL ha, hr]
  ring

theorem mean_vs_embedding_sq
    (hS0 : 0 < S 0) (hstep : ∀ i, S (i + 1) = S i + (a i) ^ 2)
    (hτ : ∀ i, (τ i) ^ 2 * S i = (a i) ^ 2)
    (hL : L = 2 * n) (_hn : 0 < n) (ha : ∀ i, a i = if i % 2 = 0 then αa else αm)
    (hS0L : S 0 = (L : ℝ) / 2) (hr : αa = r * αm)
    (hα : αm ^ 2 * (1 + r ^ 2) = 2 * m ^ 2) (_hr0 : 0 < r) (_hm0 : 0 < m) :
    ((∑ i ∈ (Finset.range L).filter (fun i => i % 2 = 0), contrib2 τ i L)
      + (∑ i ∈ (Finset.range L).filter (fun i => i % 2 = 1), contrib2 τ i L)) / 2
      = m ^ 2 * emb2 τ L := by
  have hmem : ∀ (p : ℕ → Prop) [DecidablePred p], ∀ i ∈ (Finset.range L).filter p, i < L :=
    fun p _ i hi => Finset.mem_range.mp (Finset.mem_filter.mp hi).1
  rw [sum_contrib2_subset a S τ hS0 hstep hτ L _ (hmem _),
    sum_contrib2_subset a S τ hS0 hstep hτ L _ (hmem _),
    sum_attn a αa αm n L hL ha, sum_mlp a αa αm n L hL ha,
    emb2_eq a S τ hS0 hstep hτ L, hS0L, hr]
  have hLr : (L : ℝ) = 2 * n := by rw [hL]; push_cast; ring
  have hnum : (n : ℝ) * (r * αm) ^ 2 + n * αm ^ 2 = 2 * (m ^ 2 * n) := by
    linear_combination (n : ℝ) * hα
  rw [hLr, ← add_div, hnum]
  ring

/-- numerator forms (independent of the stack) -/
theorem attn_mlp_ratio_num (hr : αa = r * αm) :
    (n : ℝ) * αa ^ 2 = r ^ 2 * (n * αm ^ 2) := by
  rw [hr]; ring

theorem mean_vs_embedding_num (hr : αa = r * αm) (hα : αm ^ 2 * (1 + r ^ 2) = 2 * m ^ 2) :
    ((n : ℝ) * αa ^ 2 + n * αm ^ 2) / 2 = m ^ 2 * ((2 * n : ℝ) / 2) := by
  rw [hr]
  linear_combination ((n : ℝ) / 2) * hα

end Transformer

/-- Sequential residual stacking keeps the total squared contribution at 1. -/
theorem stack_sum_sq (c w T : ℕ → ℝ) (hcw : ∀ k, (c k) ^ 2 + (w k) ^ 2 = 1)
    (hT0 : T 0 = 1) (hTs : ∀ k, T (k + 1) = (c k) ^ 2 * T k + (w k) ^ 2) : ∀ k, T k = 1 := by
  intro k
  induction k with
  | zero => exact hT0
  | succ k ih => rw [hTs k, ih, mul_one, hcw k]

end
