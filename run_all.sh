#!/bin/sh
# run every claimed check (quick tier by default) and summarise
cd "$(dirname "$0")" || exit 3
tier="${1:-quick}"
rc=0
for p in $(python3-vt -c "import json;print(' '.join(c['property_id'] for c in json.load(open('MANIFEST.json'))['checks']))"); do
  ./check "$p" --tier "$tier" > "out/$p.$tier.log" 2>&1
  e=$?
  echo "$p exit=$e $(grep -c '^VIOLATION' out/$p.$tier.log) violations $(tail -n 20 out/$p.$tier.log | grep -o 'obligations=[0-9]*' | head -1) $(tail -n 20 out/$p.$tier.log | grep -o 'wall=[0-9.]*s' | head -1)"
  [ "$e" -ne 0 ] && rc=1
done
exit $rc
