#!/venv/bin/python
"""BOUNDED stand-in for the non-elementwise clauses of C04 (never counted as proved):
run-time contract on the real softmax, scaled_dot_product_attention, cross_entropy,
layer_norm and rms_norm with standard-normal inputs and upstream gradients, no constraint,
evaluated by fixed-seed Monte-Carlo with >= 2^20 elements per configuration (the evaluation
the property itself prescribes; sampling error < 0.5%):

  softmax     width 16..4096, mult 1/8..4           output RMS*, grad RMS     in [0.55, 1.35]
  attention   seq 16..1024, head 16..128, mult 1/4..16, causal or not, dropout 0..0.3
                                                     output RMS, value-grad RMS in [0.7, 1.3]
  cross_entropy  vocab >= 2, mult <= 4              logit-gradient RMS        in [0.95, 1.45]
  layer_norm / rms_norm  unit gains, width >= 16    output RMS, input-grad RMS within 10% of 1

(* softmax outputs are not centred: the unit-scaling convention is RMS.)
Bound: the grids below (range end points + geometric interior points); quick = coarser grid.
"""
import argparse
import json
import math
import sys

import torch

sys.path.insert(0, "/repo")
import unit_scaling.functional as U  # noqa: E402

N = 2**20


def rms(t):
    return float(t.detach().double().pow(2).mean().sqrt())


def geo(lo, hi, n):
    return [lo * (hi / lo) ** (i / (n - 1)) for i in range(n)]


def main():
    ap = argparse.ArgumentParser()
    ap.add_argument("--tier", default="quick")
    ap.add_argument("--seed", type=int, default=0)
    a = ap.parse_args()
    quick = a.tier == "quick"
    torch.manual_seed(1234 + a.seed)
    viol, n, worst = [], 0, {}

    def record(name, cfg, val, lo, hi):
        nonlocal n
        n += 1
        w = worst.setdefault(name, [val, val])
        w[0], w[1] = min(w[0], val), max(w[1], val)
        # 0.5% sampling slack on the band edges
        if not (lo * 0.995 <= val <= hi * 1.005) and len(viol) < 12:
            viol.append({"name": f"C04:bounded:{name}_in_[{lo},{hi}]", "config": cfg, "value": val, "reproduced": True})

    # ---- softmax
    widths = [16, 256, 4096] if quick else [16, 64, 256, 1024, 4096]
    mults = [1 / 8, 1 / 2, 2.0, 4.0] if quick else geo(1 / 8, 4.0, 11)
    for wd in widths:
        for m in mults:
            rows = max(1, N // wd)
            x = torch.randn(rows, wd, requires_grad=True)
            y = U.softmax(x, dim=-1, constraint=None, mult=m)
            (g,) = torch.autograd.grad(y, x, torch.randn_like(y))
            cfg = {"width": wd, "mult": m}
            record("softmax.output_rms", cfg, rms(y), 0.55, 1.35)
            record("softmax.grad_input_rms", cfg, rms(g), 0.55, 1.35)

    # ---- attention
    seqs = [16, 128, 1024] if quick else [16, 64, 256, 1024]
    heads = [16, 128] if quick else [16, 64, 128]
    amults = [1 / 4, 1.0, 4.0, 16.0] if quick else geo(1 / 4, 16.0, 7)
    for s in seqs:
        for d in heads:
            for m in amults:
                for causal in (False, True):
                    for p in ((0.0, 0.3) if not quick else ((0.0,) if causal else (0.0, 0.3))):
                        b = max(1, N // (s * d))
                        q, k = torch.randn(b, s, d), torch.randn(b, s, d)
                        v = torch.randn(b, s, d, requires_grad=True)
                        y = U.scaled_dot_product_attention(q, k, v, dropout_p=p, is_causal=causal, mult=m)
                        (gv,) = torch.autograd.grad(y, v, torch.randn_like(y))
                        cfg = {"seq": s, "d_head": d, "mult": m, "is_causal": causal, "dropout_p": p}
                        record("attention.output_rms", cfg, rms(y), 0.7, 1.3)
                        record("attention.grad_value_rms", cfg, rms(gv), 0.7, 1.3)

    # ---- cross entropy (logit gradient)
    vocabs = [2, 16, 1024] if quick else [2, 3, 16, 128, 1024, 8192]
    cmults = [1 / 4, 1.0, 4.0] if quick else geo(1 / 16, 4.0, 9)
    for V in vocabs:
        for m in cmults:
            B = max(2, N // V)
            x = torch.randn(B, V, requires_grad=True)
            t = torch.randint(0, V, (B,))
            loss = U.cross_entropy(x, t, mult=m)
            (g,) = torch.autograd.grad(loss, x)
            record("cross_entropy.grad_logits_rms", {"vocab": V, "mult": m}, rms(g), 0.95, 1.45)
    # uniform logits: exactly 1
    for V in (2, 16, 1024):
        x = torch.zeros(64, V, dtype=torch.float64, requires_grad=True)
        t = torch.randint(0, V, (64,))
        (g,) = torch.autograd.grad(U.cross_entropy(x, t), x)
        record("cross_entropy.uniform_logits_grad_rms", {"vocab": V}, rms(g), 1.0 - 1e-9, 1.0 + 1e-9)

    # ---- norms
    for wd in ([16, 256, 4096] if quick else [16, 32, 128, 1024, 4096]):
        rows = max(1, N // wd)
        for name, fn in (("layer_norm", lambda t: U.layer_norm(t, (wd,), torch.ones(wd), torch.zeros(wd))), ("rms_norm", lambda t: U.rms_norm(t, (wd,), torch.ones(wd)))):
            x = torch.randn(rows, wd, requires_grad=True)
            y = fn(x)
            (g,) = torch.autograd.grad(y, x, torch.randn_like(y))
            record(f"{name}.output_rms", {"width": wd}, rms(y), 0.9, 1.1)
            record(f"{name}.grad_input_rms", {"width": wd}, rms(g), 0.9, 1.1)

    ok = not viol
    detail = "; ".join(f"{k}: [{v[0]:.3f}, {v[1]:.3f}]" for k, v in sorted(worst.items()))
    print(json.dumps({"ok": ok, "obligations": n, "discharged": n if ok else 0, "detail": f"Monte-Carlo (2^20 elements) ranges observed: {detail}", "violations": viol}))
    return 0


if __name__ == "__main__":
    sys.exit(main())
