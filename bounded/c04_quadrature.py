#!/venv/bin/python
"""BOUNDED stand-in for the elementwise clauses of C04 (never counted as proved):
run-time contract on the real gelu (exact and tanh), silu and silu_glu, no constraint:
output standard deviation and input-gradient RMS within 7% of 1 for mult in [1/16, 16],
evaluated by Gauss-Hermite quadrature (float64) on a log grid of multipliers plus the
range end points.  Bound: 120 nodes; 81 (quick) / 1025 (thorough) multipliers."""
import argparse
import json
import math
import sys

import numpy as np
import torch

sys.path.insert(0, "/repo")
import unit_scaling.functional as U  # noqa: E402


def main():
    ap = argparse.ArgumentParser()
    ap.add_argument("--tier", default="quick")
    ap.add_argument("--seed", type=int, default=0)
    a = ap.parse_args()
    n_mult = 81 if a.tier == "quick" else 1025
    nodes, weights = np.polynomial.hermite_e.hermegauss(120)
    w = torch.tensor(weights / weights.sum(), dtype=torch.float64)
    x0 = torch.tensor(nodes, dtype=torch.float64)
    mults = [2.0 ** (-4 + 8 * i / (n_mult - 1)) for i in range(n_mult)]
    worst = {}
    viol = []
    evals = 0

    def record(name, mult, val):
        nonlocal evals
        evals += 1
        lo, hi = worst.get(name, (val, val))
        worst[name] = (min(lo, val), max(hi, val))
        if not (0.93 <= val <= 1.07):
            viol.append({"name": f"C04:bounded:{name}_within_7pct", "mult": mult, "value": val, "reproduced": True})

    for m in mults:
        for name, fn in (("gelu", lambda t: U.gelu(t, mult=m, constraint=None)), ("gelu_tanh", lambda t: U.gelu(t, mult=m, constraint=None, approximate="tanh")), ("silu", lambda t: U.silu(t, mult=m, constraint=None))):
            x = x0.clone().requires_grad_(True)
            y = fn(x)
            mean = float((w * y).sum())
            std = math.sqrt(max(float((w * y * y).sum()) - mean * mean, 0.0))
            (g,) = torch.autograd.grad(y, x, torch.ones_like(y))
            rms = math.sqrt(float((w * g * g).sum()))
            record(name + ".output_std", m, std)
            record(name + ".grad_input_rms", m, rms)
        X = x0[:, None].expand(-1, len(x0)).clone().requires_grad_(True)
        G = x0[None, :].expand(len(x0), -1).clone().requires_grad_(True)
        W2 = w[:, None] * w[None, :]
        y = U.silu_glu(X, G, mult=m)
        mean = float((W2 * y).sum())
        std = math.sqrt(max(float((W2 * y * y).sum()) - mean * mean, 0.0))
        gx, gg = torch.autograd.grad(y, [X, G], torch.ones_like(y))
        record("silu_glu.output_std", m, std)
        record("silu_glu.grad_input_rms", m, math.sqrt(float((W2 * gx * gx).sum())))
        record("silu_glu.grad_gate_rms", m, math.sqrt(float((W2 * gg * gg).sum())))
    out = {
        "name": "c04-quadrature",
        "kind": "BOUNDED stand-in (run-time contract by 120-node Gauss-Hermite quadrature); not counted as proved",
        "ok": not viol,
        "obligations": 0,
        "discharged": 0,
        "evaluations": evals,
        "bound": f"{n_mult} multipliers on a log grid in [1/16, 16] incl. end points; 120 quadrature nodes (120x120 for silu_glu)",
        "detail": {k: [round(v[0], 4), round(v[1], 4)] for k, v in worst.items()},
        "violations": viol[:10],
    }
    print(json.dumps(out))


if __name__ == "__main__":
    main()
