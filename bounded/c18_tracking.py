#!/venv/bin/python
"""BOUNDED stand-in for the end-to-end clause of C18 (never counted as proved): the real
track_scales (TorchDynamo) wrapper is compared with the unwrapped module on a fixed family
of small modules with fan-out (one tensor used by several consumers), integer intermediates
and parameters: outputs and all gradients bit-identical; the metrics recorded for the input
placeholder and for the output equal statistics recomputed from the actual tensors /
gradients (the input's backward metrics being the TOTAL gradient, summed over consumers)."""
import argparse
import copy
import json
import sys

import torch
import torch.nn as nn
import torch.nn.functional as F

sys.path.insert(0, "/repo")
from unit_scaling.transforms import track_scales  # noqa: E402


class FanOut(nn.Module):
    def __init__(self):
        super().__init__()
        self.l = nn.Linear(4, 4)

    def forward(self, x):
        h = self.l(x)
        a = F.relu(h)
        b = h * 0.5
        return (a + b + h).sum()


class IntMid(nn.Module):
    def __init__(self):
        super().__init__()
        self.e = nn.Embedding(7, 4)

    def forward(self, x):
        idx = (x.abs() * 3).long().clamp(0, 6)[..., 0]
        return (self.e(idx) * x).mean()


class Zeros(nn.Module):
    def forward(self, x):
        y = x * (x > 0)
        return (y * y).sum()


def stats(t):
    a = t.abs()
    return dict(mean_abs=a.mean().item(), abs_mean=t.mean().abs().item(), std=t.std().item(), abs_max=a.max().item(), abs_min=a.min().item(), numel=t.numel())


def main():
    ap = argparse.ArgumentParser()
    ap.add_argument("--tier", default="quick")
    ap.add_argument("--seed", type=int, default=0)
    a = ap.parse_args()
    viol, n = [], 0
    reps = 1 if a.tier == "quick" else 3
    for cls in (FanOut, IntMid, Zeros):
        for r in range(reps):
            n += 1
            torch.manual_seed(a.seed + r)
            m = cls()
            x1 = torch.randn(3, 4, requires_grad=True)
            x2 = x1.detach().clone().requires_grad_(True)
            try:
                y1 = m(x1)
                y1.backward()
                g1 = [x1.grad.clone()] + [p.grad.clone() for p in m.parameters()]
                m2 = track_scales(m)
                y2 = m2(x2)
                y2.backward()
                g2 = [x2.grad.clone()] + [p.grad.clone() for p in m2.parameters()]
                if not (torch.equal(y1, y2) and all(torch.equal(p, q) for p, q in zip(g1, g2))):
                    viol.append({"name": "C18:bounded:tracked_module_bit_identical", "module": cls.__name__, "reproduced": True})
                g = m2.scales_graph()
                ph = [nd for nd in g.nodes if nd.op == "placeholder" and nd.meta.get("outputs_float_tensor")]
                for nd in ph:
                    mt = nd.meta.get("metrics")
                    if mt is None:
                        continue
                    want_f, want_b = stats(x2.detach()), stats(x2.grad)
                    got_f = vars(mt.fwd)
                    got_b = vars(mt.bwd) if mt.bwd is not None else None
                    if tuple(nd.meta.get("example_value", x2).shape) == tuple(x2.shape):
                        if any(abs(got_f[k] - want_f[k]) > 1e-6 * max(1, abs(want_f[k])) for k in want_f):
                            viol.append({"name": "C18:bounded:input_forward_metrics_are_true_statistics", "module": cls.__name__, "got": got_f, "want": want_f, "reproduced": True})
                        if got_b is None or any(abs(got_b[k] - want_b[k]) > 1e-6 * max(1, abs(want_b[k])) for k in want_b):
                            viol.append({"name": "C18:bounded:input_backward_metrics_are_the_total_gradient", "module": cls.__name__, "got": got_b, "want": want_b, "reproduced": True})
                for nd in g.nodes:
                    if not nd.meta.get("outputs_float_tensor", False) and "metrics" in nd.meta:
                        viol.append({"name": "C18:bounded:non_float_node_instrumented", "module": cls.__name__, "node": nd.name, "reproduced": True})
            except Exception as e:
                viol.append({"name": "C18:bounded:runs", "module": cls.__name__, "error": f"{type(e).__name__}: {e}"[:300], "reproduced": True})
    print(json.dumps({"name": "c18-tracking-e2e", "kind": "BOUNDED stand-in (real track_scales vs unwrapped module on 3 small modules); not counted as proved", "ok": not viol, "obligations": 0, "discharged": 0, "evaluations": n, "bound": f"3 modules (fan-out, integer intermediates, tensors with zeros) x {reps} seeds", "violations": viol[:6]}))


if __name__ == "__main__":
    main()
