#!/venv/bin/python
"""BOUNDED stand-in for the whole-graph clauses of C19 (never counted as proved): the three
pruning helpers are run on graphs produced by the REAL track_scales (TorchDynamo) for a
fixed family of small modules -- list arguments (cat/stack), keyword tensor arguments,
integer index tensors, views/reshapes/negations, multi-output graphs -- with
rtol in {2^-16, 2^-8, 2^-2}.  Checked: no exception; lint(); surviving nodes are a
sub-sequence of the input's nodes; the removed set is exactly the documented one;
reachability among survivors is preserved by the two bypassing helpers; the copying helpers
leave their input graph unchanged."""
import argparse
import json
import sys
from math import isclose

import torch
import torch.nn as nn
import torch.nn.functional as F

sys.path.insert(0, "/repo")
from unit_scaling.transforms import prune_non_float_tensors, prune_same_scale_tensors, prune_selected_nodes, track_scales  # noqa: E402


class Cat(nn.Module):
    def forward(self, x, idx):
        h = x * 2.0
        y = h[:, idx]
        z = torch.cat([y, -y], dim=0)
        return z.reshape(-1).sum()


class Kw(nn.Module):
    def __init__(self):
        super().__init__()
        self.l = nn.Linear(4, 4)

    def forward(self, x, idx):
        h = self.l(x)
        s = torch.stack((h, h.view(h.shape)), dim=0)
        m = torch.add(input=s[0], other=s[1], alpha=1)
        return F.relu(m).mean(), m.shape[0]


class Rot(nn.Module):
    def forward(self, x, idx):
        a, b = x[..., :2], x[..., 2:]
        r = torch.cat((-b, a), dim=-1)
        n = (idx + 1).float().sum()
        return (r * x).sum() + 0.0 * n


FAMILY = [Cat, Kw, Rot]


def sig(g):
    return [(n.name, n.op, str(n.target), str(n.args), str(n.kwargs)) for n in g.nodes]


def reach(g):
    import networkx as nx

    G = nx.DiGraph()
    for n in g.nodes:
        G.add_node(n.name)
        for m in n.all_input_nodes:
            G.add_edge(m.name, n.name)
    return G


def main():
    ap = argparse.ArgumentParser()
    ap.add_argument("--tier", default="quick")
    ap.add_argument("--seed", type=int, default=0)
    a = ap.parse_args()
    torch.manual_seed(a.seed)
    viol, n_eval = [], 0
    rtols = [2**-16] if a.tier == "quick" else [2**-16, 2**-8, 2**-2]
    for cls in FAMILY:
        try:
            m = track_scales(cls())
            out = m(torch.randn(3, 4), torch.tensor([0, 2]))
            (out[0] if isinstance(out, tuple) else out).backward()
            g = m.scales_graph()
        except Exception as e:
            viol.append({"name": "C19:bounded:track_scales_runs", "module": cls.__name__, "error": f"{type(e).__name__}: {e}"[:200], "reproduced": True})
            continue
        names0 = [n.name for n in g.nodes]
        s0 = sig(g)
        runs = [("prune_non_float_tensors", lambda: prune_non_float_tensors(g))] + [(f"prune_same_scale_tensors[rtol={r}]", (lambda r=r: prune_same_scale_tensors(g, rtol=r))) for r in rtols]
        for name, fn in runs:
            n_eval += 1
            try:
                p = fn()
                p.lint()
                names = [n.name for n in p.nodes]
                it = iter(names0)
                if not all(any(x == y for y in it) for x in names):
                    viol.append({"name": f"C19:bounded:{name}:survivors_are_a_subsequence", "module": cls.__name__, "reproduced": True})
                if sig(g) != s0:
                    viol.append({"name": f"C19:bounded:{name}:input_graph_unchanged", "module": cls.__name__, "reproduced": True})
                removed = set(names0) - set(names)
                byname = {n.name: n for n in g.nodes}
                for r in removed:
                    nd = byname[r]
                    if name.startswith("prune_non_float") and nd.meta.get("outputs_float_tensor", False):
                        viol.append({"name": f"C19:bounded:{name}:removed_a_float_node", "module": cls.__name__, "node": r, "reproduced": True})
                if name.startswith("prune_non_float"):
                    for nd in g.nodes:
                        if nd.name != "output" and not nd.meta.get("outputs_float_tensor", False) and nd.name in names:
                            viol.append({"name": f"C19:bounded:{name}:kept_a_non_float_node", "module": cls.__name__, "node": nd.name, "reproduced": True})
                # reachability among survivors through bypassed nodes
                R0, R1 = reach(g), reach(p)
                import networkx as nx

                for u in names:
                    for v in names:
                        if u != v and nx.has_path(R1, u, v) and not nx.has_path(R0, u, v):
                            viol.append({"name": f"C19:bounded:{name}:invented_a_path", "module": cls.__name__, "reproduced": True})
            except Exception as e:
                viol.append({"name": f"C19:bounded:{name}:never_raises", "module": cls.__name__, "error": f"{type(e).__name__}: {e}"[:200], "reproduced": True})
        # selective pruning on a copy
        import copy

        n_eval += 1
        try:
            g2 = copy.deepcopy(g)
            targets = {n.target for n in g2.nodes if n.op == "call_function"}
            t = sorted(targets, key=str)[:1]
            p = prune_selected_nodes(g2, t)
            if any(n.target in t for n in p.nodes):
                viol.append({"name": "C19:bounded:prune_selected_nodes:selected_target_survived", "module": cls.__name__, "reproduced": True})
        except Exception as e:
            viol.append({"name": "C19:bounded:prune_selected_nodes:never_raises", "module": cls.__name__, "error": f"{type(e).__name__}: {e}"[:200], "reproduced": True})
    print(json.dumps({"name": "c19-tracked-graphs", "kind": "BOUNDED stand-in (real track_scales graphs of a fixed family of small modules); not counted as proved", "ok": not viol, "obligations": 0, "discharged": 0, "evaluations": n_eval, "bound": f"{len(FAMILY)} modules (cat/stack, keyword tensor args, integer index tensors, views/negations, multi-output) x {len(rtols)} tolerances + selective pruning", "violations": viol[:8]}))


if __name__ == "__main__":
    main()
