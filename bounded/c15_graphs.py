#!/venv/bin/python
"""BOUNDED stand-in for the whole-graph clause of C15 (never counted as proved): the real
quantisation backend is run on hand-built torch.fx graphs (<= 4 call nodes over
{F.linear, U.linear, F.scaled_dot_product_attention, U.scaled_dot_product_attention,
relu, add}) and the rewritten GraphModule is compared -- outputs and all gradients,
bit for bit -- with a reference evaluation of the same program that inserts
quantise_fwd / quantise_bwd by hand.  Formats: nearest rounding (deterministic) and the
lossless E8M23 (must reproduce the unquantised program exactly).  This validates the
assumed fx contracts end to end.  The real TorchDynamo path is exercised on a few small
modules whose ROOT is a container, a bare nn.Linear, or an nn.Sequential (the property's
"root module either a container or itself a torch.nn layer"): simulate_format(module) vs
the hand-inserted reference, outputs and all gradients, bit for bit."""
import argparse
import itertools
import json
import sys

import torch
import torch.fx as fx
import torch.nn as nn
import torch.nn.functional as F

sys.path.insert(0, "/repo")
import unit_scaling.functional as U  # noqa: E402
from unit_scaling.formats import FPFormat  # noqa: E402
from unit_scaling.transforms._simulate_format import _quantisation_backend  # noqa: E402

OPS = {
    "F.linear": (F.linear, "linear"),
    "U.linear": (U.linear, "linear"),
    "F.sdpa": (F.scaled_dot_product_attention, "sdpa"),
    "U.sdpa": (U.scaled_dot_product_attention, "sdpa"),
    "relu": (torch.relu, "unary"),
    "add": (torch.add, "binary"),
}


class Params(nn.Module):
    def __init__(self, d):
        super().__init__()
        g = torch.Generator().manual_seed(1)
        self.w = nn.Parameter(torch.randn(d, d, generator=g))
        self.b = nn.Parameter(torch.randn(d, generator=g))


def build(prog, d):
    """prog: list of op names applied in sequence to the running value h (input x)"""
    root = Params(d)
    g = fx.Graph()
    x = g.placeholder("x")
    w = g.get_attr("w")
    b = g.get_attr("b")
    h = x
    for i, op in enumerate(prog):
        fn, kind = OPS[op]
        if kind == "linear":
            h = g.call_function(fn, (h, w, b) if i % 2 == 0 else (h, w, None))
        elif kind == "sdpa":
            h = g.call_function(fn, (h, h, h), {"is_causal": bool(i % 2)})
        elif kind == "unary":
            h = g.call_function(fn, (h,))
        else:
            h = g.call_function(fn, (h, x))
    g.output((h,))
    return fx.GraphModule(root, g), root


def reference(prog, root, x, fwd, bwd):
    h = x
    for i, op in enumerate(prog):
        fn, kind = OPS[op]
        if kind == "linear":
            bias = root.b if i % 2 == 0 else None
            h = bwd.quantise_bwd(fn(fwd.quantise_fwd(h), fwd.quantise_fwd(root.w), bias))
        elif kind == "sdpa":
            q = fwd.quantise_fwd(h)
            h = bwd.quantise_bwd(fn(q, fwd.quantise_fwd(h), fwd.quantise_fwd(h), is_causal=bool(i % 2)))
        elif kind == "unary":
            h = fn(h)
        else:
            h = fn(h, x)
    return h


def main():
    ap = argparse.ArgumentParser()
    ap.add_argument("--tier", default="quick")
    ap.add_argument("--seed", type=int, default=0)
    a = ap.parse_args()
    max_len = 2 if a.tier == "quick" else 4
    names = list(OPS)
    progs = [p for n in range(1, max_len + 1) for p in itertools.product(names, repeat=n) if any(OPS[o][1] in ("linear", "sdpa") for o in p)]
    if a.tier != "quick":
        progs = progs[:: max(1, len(progs) // 400)]
    # the third pair uses EQUAL lossy formats in both directions (seeded change C15-7: per-format caches shared by
    # the two straight-through functions); the reference side always works on FRESH format objects
    fmts = [(FPFormat(4, 3, "nearest"), FPFormat(5, 2, "nearest")), (FPFormat(8, 23, "nearest"), FPFormat(8, 23)), (FPFormat(5, 2, "nearest"), FPFormat(5, 2, "nearest"))]

    def fresh(f):
        return FPFormat(f.exponent_bits, f.mantissa_bits, f.rounding, f.srbits)
    viol, n = [], 0
    d = 4
    for prog in progs:
        for fwd, bwd in fmts:
            n += 1
            torch.manual_seed(a.seed)
            x1 = torch.randn(2, 3, d, requires_grad=True)
            gm, root = build(prog, d)
            try:
                new = _quantisation_backend(fwd, bwd)(gm, [x1])
                (y1,) = new(x1)
                gx1, gw1, gb1 = torch.autograd.grad(y1.sum(), [x1, root.w, root.b], allow_unused=True)
                x2 = x1.detach().clone().requires_grad_(True)
                y2 = reference(prog, root, x2, fresh(fwd), fresh(bwd))
                gx2, gw2, gb2 = torch.autograd.grad(y2.sum(), [x2, root.w, root.b], allow_unused=True)
                same = torch.equal(y1, y2) and all((p is None and q is None) or (p is not None and q is not None and torch.equal(p, q)) for p, q in ((gx1, gx2), (gw1, gw2), (gb1, gb2)))
                if fwd.mantissa_bits == 23:
                    # lossless: must equal the ORIGINAL program bit for bit
                    gm0, root0 = build(prog, d)
                    x3 = x1.detach().clone().requires_grad_(True)
                    (y3,) = gm0(x3)
                    same = same and torch.equal(y1, y3)
                if not same:
                    viol.append({"name": "C15:bounded:graph_rewrite_equals_hand_inserted_quantisation", "program": list(prog), "formats": [str(fwd), str(bwd)], "reproduced": True})
            except Exception as e:
                viol.append({"name": "C15:bounded:backend_raises", "program": list(prog), "error": f"{type(e).__name__}: {e}"[:200], "reproduced": True})
    # ---- the real TorchDynamo path: root = container / torch.nn layer
    from unit_scaling.transforms import simulate_format

    def qlin(lin, h, fwd, bwd):
        return bwd.quantise_bwd(F.linear(fwd.quantise_fwd(h), fwd.quantise_fwd(lin.weight), lin.bias))

    class Wrap(nn.Module):
        def __init__(self):
            super().__init__()
            self.l = nn.Linear(d, d)

        def forward(self, x):
            return torch.relu(self.l(x))

    roots = {
        "container": (Wrap, lambda m, x, f, b: torch.relu(qlin(m.l, x, f, b))),
        "bare nn.Linear": (lambda: nn.Linear(d, d), lambda m, x, f, b: qlin(m, x, f, b)),
        "nn.Sequential": (lambda: nn.Sequential(nn.Linear(d, d), nn.ReLU(), nn.Linear(d, d)), lambda m, x, f, b: qlin(m[2], torch.relu(qlin(m[0], x, f, b)), f, b)),
    }
    for rname, (mk, ref) in roots.items():
        for fwd, bwd in fmts:
            n += 1
            torch.manual_seed(a.seed + 1)
            m = mk()
            x1 = torch.randn(3, d, requires_grad=True)
            try:
                q = simulate_format(m, fwd, bwd)
                y1 = q(x1)
                g1 = torch.autograd.grad(y1.sum(), [x1] + list(q.parameters()))
                x2 = x1.detach().clone().requires_grad_(True)
                y2 = ref(m, x2, fresh(fwd), fresh(bwd))
                g2 = torch.autograd.grad(y2.sum(), [x2] + list(m.parameters()))
                same = torch.equal(y1, y2) and all(torch.equal(p_, q_) for p_, q_ in zip(g1, g2))
                if fwd.mantissa_bits == 23:
                    same = same and torch.equal(y1, m(x1))
                if not same:
                    viol.append({"name": f"C15:bounded:simulate_format_through_TorchDynamo_equals_hand_inserted_quantisation[root={rname}]", "formats": [str(fwd), str(bwd)], "max_abs_diff": float((y1 - y2).abs().max()), "equals_unquantised": bool(torch.equal(y1, m(x1))), "reproduced": True})
            except Exception as e:
                viol.append({"name": f"C15:bounded:simulate_format_raises[root={rname}]", "error": f"{type(e).__name__}: {e}"[:200], "reproduced": True})
    print(json.dumps({"name": "c15-fx-graphs", "kind": "BOUNDED stand-in (hand-built fx graphs, real backend vs hand-inserted quantisation); not counted as proved", "ok": not viol, "obligations": 0, "discharged": 0, "evaluations": n, "bound": f"all programs of <= {max_len} call nodes over {names} that contain a linear/attention op ({len(progs)} programs) x 3 format pairs (incl. equal lossy formats in both directions)", "violations": viol[:5]}))


if __name__ == "__main__":
    main()
