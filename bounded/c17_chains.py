#!/venv/bin/python
"""BOUNDED stand-in for the end-to-end clauses of C17 (never counted as proved): chains of
the real transforms (TorchDynamo) on small modules.  For each chain: the ORIGINAL module's
state_dict, outputs and gradients are unchanged; no parameter storage is shared with the
result; the result gives the same output on repeated calls; the backend list has unit
scaling before quantisation; simulate_fp8(unit_scale(m)) and unit_scale(simulate_fp8(m))
agree given equal parameters (nearest / lossless formats, deterministic)."""
import argparse
import copy
import json
import sys

import torch
import torch.nn as nn
import torch.nn.functional as F

sys.path.insert(0, "/repo")
from unit_scaling.formats import FPFormat  # noqa: E402
from unit_scaling.transforms import simulate_format, unit_scale  # noqa: E402


class MLP(nn.Module):
    def __init__(self):
        super().__init__()
        self.a, self.b = nn.Linear(4, 8), nn.Linear(8, 4)

    def forward(self, x):
        return self.b(F.gelu(self.a(x)))


class Res(nn.Module):
    def __init__(self):
        super().__init__()
        self.l = nn.Linear(4, 4)

    def forward(self, x):
        return x + self.l(F.layer_norm(x, (4,)))


def sim(m):
    return simulate_format(m, FPFormat(4, 3, "nearest"), FPFormat(5, 2, "nearest"))


CHAINS = {"U": [unit_scale], "Q": [sim], "UQ": [unit_scale, sim], "QU": [sim, unit_scale]}


def run(m, x):
    x = x.detach().clone().requires_grad_(True)
    y = m(x)
    y.sum().backward()
    return y.detach().clone(), x.grad.clone()


def main():
    ap = argparse.ArgumentParser()
    ap.add_argument("--tier", default="quick")
    ap.add_argument("--seed", type=int, default=0)
    a = ap.parse_args()
    viol, n = [], 0
    mods = [MLP] if a.tier == "quick" else [MLP, Res]
    for cls in mods:
        torch.manual_seed(a.seed)
        m = cls()
        x = torch.randn(3, 4)
        sd0 = copy.deepcopy(m.state_dict())
        y0, g0 = run(m, x)
        results = {}
        for name, chain in CHAINS.items():
            n += 1
            try:
                t = m
                for f in chain:
                    t = f(t)
                y1, g1 = run(t, x)
                y2, g2 = run(t, x)
                if not (torch.equal(y1, y2) and torch.equal(g1, g2)):
                    viol.append({"name": "C17:bounded:same_result_on_repeated_calls", "chain": name, "module": cls.__name__, "reproduced": True})
                ya, ga = run(m, x)
                if not (all(torch.equal(sd0[k], v) for k, v in m.state_dict().items()) and torch.equal(ya, y0) and torch.equal(ga, g0)):
                    viol.append({"name": "C17:bounded:original_untouched", "chain": name, "module": cls.__name__, "reproduced": True})
                if {p.data_ptr() for p in t.parameters()} & {p.data_ptr() for p in m.parameters()}:
                    viol.append({"name": "C17:bounded:no_shared_storage", "chain": name, "module": cls.__name__, "reproduced": True})
                names = [getattr(b, "__qualname__", type(b).__name__) for b in t.backends]
                iu = [i for i, q in enumerate(names) if "unit_scaling_backend" in q]
                iq = [i for i, q in enumerate(names) if "quantisation_backend" in q]
                if iu and iq and iu[0] > iq[0]:
                    viol.append({"name": "C17:bounded:unit_scaling_before_quantisation", "chain": name, "backends": names, "reproduced": True})
                if len(names) != len(chain):
                    viol.append({"name": "C17:bounded:each_transform_exactly_once", "chain": name, "backends": names, "reproduced": True})
                results[name] = (t, y1, g1)
            except Exception as e:
                viol.append({"name": "C17:bounded:chain_runs", "chain": name, "module": cls.__name__, "error": f"{type(e).__name__}: {e}"[:300], "reproduced": True})
        if "UQ" in results and "QU" in results:
            n += 1
            tu, tq = results["UQ"][0], results["QU"][0]
            tq.load_state_dict(tu.state_dict())  # equal parameters (unit_scale re-initialises weights from their std)
            tq.rerun_transform = True
            ya, ga = run(tu, x)
            yb, gb = run(tq, x)
            if not (torch.allclose(ya, yb, rtol=0, atol=0) and torch.allclose(ga, gb, rtol=0, atol=0)):
                viol.append({"name": "C17:bounded:both_orders_compute_the_same_function", "module": cls.__name__, "max_abs_diff": float((ya - yb).abs().max()), "reproduced": True})
    print(json.dumps({"name": "c17-chains", "kind": "BOUNDED stand-in (real transform chains through TorchDynamo on small modules); not counted as proved", "ok": not viol, "obligations": 0, "discharged": 0, "evaluations": n, "bound": f"{len(mods)} modules x chains {list(CHAINS)} + order-independence", "violations": viol[:6]}))


if __name__ == "__main__":
    main()
