#!/venv/bin/python
"""BOUNDED stand-in for C16 on the REAL code (never counted as proved):

 1. the real U.torch_map, the C-builtin classification and the parameter lists assumed by
    contracts/jobs_unitscale.py equal the real objects;
 2. the real unit_scaling_backend on the real torch.fx graph of every graph of the families
    of contracts/jobs_unitscale.py equals the recipe (contracts/refs_c16.py) -- the same
    decision the VC side takes on the model graph, so this also cross-checks the assumed
    torch.fx contracts (pyvc/fxmodel.py) jointly with the symbolic executor;
 3. end to end through TorchDynamo: unit_scale(module) computes the same outputs and
    gradients as the module converted BY HAND with the User-Guide recipe (same weights),
    on small modules covering: residual MLP block, softmax branch (tau 0.01), skip tensor
    that is a plain sum of two embeddings, a plain add after the last residual block,
    tensor + scalar, in-place add, torch.nn wrappers, unmapped ops, user replacements.
"""
import argparse
import copy
import json
import os
import sys

import torch
import torch.nn as nn
import torch.nn.functional as F

ROOT = os.path.dirname(os.path.dirname(os.path.abspath(__file__)))
sys.path.insert(0, ROOT)
sys.path.insert(0, os.path.join(ROOT, "replay"))
sys.path.insert(0, "/repo")

import replay_c16 as RC  # noqa: E402

import unit_scaling.functional as U  # noqa: E402
from unit_scaling.transforms import unit_scale  # noqa: E402

D = 8


class ResMLP(nn.Module):
    def __init__(self):
        super().__init__()
        self.a, self.b = nn.Linear(D, D), nn.Linear(D, D)

    def forward(self, x):
        return x + self.b(F.gelu(self.a(x)))

    def by_hand(self, x):
        r, s = U.residual_split(x, 0.5)
        h = U.linear(U.gelu(U.linear(r, self.a.weight, self.a.bias)), self.b.weight, self.b.bias)
        return U.residual_add(h, s, 0.5)


class SoftmaxBranchThenHead(nn.Module):
    def __init__(self):
        super().__init__()
        self.q, self.head = nn.Linear(D, D), nn.Linear(D, D)
        self.sm = nn.Softmax(dim=-1)  # the torch.nn wrapper passes `_stacklevel` to F.softmax

    def forward(self, x):
        h = self.sm(self.q(x)) + x
        return self.head(torch.tanh(h)) + 1.5

    def by_hand(self, x):
        r, s = U.residual_split(x, 0.01)
        h = U.residual_add(U.softmax(U.linear(r, self.q.weight, self.q.bias), dim=-1), s, 0.01)
        return U.add(U.linear(torch.tanh(h), self.head.weight, self.head.bias, constraint=None), 1.5, constraint=None)


class EmbeddingSum(nn.Module):
    def __init__(self):
        super().__init__()
        self.tok, self.pos, self.l = nn.Embedding(10, D), nn.Embedding(10, D), nn.Linear(D, D)

    def forward(self, i):
        skip = self.tok(i) + self.pos(i)
        h = skip + F.silu(self.l(skip))
        h += 2.0
        return h

    def by_hand(self, i):
        skip = U.add(U.embedding(i, self.tok.weight), U.embedding(i, self.pos.weight), constraint=None)
        r, s = U.residual_split(skip, 0.5)
        h = U.residual_add(U.silu(U.linear(r, self.l.weight, self.l.bias)), s, 0.5)
        return U.add(h, 2.0, constraint=None)


class TwoBlocksWrappers(nn.Module):
    def __init__(self):
        super().__init__()
        self.ln, self.a, self.act, self.b = nn.LayerNorm(D), nn.Linear(D, D), nn.GELU(), nn.Linear(D, D)

    def forward(self, x):
        x = x + self.act(self.a(self.ln(x)))
        x = self.b(x).relu() + x
        return x * 2.0

    def by_hand(self, x):
        r, s = U.residual_split(x, 0.5)
        x = U.residual_add(U.gelu(U.linear(U.layer_norm(r, (D,), self.ln.weight, self.ln.bias), self.a.weight, self.a.bias)), s, 0.5)
        r, s = U.residual_split(x, 0.5)
        x = U.residual_add(U.linear(r, self.b.weight, self.b.bias).relu(), s, 0.5)
        return x * 2.0


def my_op(x, constraint="to_output_scale"):
    return x * 3.0


def my_scaled_op(x, constraint="to_output_scale"):
    return x * (3.0 if constraint else 1.0)


class UserOp(nn.Module):
    def __init__(self):
        super().__init__()
        self.l = nn.Linear(D, D)

    def forward(self, x):
        return F.gelu(my_op(self.l(x)))

    def by_hand(self, x):
        return my_scaled_op(U.gelu(my_scaled_op(U.linear(x, self.l.weight, self.l.bias, constraint=None), constraint=None), constraint=None), constraint=None) if False else U.gelu(my_scaled_op(U.linear(x, self.l.weight, self.l.bias, constraint=None), constraint=None), constraint=None)


def run(fn, x):
    if x.is_floating_point():
        x = x.detach().clone().requires_grad_(True)
    y = fn(x)
    y.sum().backward()
    return y.detach().clone(), (x.grad.clone() if x.is_floating_point() else None)


def end_to_end(cls, seed, replace=None):
    torch.manual_seed(seed)
    m = cls()
    x = torch.randint(0, 10, (6,)) if cls is EmbeddingSum else torch.randn(6, D)
    try:
        t = unit_scale(m, replace=replace or {})
        y, gx = run(t, x)
        gp = {n: p.grad.clone() for n, p in t.named_parameters()}
    except Exception as e:
        return f"unit_scale({cls.__name__}) raises {type(e).__name__}: {str(e)[:200]}"
    # the hand conversion with the SAME (re-initialised) weights
    h = copy.deepcopy(m)
    h.load_state_dict(t.state_dict(), strict=False)
    for (n, p), (n2, p2) in zip(h.named_parameters(), t.named_parameters()):
        p.data = p2.data.clone()
    h.zero_grad()
    y2, gx2 = run(h.by_hand, x)
    gp2 = {n: p.grad.clone() for n, p in h.named_parameters() if p.grad is not None}
    if not torch.allclose(y, y2, rtol=1e-5, atol=1e-6):
        return f"unit_scale({cls.__name__}) output differs from the hand conversion: max |d| = {(y - y2).abs().max().item():.3e}"
    if gx is not None and not torch.allclose(gx, gx2, rtol=1e-5, atol=1e-6):
        return f"unit_scale({cls.__name__}) input gradient differs from the hand conversion: max |d| = {(gx - gx2).abs().max().item():.3e}"
    for n in gp2:
        if not torch.allclose(gp[n], gp2[n], rtol=1e-5, atol=1e-6):
            return f"unit_scale({cls.__name__}) gradient of {n} differs from the hand conversion: max |d| = {(gp[n] - gp2[n]).abs().max().item():.3e}"
    # weights re-initialised in the copy only
    for n, mod in t.named_modules():
        if isinstance(mod, (nn.Linear, nn.Embedding)):
            if abs(mod.weight.std().item() - 1.0) > 1e-4:
                return f"{cls.__name__}.{n}.weight not unit variance after unit_scale"
            if getattr(mod, "bias", None) is not None and mod.bias.abs().max().item() != 0.0:
                return f"{cls.__name__}.{n}.bias not zero after unit_scale"
    return None


def main():
    ap = argparse.ArgumentParser()
    ap.add_argument("--tier", default="quick")
    ap.add_argument("--seed", type=int, default=0)
    a = ap.parse_args()
    viol, n = [], 0
    sys.argv = ["replay_c16.py", "torch_map"]
    import contextlib
    import io

    buf = io.StringIO()
    with contextlib.redirect_stdout(buf):
        rc = RC.main()
    n += 1
    if rc != 0:
        viol.append({"name": "C16:functional.torch_map:equals_the_name_based_table_assumed_by_the_contracts", "detail": buf.getvalue()[-500:], "reproduced": True})
    counts = {}
    for label, g, rep in RC.R.families(a.tier):
        v, d = RC.run_one(g, rep)
        counts[v] = counts.get(v, 0) + 1
        if v in ("deviates", "raises") and len(viol) < 5:
            viol.append({"name": f"C16:transforms._unit_scale.unit_scaling_backend:real_fx_graph_equals_the_recipe[{label}]", "detail": d[:800], "graph": g, "replace": rep, "reproduced": True})
    n += sum(c for k, c in counts.items() if k != "outside-precondition")
    e2e = 0
    for cls, rep in ((ResMLP, None), (SoftmaxBranchThenHead, None), (EmbeddingSum, None), (TwoBlocksWrappers, None), (UserOp, {my_op: my_scaled_op})):
        for s in range(1 if a.tier == "quick" else 3):
            e2e += 1
            msg = end_to_end(cls, a.seed + s, rep)
            if msg:
                viol.append({"name": f"C16:transforms._unit_scale.unit_scale:equals_hand_conversion[{cls.__name__}]", "detail": msg, "reproduced": True})
                break
    n += e2e
    ok = not viol
    print(json.dumps({"ok": ok, "obligations": n, "discharged": n - len(viol) if ok else 0, "detail": f"torch_map + classification validated; real fx sweep {counts}; {e2e} end-to-end comparisons with hand conversions through TorchDynamo", "violations": viol}, default=str))
    return 0


if __name__ == "__main__":
    sys.exit(main())
