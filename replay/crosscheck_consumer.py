#!/venv/bin/python
"""Consumer half of the engine cross-check: measures k and b_i on the real code."""
import json
import os
import sys

sys.path.insert(0, os.path.dirname(os.path.abspath(__file__)))
import replay as R  # noqa: E402


def main():
    cases = json.load(open(sys.argv[1]))
    mism, n, max_rel = [], 0, 0.0
    for c in cases:
        try:
            m = R.measure_op(c["op"], c["cfg"], c["witness"], 0)
        except Exception as e:
            mism.append(f"{c['op']}{c['cfg']}: real code raised {type(e).__name__}: {e}"[:200])
            continue
        pairs = [("k", c["k"], m["k"], m["k_spread"])] + [(f"b[{n_}]", v, m["b"].get(n_, (None, 0))[0], m["b"].get(n_, (None, 0))[1]) for n_, v in c["b"].items()]
        for name, sym, real, spread in pairs:
            if sym is None or real is None:
                continue
            n += 1
            rel = abs(sym - real) / max(abs(real), 1e-30)
            max_rel = max(max_rel, rel)
            # (rms_norm computes its statistics in float32 whatever the input dtype: elementwise ratios on
            # small entries carry ~1e-5 of noise; a modelling mistake shows up as an O(1) difference)
            if rel > 2e-5 or spread > 5e-4:
                mism.append(f"{c['op']}{c['cfg']} {name}: symbolic {sym!r} vs measured {real!r} (spread {spread:.2g}) witness {c['witness']}"[:400])
    print(json.dumps({"compared": n, "mismatches": mism[:10], "max_rel": max_rel}))


if __name__ == "__main__":
    main()
