#!/venv/bin/python
"""Replay a counter-model on the REAL code (run with /venv/bin/python; torch present, no z3).

usage: replay.py <replay.json>     exit 1 = the violation reproduces on the real code
                                   exit 0 = it does not (or the witness is not realisable)
The file names the failed obligation, the function, its discrete configuration and the
verifier's counter-model (witness).  Handlers rebuild concrete inputs from the witness,
call the real unit_scaling function and the reference, and evaluate the failed clause.
"""
from __future__ import annotations

import json
import math
import os
import sys
from fractions import Fraction

sys.path.insert(0, os.path.dirname(os.path.dirname(os.path.abspath(__file__))))
REPO = os.environ.get("VERIF_REPO", "/repo")
sys.path.insert(0, REPO)

import torch  # noqa: E402
import torch.nn.functional as F  # noqa: E402


def num(s, default=None):
    if s is None:
        return default
    s = str(s).strip()
    if s.endswith("?"):
        s = s[:-1]
    try:
        if "/" in s:
            return float(Fraction(s.replace(" ", "")))
        return float(s)
    except Exception:
        return default


def ival(w, name, default):
    v = num(w.get(name))
    return default if v is None else int(round(v))


def rval(w, name, default):
    v = num(w.get(name))
    return default if v is None else float(v)


def run_dims(w, name, default_n=1, default_p=3):
    """dims of an abstract run: n dims with product P"""
    n = ival(w, name + ".n", default_n)
    p = ival(w, name + ".P", default_p)
    n = max(0, min(n, 3))
    if n == 0:
        return []
    p = max(1, min(p, 64))
    return [p] + [1] * (n - 1)


def T(shape, seed, dtype=torch.float64, grad=True):
    g = torch.Generator().manual_seed(seed)
    t = torch.randn(*shape, generator=g, dtype=dtype)
    return t.requires_grad_(grad)


# ----------------------------------------------------------------------------------
# functional ops


def build_op_args(name, cfg, w, seed):
    con = cfg.get("constraint", None)
    a = {}
    if name in ("gelu", "silu"):
        a = dict(input=T(run_dims(w, "a") or [], seed), mult=rval(w, "mult", 1.5))
        if name == "gelu":
            a["approximate"] = "none"
    elif name == "silu_glu":
        sh = run_dims(w, "a") or []
        a = dict(input=T(sh, seed), gate=T(sh, seed + 1), mult=rval(w, "mult", 1.5))
    elif name == "softmax":
        sh = run_dims(w, "a", 2, 6) or [4]
        sh = [max(2, d) if i == 0 else d for i, d in enumerate(sh)]
        d = ival(w, "dim", -1)
        d = max(-len(sh), min(d, len(sh) - 1))
        a = dict(input=T(sh, seed), dim=d, dtype=None if cfg.get("dtype") == "None" else torch.float64, mult=rval(w, "mult", 1.5))
    elif name == "dropout":
        a = dict(input=T(run_dims(w, "a") or [4], seed), p=rval(w, "p", 0.25), training=False)
    elif name == "matmul":
        b = run_dims(w, "batch", 1, 2)
        m, k, n = ival(w, "left_size", 3), ival(w, "inner_size", 4), ival(w, "right_size", 5)
        a = dict(left=T(b + [m, k], seed), right=T(b + [k, n], seed + 1))
    elif name in ("linear", "linear_readout"):
        b = run_dims(w, "batch", 2, 6)
        fi, fo = ival(w, "fan_in", 4), ival(w, "fan_out", 3)
        a = dict(input=T(b + [fi], seed), weight=T([fo, fi], seed + 1), bias=T([fo], seed + 2) if cfg.get("bias") else None)
        if cfg.get("scale_power") == "symbolic":
            a["scale_power"] = tuple(rval(w, f"scale_power{i}", 0.5) for i in range(3))
    elif name == "conv1d":
        cg, og, g, K = ival(w, "in_channels_per_group", 2), ival(w, "out_channels_per_group", 2), ival(w, "groups", 1), ival(w, "kernel_size", 2)
        L, st, dil, pad = ival(w, "seq_len", 8), ival(w, "stride", 1), ival(w, "dilation", 1), ival(w, "padding", 0)
        lead = [ival(w, "batch", 2)] if cfg.get("batched") else []
        a = dict(input=T(lead + [cg * g, L], seed), weight=T([og * g, cg, K], seed + 1), bias=T([og * g], seed + 2) if cfg.get("bias") else None, stride=st, padding=pad, dilation=dil, groups=g)
    elif name in ("layer_norm", "rms_norm"):
        k = cfg["norm_rank"]
        ns = [ival(w, f"norm_dim{i}", 3) for i in range(k)]
        rows = run_dims(w, "rows", 1, 4)
        a = dict(input=T(rows + ns, seed), normalized_shape=tuple(ns), weight=T(ns, seed + 1) if cfg.get("weight") else None, eps=rval(w, "eps", 1e-5))
        if name == "layer_norm":
            a["bias"] = T(ns, seed + 2) if cfg.get("bias") else None
    elif name == "add":
        kind = cfg["kind"]
        if kind == "tensor+float":
            a = dict(input=T(run_dims(w, "a") or [3], seed), other=rval(w, "other", 0.5))
        elif kind == "int+tensor":
            a = dict(input=ival(w, "input", 2), other=T(run_dims(w, "b") or [3], seed))
        else:
            pa, pb = ival(w, "a.P", 3), ival(w, "b.P", 3)
            if kind == "same_shape":
                sa = sb = [max(2, pa)]
            elif kind == "single_element":
                sa, sb = ([1], [max(1, pb)]) if pa == 1 else ([max(1, pa)], [1])
            else:
                # two broadcast-compatible shapes with the witness' element counts
                sa, sb = [max(2, pa), 1], [1, max(2, pb)]
            a = dict(input=T(sa, seed), other=T(sb, seed + 1))
            if cfg.get("out"):
                a["out"] = torch.empty(torch.broadcast_shapes(tuple(sa), tuple(sb)), dtype=torch.float64)
    elif name == "embedding":
        V, D = ival(w, "vocab", 5), ival(w, "embedding_dim", 3)
        idx_shape = run_dims(w, "idx", 1, 7) or [4]
        g = torch.Generator().manual_seed(seed)
        idx = torch.randint(0, V, idx_shape, generator=g)
        pi = None
        if cfg.get("padding_idx") == "given":
            pi = max(-V, min(ival(w, "padding_idx", 0), V - 1))
        if pi is not None and w.get("_half_padding"):
            idx.reshape(-1)[::2] = pi % V  # data extreme: every other token is the padding token
        a = dict(input=idx, weight=T([V, D], seed + 1), padding_idx=pi, max_norm=rval(w, "max_norm", 1.0) if cfg.get("max_norm") == "given" else None, norm_type=rval(w, "norm_type", 2.0))
    elif name == "scaled_dot_product_attention":
        b = run_dims(w, "batch_heads", 2, 2)
        sq, s, d = ival(w, "seq_q", 4), ival(w, "seq_len", 4), ival(w, "d_head", 3)
        if cfg.get("is_causal"):
            s = max(2, s)
            sq = max(1, sq)  # PyTorch's is_causal mask is top-left aligned: query and key lengths may differ
        a = dict(query=T(b + [sq, d], seed), key=T(b + [s, d], seed + 1), value=T(b + [s, d], seed + 2), attn_mask=None, dropout_p=0.0, is_causal=bool(cfg.get("is_causal")), mult=rval(w, "mult", 1.5))
    elif name == "cross_entropy":
        V = max(2, ival(w, "vocab_size", 5))
        ii = ival(w, "ignore_index", -100)
        g = torch.Generator().manual_seed(seed)
        if cfg["rank"] == 2:
            B = max(1, ival(w, "batch_size", 4))
            x = T([B, V], seed)
            t = torch.randint(0, V, (B,), generator=g)
            # witness class: n_valid < batch  <=>  some target equals ignore_index
            nv = None
            for k_, v_ in w.items():
                if "n_valid" in k_:
                    nv = ival(w, k_, B)
            B = max(B, 4)
            x = T([B, V], seed)
            t = torch.randint(0, V, (B,), generator=g)
            # the number of ignored targets differs between the two draws (data dependence shows)
            n_ign = B - nv if nv is not None else (1 + (seed // 1000) % 2)
            n_ign = max(0, min(n_ign, B - 1))
            if n_ign:
                t[:n_ign] = ii
        else:
            x = T([V], seed)
            t = torch.randint(0, V, (), generator=g)
        a = dict(input=x, target=t, ignore_index=ii, reduction=cfg["reduction"], mult=rval(w, "mult", 1.5))
    elif name == "mse_loss":
        sh = run_dims(w, "a") or [4]
        a = dict(input=T(sh, seed), target=T(sh, seed + 1), reduction=cfg["reduction"])
    else:
        raise SystemExit(f"replay: no builder for op {name}")
    if "constraint" in cfg:
        a["constraint"] = con
    return a


def ratio_stats(x, y):
    """elementwise ratio x/y on entries where |y| is not tiny: (median, relative spread)"""
    x, y = x.detach().double().flatten(), y.detach().double().flatten()
    if x.shape != y.shape:
        return None, float("inf")
    m = y.abs() > 1e-9 * max(1.0, float(y.abs().max()))
    if m.sum() == 0:
        return (1.0, 0.0) if float(x.abs().max()) < 1e-12 else (None, float("inf"))
    r = x[m] / y[m]
    med = float(r.median())
    spread = float((r - med).abs().max()) / max(abs(med), 1e-300)
    return med, spread


def measure_op(name, cfg, w, seed, override=None):
    from contracts.refs import REFS

    import unit_scaling.functional as U

    spec = REFS[name]
    args = build_op_args(name, cfg, w, seed)
    if override:
        args.update(override)
    before = {k: v.detach().clone() for k, v in args.items() if isinstance(v, torch.Tensor) and k != "out"}
    torch.manual_seed(seed)
    out = getattr(U, name)(**args)
    env = dict(args)
    env.update(F=F, torch=torch)
    env.setdefault("bias", None)
    torch.manual_seed(seed)
    ref = eval(spec["ref"], env)
    res = {"out": out, "ref": ref, "args": args}
    res["k"], res["k_spread"] = ratio_stats(out, ref)
    res["unchanged"] = all(torch.equal(before[k], args[k].detach()) for k in before)
    g = torch.Generator().manual_seed(seed + 99)
    up = torch.randn(out.shape, generator=g, dtype=out.dtype) if out.dim() else torch.tensor(1.0, dtype=out.dtype)
    diff = [n for n in spec["diff"] if isinstance(args.get(n), torch.Tensor) and args[n].requires_grad]
    if diff:
        gs = torch.autograd.grad(out, [args[n] for n in diff], up, allow_unused=True, retain_graph=True)
        torch.manual_seed(seed)
        refg = eval(spec.get("ref_grad") or spec["ref"], env)
        gr = torch.autograd.grad(refg, [args[n] for n in diff], up if refg.dim() else torch.tensor(1.0, dtype=refg.dtype), allow_unused=True)
        res["b"] = {}
        for n, a_, b_ in zip(diff, gs, gr):
            if a_ is None or b_ is None:
                res["b"][n] = (None, float("inf"))
            else:
                res["b"][n] = ratio_stats(a_, b_)
    return res


def measured_terms(name, cfg, args, which):
    """Term counts measured on all-ones tensors with the reference torch op."""
    from contracts.refs import REFS

    ones = {k: (torch.ones_like(v, dtype=torch.float64).requires_grad_(True) if isinstance(v, torch.Tensor) and v.is_floating_point() else v) for k, v in args.items()}
    if "bias" in ones and isinstance(ones["bias"], torch.Tensor):
        ones["bias"] = torch.zeros_like(ones["bias"]).requires_grad_(True)
    env = dict(ones)
    env.update(F=F, torch=torch)
    env.setdefault("bias", None)
    if name == "dropout":
        return 1.0 / (1.0 - args["p"])
    if name == "mse_loss":
        return 8.0
    if name == "embedding":
        return args["input"].numel() / args["weight"].shape[0]
    spec = REFS[name]
    out = eval(spec["ref"], env)
    if which == "out":
        if name == "add":
            return 2.0
        return float(out.flatten().max())
    (g,) = torch.autograd.grad(out, [ones[which]], torch.ones_like(out), allow_unused=True)
    if name in ("layer_norm", "rms_norm"):
        return args["input"].numel() / max(1, math.prod(args["normalized_shape"]))
    if name == "conv1d" and which == "input":
        # "exact at interior positions": average the term count over positions away from both edges
        K, dil = args["weight"].shape[-1], args.get("dilation", 1)
        ext = (K - 1) * dil
        L = g.shape[-1]
        inner = g[..., ext : L - ext] if L - 2 * ext >= 1 else g
        return float(inner.mean())
    return float(g.flatten().max())


def rule_value(name, scales):
    n = len(scales)
    if name == "gmean":
        return math.prod(scales) ** (1 / n)
    if name == "hmean":
        return n / sum(1 / s for s in scales)
    if name == "amean":
        return sum(scales) / n
    return {"to_output_scale": 0, "to_grad_input_scale": 1, "to_left_grad_scale": 1, "to_right_grad_scale": 2}[name] and scales[{"to_output_scale": 0, "to_grad_input_scale": 1, "to_left_grad_scale": 1, "to_right_grad_scale": 2}[name]] or scales[0]


def replay_op(rj):
    from contracts.refs import REFS

    name = rj["function"].rsplit(".", 1)[-1]
    cfg, w, ob = rj["cfg"], rj.get("witness") or {}, rj["obligation"]
    clause = ob.split(":", 2)[2]
    tol = 1e-8
    seed = int(rj.get("seed", 0))
    mm = __import__("re").match(r"parameter_(\w+)_used_or_rejected", clause)
    if mm:
        # does the result depend on this parameter at all?  (two values, everything else equal)
        pname = mm.group(1)
        import unit_scaling.functional as U_

        base = build_op_args(name, cfg, w, seed)
        if pname not in base:
            return False, f"parameter {pname} is not part of the replay's argument builder"
        alts = {"ignore_index": [0, 1], "padding_idx": [0, 1], "eps": [1e-5, 0.5], "p": [0.0, 0.5], "dim": [0, -1], "mult": [0.5, 2.0], "dropout_p": [0.0, 0.0], "max_norm": [0.1, 10.0], "norm_type": [1.0, 2.0], "stride": [1, 2], "padding": [0, 1], "dilation": [1, 2], "approximate": ["none", "tanh"], "is_causal": [False, True], "training": [False, True]}.get(pname)
        if alts is None:
            return False, f"no alternative values known for parameter {pname}"
        outs = []
        for v in alts:
            a2 = build_op_args(name, cfg, w, seed)
            a2[pname] = v
            if pname == "ignore_index":
                a2["target"] = a2["target"].clone()
                a2["target"].reshape(-1)[0] = 0  # one target equals the first alternative only
            try:
                torch.manual_seed(seed)
                outs.append(getattr(U_, name)(**a2).detach().double())
            except Exception as e:
                outs.append(f"{type(e).__name__}")
        same = isinstance(outs[0], torch.Tensor) and isinstance(outs[1], torch.Tensor) and outs[0].shape == outs[1].shape and torch.equal(outs[0], outs[1])
        return same, f"{name}(..., {pname}={alts[0]!r}) and (..., {pname}={alts[1]!r}) give {'IDENTICAL' if same else 'different'} results: the argument is {'silently ignored' if same else 'used'}"
    if clause == "unknown_constraint_raises_ValueError":
        try:
            measure_op(name, dict(cfg, constraint="definitely_not_a_constraint"), w, seed)
        except ValueError:
            return False, "ValueError raised"
        except Exception as e:
            return True, f"raised {type(e).__name__} instead of ValueError: {e}"
        return True, "no exception for an unknown constraint name"
    if name == "gelu" and clause in ("value_is_k_times_reference", "k_data_independent", "no_exception_under_precondition") or (name == "gelu" and clause.startswith("grad[")):
        # `approximate` is an opaque option in the proof: try both of its values on the real code
        for ap in ("tanh", "none"):
            for mult in (rval(w, "mult", 1.5), 2.0, 0.5):
                try:
                    ma = measure_op(name, cfg, dict(w, mult=str(mult)), seed, {"approximate": ap})
                except Exception as e:
                    return True, f"approximate={ap!r} mult={mult}: raised {type(e).__name__}: {e}"
                sp = ma["k_spread"] if not clause.startswith("grad[") else ma["b"]["input"][1]
                if ma["k"] is None or sp > 1e-7:
                    return True, f"approximate={ap!r} mult={mult}: the ratio to F.gelu(x*mult, approximate={ap!r})/mult is not one constant (relative spread {sp:.3g})"
    try:
        m1 = measure_op(name, cfg, w, seed)
        m2 = measure_op(name, cfg, w, seed + 1000)
    except Exception as e:
        if clause == "no_exception_under_precondition":
            return True, f"raised {type(e).__name__}: {e}"
        return False, f"could not run the real function on the witness: {type(e).__name__}: {e}"
    info = f"k={m1['k']} spread={m1['k_spread']:.3g} k(second draw)={m2['k']} b={m1.get('b')}"
    if clause == "no_exception_under_precondition":
        return False, "no exception; " + info
    if clause == "value_is_k_times_reference" or clause.startswith("body==contract"):
        bad = m1["k"] is None or m1["k_spread"] > tol
        if not bad and name in ("rms_norm", "layer_norm"):
            # rounding is outside the verifier's model (A1): also try low precision / large magnitudes
            for dt, mag in ((torch.float16, 2000.0), (torch.bfloat16, 1e4), (torch.float16, 1e-3)):
                a16 = build_op_args(name, cfg, w, seed)
                a16 = {k_: (v.detach().to(dt) * (mag if k_ == "input" else 1.0) if isinstance(v, torch.Tensor) and v.is_floating_point() else v) for k_, v in a16.items()}
                import unit_scaling.functional as U_

                o16 = getattr(U_, name)(**a16)
                env16 = dict(a16, F=F, torch=torch)
                env16.setdefault("bias", None)
                r16 = eval(REFS[name]["ref"], env16)
                k16, sp16 = ratio_stats(o16.float(), r16.float())
                if k16 is None or sp16 > 5e-2 or abs(k16 - 1) > 5e-2:
                    return True, f"dtype {dt} |x|~{mag}: ratio to PyTorch {k16} (spread {sp16:.3g}); " + info
        return bad, info
    if clause == "k_positive":
        return (m1["k"] is None or m1["k"] <= 0), info
    if clause == "k_data_independent":
        bad = m1["k"] is None or m2["k"] is None or m1["k_spread"] > tol or abs(m1["k"] - m2["k"]) > tol * max(1, abs(m1["k"]))
        return bad, info
    if clause == "k_equals_1" or clause.endswith("k_equals_1"):
        return (m1["k"] is None or abs(m1["k"] - 1) > tol), info
    if clause == "shape_equals_reference":
        return tuple(m1["out"].shape) != tuple(m1["ref"].shape), f"{tuple(m1['out'].shape)} vs {tuple(m1['ref'].shape)}"
    if clause == "dtype_equals_reference":
        return m1["out"].dtype != m1["ref"].dtype, f"{m1['out'].dtype} vs {m1['ref'].dtype}"
    if clause == "frame_no_input_written":
        return (not m1["unchanged"]), "an input tensor changed" if not m1["unchanged"] else "inputs unchanged"
    if clause.startswith("grad[") and clause.endswith("_is_b_times_reference"):
        n = clause[5 : clause.index("]")]
        b, sp = m1["b"].get(n, (None, float("inf")))
        return (b is None or sp > tol), info
    if clause.startswith("b[") and clause.endswith("_positive"):
        n = clause[2 : clause.index("]")]
        b, sp = m1["b"].get(n, (None, 0))
        return (b is None or b <= 0), info
    if clause.startswith("b[") and "independent" in clause:
        n = clause[2 : clause.index("]")]
        b1, s1 = m1["b"].get(n, (None, 0))
        b2, s2 = m2["b"].get(n, (None, 0))
        if b1 is None or b2 is None or s1 > tol or abs(b1 - b2) > tol * max(1, abs(b1)):
            return True, info
        # more draws of the data, including a data extreme for integer inputs
        for extra in ({"_half_padding": "1"}, {}, {}):
            try:
                m3 = measure_op(name, cfg, dict(w, **extra), seed + 77 * (len(extra) + 3))
            except Exception as e:
                return False, f"could not run a further draw: {type(e).__name__}: {e}; " + info
            b3, s3 = m3["b"].get(n, (None, 0))
            if b3 is not None and abs(b1 - b3) > tol * max(1, abs(b1)):
                return True, f"b[{n}] = {b1} for one draw of the data and {b3} for another (same shapes and hyperparameters); " + info
        return False, info
    if "_scale_is_rsqrt_of_terms" in clause:
        which = "out" if clause.startswith("output") else clause[5 : clause.index("]")]
        s = m1["k"] if which == "out" else m1["b"][which][0]
        terms = measured_terms(name, cfg, m1["args"], which)
        val = s * s * terms
        return abs(val - 1) > 1e-6, f"scale={s} measured terms={terms} scale^2*terms={val}"
    if clause == "output_scale_is_1_over_fan_in":
        fi = m1["args"]["weight"].shape[1]
        return abs(m1["k"] * fi - 1) > 1e-8, f"k={m1['k']} fan_in={fi}"
    if clause.startswith("fixed_constraint_k_equals_b["):
        n = clause[clause.index("[") + 1 : clause.index("]")]
        return abs(m1["k"] - m1["b"][n][0]) > 1e-8 * max(1, abs(m1["k"])), info
    if "equals_rule_of_unconstrained" in clause or "unaffected_by_constraint" in clause:
        m0 = measure_op(name, cfg, w, seed, {"constraint": None})
        spec = REFS[name]
        group = [m0["k"]] + [m0["b"][n][0] for n in spec["constrained"] if n in m0.get("b", {})]
        con = cfg["constraint"]
        idx = {"to_output_scale": 0, "to_grad_input_scale": 1, "to_left_grad_scale": 1, "to_right_grad_scale": 2}
        rule = group[idx[con]] if con in idx else rule_value(con, group)
        if clause.startswith("output_scale"):
            got = m1["k"]
        else:
            n = clause[clause.index("[") + 1 : clause.index("]")]
            got = m1["b"][n][0]
            if "unaffected" in clause:
                rule = m0["b"][n][0]
        return abs(got - rule) > 1e-8 * max(1, abs(rule)), f"got={got} expected={rule} (unconstrained k={m0['k']}, b={m0.get('b')})"
    if clause.startswith("logit_grad_scale") or clause.startswith("uniform_logits"):
        V = m1["args"]["input"].shape[-1]
        b = m1["b"]["input"][0] * m1["args"]["mult"]
        return abs(b * b * (V - 1) - V * V) > 1e-6 * V * V, f"b*mult={b} V={V} expected {V / math.sqrt(V - 1)}"
    if clause == "single_element_operand_output_unscaled" or clause == "python_scalar_operand_k_equals_1":
        return abs(m1["k"] - 1) > tol, info
    return False, f"no replay rule for clause {clause}; " + info


# ----------------------------------------------------------------------------------
# other families


def replay_apply_constraint(rj):
    from unit_scaling.constraints import apply_constraint

    cfg = rj["cfg"]
    name, n = cfg["constraint_name"], cfg["n"]
    w = rj.get("witness") or {}
    scales = [rval(w, f"s{i}", 0.5 + 0.25 * i) for i in range(n)]
    scales = [s if s > 0 else 0.5 for s in scales]
    documented = ("gmean", "hmean", "amean", "to_output_scale", "to_grad_input_scale", "to_left_grad_scale", "to_right_grad_scale")
    try:
        r = apply_constraint(name, *scales)
    except ValueError as e:
        return (name in documented or name in (None, "")), f"ValueError: {e}"
    except Exception as e:
        ok_to_raise = name in ("to_grad_input_scale", "to_left_grad_scale", "to_right_grad_scale")
        return (not ok_to_raise), f"apply_constraint({name!r}, {scales}) raised {type(e).__name__}: {e} (an unknown name must raise ValueError)"
    if name in documented or name in (None, ""):
        return False, f"returned {r}"
    return True, f"apply_constraint({name!r}, {scales}) returned {r} instead of raising ValueError"


HANDLERS = []


def handler(pred):
    def deco(f):
        HANDLERS.append((pred, f))
        return f

    return deco


handler(lambda rj: rj["job"].startswith("op:"))(replay_op)
handler(lambda rj: rj["job"].startswith("core:apply_constraint"))(replay_apply_constraint)


def replay_one(path):
    rj = json.load(open(path))
    for pred, fn in HANDLERS:
        try:
            ok = pred(rj)
        except Exception:
            ok = False
        if ok:
            reproduced, detail = fn(rj)
            print(f"replay {rj['obligation']} @ {rj['job']}: {'REPRODUCED' if reproduced else 'not reproduced'}: {detail}")
            return 1 if reproduced else 0
    print(f"replay: no handler for {rj.get('job')} / {rj.get('obligation')}; verifier output kept in the replay file")
    return 0


def main():
    """replay.py FILE            -> exit 1 iff the violation is reproduced on the real code
    replay.py --batch FILE...   -> one line `RESULT <0|1|E> <path>` per file after its output (exit 0)"""
    # optional extra handlers (kept in separate files per family)
    for extra in ("replay_scalar", "replay_formats", "replay_objects", "replay_c16"):
        try:
            mod = __import__(extra)
            mod.install(handler, globals())
        except ImportError:
            pass
    if sys.argv[1] == "--batch":
        for path in sys.argv[2:]:
            try:
                r = str(replay_one(path))
            except Exception as e:  # a crashing replay reproduces nothing
                print(f"replay crashed: {type(e).__name__}: {e}")
                r = "E"
            print(f"RESULT {r} {path}", flush=True)
        return 0
    return replay_one(sys.argv[1])


if __name__ == "__main__":
    sys.path.insert(0, os.path.dirname(os.path.abspath(__file__)))
    sys.exit(main())
