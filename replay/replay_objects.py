"""Replay handlers for object-level counter-models (modules C08, parameters C09, optim
C10/C11): the failing option / history is exercised on the real library."""
from __future__ import annotations

import copy
import io
import pickle
import re


def install(handler, g):
    import torch
    import torch.nn as nn
    import torch.nn.functional as F

    def replay_module(rj):
        import unit_scaling as uu
        import unit_scaling.functional as U

        job, ob, cfg = rj["job"], rj["obligation"], rj["cfg"]
        cls = re.match(r"mod:(\w+)", job).group(1)
        clause = ob.split(":", 2)[2]
        torch.manual_seed(0)
        x = torch.randn(2, 4, 10, dtype=torch.float64)
        if cls == "Conv1d":
            pm = cfg.get("padding_mode", "zeros")
            kw = dict(in_channels=4, out_channels=6, kernel_size=3, stride=1, padding=1, dilation=1, groups=1, bias=bool(cfg.get("bias")), padding_mode=pm, dtype=torch.float64)
            if clause.startswith("option_constraint"):
                # the defect does not depend on the padding mode: exercise it with zero padding
                kw0 = dict(kw, padding_mode="zeros")
                m = uu.Conv1d(constraint=None, **kw0)
                xg = x.clone().requires_grad_(True)
                g1 = torch.autograd.grad(m(xg).sum(), xg)[0]
                g2 = torch.autograd.grad(U.conv1d(xg, m.weight, m.bias, 1, 1, 1, 1, constraint=None).sum(), xg)[0]
                g3 = torch.autograd.grad(U.conv1d(xg, m.weight, m.bias, 1, 1, 1, 1).sum(), xg)[0]
                differs = not torch.allclose(g1, g2)
                return differs, (
                    f"Conv1d(constraint=None): input gradient differs from U.conv1d(..., constraint=None) by {float((g1 - g2).abs().max()):.3g}"
                    f" and from the default-constraint call by {float((g1 - g3).abs().max()):.3g}"
                )
            if clause.startswith("option_padding") or clause.startswith("non_zero_padding"):
                m = uu.Conv1d(**kw)
                ref = nn.Conv1d(**kw)
                got, want = tuple(m(x).shape), tuple(ref(x).shape)
                return got != want, f"Conv1d(padding=1, padding_mode={pm!r}): output shape {got}, torch.nn.Conv1d gives {want}"
        if clause.startswith("parameter_") or clause.startswith("forward_") or clause.startswith("option_"):
            return False, f"no concrete replay rule for {cls}/{clause}; see the verifier output in the replay file"
        return False, "no rule"

    def replay_parameter(rj):
        import unit_scaling as uu
        from unit_scaling.parameter import has_parameter_data

        ob = rj["obligation"]
        hist = rj["cfg"].get("history") or rj.get("info", {}).get("history") or ["deepcopy", "deepcopy"]
        p = uu.Parameter(torch.randn(3, 2), "weight", 7)

        def rt_pickle(o):
            return pickle.loads(pickle.dumps(o))

        def rt_save(o):
            b = io.BytesIO()
            torch.save(o, b)
            b.seek(0)
            return torch.load(b, weights_only=False)

        steps = {"deepcopy": copy.deepcopy, "pickle": rt_pickle, "torch.save": rt_save}
        problems = []
        for hist in (["deepcopy", "deepcopy"], ["deepcopy", "pickle"], ["pickle", "deepcopy"], ["deepcopy", "torch.save"], ["pickle", "pickle"]):
            for freeze in (False, True):
                p = uu.Parameter(torch.randn(3, 2), "weight", 7)
                q = p
                trace = []
                for k, h in enumerate(hist):
                    # between steps the current object is changed: values, dtype-preserving fill and the
                    # trainable flag -- the next copy must be a copy of THIS object
                    with torch.no_grad():
                        q.fill_(float(k + 1))
                    q.requires_grad_(not freeze)
                    want_vals, want_rg = q.detach().clone(), q.requires_grad
                    r = steps[h](q)
                    ok = (
                        has_parameter_data(r)
                        and getattr(r, "mup_type", None) == "weight"
                        and getattr(r, "mup_scaling_depth", None) == 7
                        and isinstance(r, nn.Parameter)
                        and torch.equal(r.detach(), want_vals)
                        and r.requires_grad == want_rg
                        and r.data_ptr() != q.data_ptr()
                    )
                    trace.append((h, ok))
                    if not ok:
                        problems.append(f"history {hist} (frozen={freeze}) step {k} ({h}): tagged={has_parameter_data(r)} values_equal={torch.equal(r.detach(), want_vals)} requires_grad={r.requires_grad} (source {want_rg})")
                        break
                    q = r
        return bool(problems), "; ".join(problems[:3]) or "tags, values and trainable flag survive every 2-step history"

    def replay_depth(rj):
        from collections import OrderedDict

        import unit_scaling as uu

        bad = []
        for name, build in (("positional", lambda: uu.DepthSequential(uu.Linear(2, 2), uu.Linear(2, 2), uu.Linear(2, 2))), ("OrderedDict", lambda: uu.DepthSequential(OrderedDict(a=uu.Linear(2, 2), b=uu.Linear(2, 2), c=uu.Linear(2, 2)))), ("DepthModuleList", lambda: uu.DepthModuleList([uu.Linear(2, 2), uu.Linear(2, 2), uu.Linear(2, 2)])), ("TransformerStack", lambda: uu.TransformerStack(layers=3, hidden_size=4, heads=2, is_causal=True))):
            try:
                m = build()
            except AttributeError as e:  # a container that this tree does not export
                if name == "TransformerStack":
                    continue
                bad.append(f"{name}: {e}")
                continue
            depths = {p.mup_scaling_depth for p in m.parameters()}
            if depths != {len(m)}:
                bad.append(f"{name}: len(container)={len(m)} but recorded depths {sorted(map(str, depths))}")
        return bool(bad), "; ".join(bad) or "every parameter records depth == len(container)"

    def replay_c15(rj):
        import ast

        import torch.fx as fx
        import unit_scaling.functional as U
        from unit_scaling.formats import FPFormat, format_to_tuple, tuple_to_format
        from unit_scaling.transforms import _simulate_format as sf

        ob, job = rj["obligation"], rj["job"]
        if "format_to_tuple" in ob:
            bad = []
            for f in (FPFormat(4, 3, "nearest"), FPFormat(5, 2, "stochastic", 3), FPFormat(5, 2)):
                g_ = tuple_to_format(format_to_tuple(f))
                if g_ != f:
                    bad.append(f"{f!r} -> {g_!r}")
            return bool(bad), "; ".join(bad) or "round trip exact"
        if "_quantisation_backend" in ob:
            # the real backend on a hand-built graph, for ordinary and for full-mantissa (NOT lossless) formats
            import torch.nn.functional as F_

            msgs = []
            for fwd_, bwd_ in ((FPFormat(4, 3, "nearest"), FPFormat(5, 2, "nearest")), (FPFormat(4, 23, "nearest"), FPFormat(5, 23, "nearest")), (FPFormat(8, 23, "nearest"), FPFormat(8, 23, "nearest"))):
                g = fx.Graph()
                x_, w_ = g.placeholder("x"), g.placeholder("w")
                lin = g.call_function(F_.linear, (x_, w_))
                g.output(lin)
                gm = fx.GraphModule(torch.nn.Module(), g)
                out = sf._quantisation_backend(fwd_, bwd_)(gm, [])
                tg = [n.target for n in out.graph.nodes if n.op == "call_function"]
                if tg != [sf._quantised_linear]:
                    msgs.append(f"formats {fwd_}/{bwd_}: the F.linear node was not replaced by its quantised wrapper (targets {[getattr(t, '__name__', t) for t in tg]})")
                else:
                    xv, wv = torch.tensor([[300.0, 1000.0]]), torch.tensor([[1.0, 1.0]])
                    got = out(xv, wv)
                    want = bwd_.quantise_bwd(F_.linear(fwd_.quantise_fwd(xv), fwd_.quantise_fwd(wv)))
                    if not torch.equal(got if isinstance(got, torch.Tensor) else got[0], want):
                        msgs.append(f"formats {fwd_}/{bwd_}: output {got} != hand-inserted quantisation {want}")
            return bool(msgs), "; ".join(msgs)[:600] or "matching nodes are replaced for every format pair"
        m = re.search(r"callshape\[positional=(\[.*?\]),keyword=(\[.*?\])\]", ob)
        if m:
            pos, kw = ast.literal_eval(m.group(1)), ast.literal_eval(m.group(2))
            key = re.search(r"_replace_with_quantised\[(.*?)\]", ob).group(1)
            target = {"F.linear": F.linear, "U.linear": U.linear, "F.scaled_dot_product_attention": F.scaled_dot_product_attention, "U.scaled_dot_product_attention": U.scaled_dot_product_attention}[key]
            torch.manual_seed(0)
            d = 4
            vals = {"input": torch.randn(2, d), "weight": torch.randn(6, d), "bias": torch.randn(6), "constraint": None, "scale_power": (0.5, 0.5, 0.5), "query": torch.randn(1, 2, 3, d), "key": torch.randn(1, 2, 3, d), "value": torch.randn(1, 2, 3, d), "attn_mask": None, "dropout_p": 0.0, "is_causal": False, "scale": None, "mult": 1.0}
            first = pos[0] if pos else kw[0]
            for trial in ({}, {"constraint": None}, {"constraint": "to_grad_input_scale"}):
                v2 = dict(vals, **{k_: v_ for k_, v_ in trial.items() if k_ in pos + kw})
                v2[first] = vals[first].clone().requires_grad_(True)
                want = target(*[v2[n] for n in pos], **{n: v2[n] for n in kw})
                (gw,) = torch.autograd.grad(want.sum(), v2[first])
                g = fx.Graph()
                ph = {n: g.placeholder(n) for n in pos + kw}
                node = g.call_function(target, tuple(ph[n] for n in pos), {n: ph[n] for n in kw})
                g.output(node)
                try:
                    sf._replace_with_quantised(g, node, FPFormat(8, 23, "nearest"), FPFormat(8, 23, "nearest"))
                    gm = fx.GraphModule(torch.nn.Module(), g)
                    got = gm(*[v2[n] for n in pos + kw])
                    (gg,) = torch.autograd.grad(got.sum(), v2[first])
                except Exception as e:
                    return True, f"{key}({', '.join(pos)}{', ' if kw else ''}{', '.join(k + '=' for k in kw)}) after the rewrite: {type(e).__name__}: {e}"
                if not (torch.equal(got, want) and torch.allclose(gg, gw, rtol=1e-6, atol=1e-7)):
                    return True, f"with a lossless format the rewritten call differs from the original ({trial or 'default options'}): output equal={torch.equal(got, want)}, max gradient difference {float((gg - gw).abs().max()):.3g}"
            return False, "rewritten call runs and agrees (outputs and gradients) with a lossless format"
        return False, "no concrete replay rule; see the verifier output in the replay file"

    def replay_ste_cache(rj):
        """history: a coarse-srbits format first, then the same E/M/rounding with other srbits"""
        from unit_scaling.formats import FPFormat

        real_randint = torch.randint
        bad = []
        for which in ("quantise_fwd", "quantise_bwd"):
            for first, second in ((FPFormat(5, 10, "stochastic", 1), FPFormat(5, 10)), (FPFormat(4, 3, "stochastic", 1), FPFormat(4, 3, "stochastic", 6))):
                x = torch.linspace(0.1, 3.0, 64)
                calls = []

                def fake(lo, hi, size, **kw):
                    calls.append(hi)
                    return torch.full(tuple(size), hi - 1, dtype=kw.get("dtype", torch.int64))

                torch.randint = fake
                try:
                    for f in (first, second):
                        xin = x.clone().requires_grad_(True)
                        y = getattr(f, which)(xin)
                        y.backward(x.clone())
                finally:
                    torch.randint = real_randint
                want = [2 ** first.srbits, 2 ** second.srbits]
                if calls != want:
                    bad.append(f"{which}: {first!r} then {second!r} drew random integers below {calls}, expected {want}")
        return bool(bad), "; ".join(bad[:2]) or "each format uses its own number of random bits"

    def replay_ste_same_object(rj):
        """history: one format object used for one direction, then for the other"""
        from unit_scaling.formats import FPFormat

        bad = []
        for first, second in (("quantise_fwd", "quantise_bwd"), ("quantise_bwd", "quantise_fwd")):
            f = FPFormat(5, 2, "nearest")
            x0 = torch.linspace(0.1, 3.0, 64, requires_grad=True)
            getattr(f, first)(x0).backward(torch.linspace(0.2, 5.0, 64))
            x = torch.linspace(0.13, 2.9, 64, requires_grad=True)
            g = torch.linspace(0.21, 4.7, 64)
            y = getattr(f, second)(x)
            y.backward(g)
            ref = FPFormat(5, 2, "nearest")
            want_y = ref.quantise(x.detach()) if second == "quantise_fwd" else x.detach()
            want_g = g if second == "quantise_fwd" else ref.quantise(g)
            if not (torch.equal(y.detach(), want_y) and torch.equal(x.grad, want_g)):
                bad.append(f"{first} then {second} on the same E5M2 object: output as specified={torch.equal(y.detach(), want_y)}, gradient as specified={torch.equal(x.grad, want_g)}")
        return bool(bad), "; ".join(bad) or "both orders behave as specified"

    def replay_c17(rj):
        from unit_scaling.transforms.utils import _compose_backends

        ob = rj["obligation"]
        if "_zero_init_biases" in ob or "_unit_init_weights" in ob:
            import unit_scaling as uu
            from unit_scaling.transforms import _unit_scale as us

            fn = us._zero_init_biases if "_zero_init_biases" in ob else us._unit_init_weights
            torch.manual_seed(0)
            m = nn.Sequential(uu.Linear(4, 3, bias=True), nn.Linear(3, 3), nn.Embedding(5, 3), nn.LayerNorm(3))
            with torch.no_grad():
                m[0].bias.add_(1.0)
            before = {n: (p, getattr(p, "mup_type", None), p.requires_grad, p.detach().clone()) for n, p in m.named_parameters()}
            fn(m)
            msgs = []
            for n, p in m.named_parameters():
                p0, tag0, rg0, v0 = before[n]
                if p is not p0:
                    msgs.append(f"{n}: replaced by a new parameter object (tags {getattr(p, 'mup_type', '<none>')!r}, was {tag0!r})")
                    continue
                lin_or_emb = n.startswith(("0.", "1.", "2."))
                if fn is us._zero_init_biases:
                    want = torch.zeros_like(v0) if (lin_or_emb and n.endswith("bias")) else v0
                else:
                    want = v0 / v0.std() if (lin_or_emb and n.endswith("weight")) else v0
                if not torch.allclose(p.detach(), want, rtol=1e-6, atol=1e-7):
                    msgs.append(f"{n}: value after {fn.__name__} is not what the recipe prescribes (max diff {float((p.detach() - want).abs().max()):.3g})")
            return bool(msgs), "; ".join(msgs)[:600] or "parameters re-initialised in place, objects and tags kept"

        if "_compose_backends" in ob:
            log = []

            class GM:
                pass

            def mk(name):
                def b(gm, ex):
                    log.append(name)
                    return GM()

                return b

            comp = _compose_backends([mk("b1"), mk("b2")])
            comp(GM(), [])
            first = list(log)
            comp(GM(), [])
            second = log[len(first):]
            bad = first != ["b1", "b2"] or second != ["b1", "b2"]
            return bad, f"backends applied on the first compilation: {first}; on a re-compilation: {second}"
        if "user_code_forward" in ob or "root=torch_nn_layer" in ob:
            # a root module that is itself a torch.nn layer: is the backend invoked at all?
            from unit_scaling.transforms.utils import apply_transform

            msgs = []
            for mk in (lambda: nn.Linear(3, 3), lambda: nn.Sequential(nn.Linear(3, 3), nn.ReLU())):
                calls = []

                def counting_backend(gm, example_inputs):
                    calls.append([n.op for n in gm.graph.nodes])
                    return gm

                m0 = mk()
                m = apply_transform(m0, counting_backend)
                x = torch.randn(2, 3)
                y = m(x)
                if not calls:
                    msgs.append(f"root {type(m0).__name__}: the backend was never invoked (TorchDynamo did not trace the module)")
                elif not torch.equal(y, m0(x)):
                    msgs.append(f"root {type(m0).__name__}: the identity backend changed the result")
                if not isinstance(m, type(m0)):
                    msgs.append(f"root {type(m0).__name__}: the result is not an instance of the source class")
            return bool(msgs), "; ".join(msgs) or "the backend is invoked for root torch.nn layers"
        if "retrace_on_first_call" in ob or "traced_exactly_once" in ob or "stale" in ob:
            # transform, CALL the result, transform again: is the second backend applied, and to the new copy?
            from unit_scaling.transforms.utils import apply_transform

            class Tiny2(nn.Module):
                def __init__(self):
                    super().__init__()
                    self.l = nn.Linear(3, 3)

                def forward(self, x):
                    return torch.relu(self.l(x))

            calls = {"first": 0, "second": 0}

            def b1(gm, ex):
                calls["first"] += 1
                return gm

            def b2(gm, ex):
                calls["second"] += 1
                return gm

            a = apply_transform(Tiny2(), b1)
            x = torch.randn(2, 3)
            a(x)
            b = apply_transform(a, b2)
            y = b(x)
            y.sum().backward()
            msgs = []
            if calls["second"] == 0:
                msgs.append("the second transform's backend was never invoked (the copy re-used the source's compiled forward)")
            if b.l.weight.grad is None:
                msgs.append("the new module's own parameters received no gradient")
            if a.l.weight.grad is not None:
                msgs.append("backward through the new module accumulated into the SOURCE module's parameters")
            return bool(msgs), "; ".join(msgs) or "a second transform after a call re-traces and uses the copy's own parameters"
        if "dynamo_cache_reset" in ob:
            # more transformed copies of ONE module class than TorchDynamo's recompile limit: is the
            # backend still applied to every copy?
            import torch.fx as fx
            from unit_scaling.transforms.utils import apply_transform

            class Tiny(nn.Module):
                def __init__(self):
                    super().__init__()
                    self.l = nn.Linear(3, 3)

                def forward(self, x):
                    return torch.relu(self.l(x))

            calls = []

            def counting_backend(gm, example_inputs):
                calls.append(1)
                return gm

            limit = getattr(torch._dynamo.config, "recompile_limit", getattr(torch._dynamo.config, "cache_size_limit", 8))
            missing = []
            for i in range(limit + 3):
                m = apply_transform(Tiny(), counting_backend)
                before = len(calls)
                m(torch.randn(2, 3))
                if len(calls) == before:
                    missing.append(i)
            return bool(missing), f"{limit + 3} transformed copies of one class: the backend was NOT applied to copies {missing}" if missing else f"the backend was applied to each of {limit + 3} copies"
        return False, "no concrete replay rule; see the verifier output in the replay file"

    def replay_c18(rj):
        from unit_scaling.transforms._track_scales import ScaleTrackingAutogradFunction

        ob = rj["obligation"]
        if "Metrics.from_tensor" in ob:
            from unit_scaling.transforms._track_scales import Metrics

            msgs = []
            for dt, scale in ((torch.float64, 1.0), (torch.float64, 1e-60), (torch.float64, 1e60), (torch.float32, 1.0), (torch.bfloat16, 1.0)):
                t = (torch.randn(64, dtype=torch.float64) * scale).to(dt)
                d = Metrics.from_tensor(t)
                a = t.double().abs()
                want = (float(a.mean()), float(a.max()), float(a.min()), t.numel())
                got = (d.mean_abs, d.abs_max, d.abs_min, d.numel)
                tol = 1e-12 if dt == torch.float64 else 1e-2
                if any((w == 0 and g != 0) or (w != 0 and not (abs(g - w) <= tol * abs(w))) for g, w in zip(got, want)):
                    msgs.append(f"{dt} tensor of magnitude {scale:g}: recorded (mean|x|, max|x|, min|x|, numel) = {got}, true {want}")
            return bool(msgs), "; ".join(msgs)[:600] or "the recorded statistics are the true ones in every dtype"
        if "ScaleTrackingAutogradFunction" in ob:
            meta = {}
            t = torch.randn(5, requires_grad=True)
            y = ScaleTrackingAutogradFunction.apply(t, meta)
            y.sum().backward()
            had_bwd = meta["metrics"].bwd is not None
            t2 = torch.randn(5, requires_grad=True)
            y2 = ScaleTrackingAutogradFunction.apply(t2, meta)  # second run, forward only
            stale = meta["metrics"].bwd is not None
            same = torch.equal(y2, t2)
            return (stale or not same or not had_bwd), f"after a forward+backward run and a second forward-only run of the same node: backward metrics still present={stale}; forward value unchanged={same}"
        if "run_node" in ob:
            import torch.fx as fx
            from unit_scaling.transforms._track_scales import ScaleTrackingInterpreter

            class M(torch.nn.Module):
                def forward(self, x):
                    h = x * 2.0
                    a = h.contiguous()  # returns the same tensor object
                    return (a * 3.0).sum() + (h * h).sum()

            gm = fx.symbolic_trace(M())
            it = ScaleTrackingInterpreter(gm)
            x = torch.randn(4, requires_grad=True)
            out = it.run(x)
            out.backward()
            nodes = {n.name: n for n in gm.graph.nodes}
            mh, ma = nodes["mul"].meta.get("metrics"), nodes["contiguous"].meta.get("metrics")
            if ma is None or mh is None:
                return True, "a float node has no metrics"
            want_a = 3.0  # gradient reaching `a` is 3 everywhere
            bad = ma is mh or ma.bwd is None or abs(ma.bwd.mean_abs - want_a) > 1e-6
            return bad, f"pass-through node `contiguous`: shares the producer's Metrics object={ma is mh}; recorded backward mean|g|={None if ma.bwd is None else ma.bwd.mean_abs}, true value {want_a}"
        return False, "no concrete replay rule; see the verifier output in the replay file"

    def replay_c19(rj):
        import torch.fx as fx
        from unit_scaling.transforms import _track_scales as ts

        ob = rj["obligation"]
        if "_prune" in ob and "never_raises" in ob:
            msgs = []
            for label, mk_args in (("slice bound", lambda x, n: (x, (Ellipsis, slice(None, n, None)))), ("nested list", lambda x, n: ([x, n],)), ("dict value", lambda x, n: (x, {"k": n}))):
                g = fx.Graph()
                x = g.placeholder("x")
                n = g.call_function(torch.neg, (x,))
                import operator

                u = g.call_function(operator.getitem if label == "slice bound" else torch.cat if label == "nested list" else dict, mk_args(x, n))
                g.output(u)
                try:
                    ts._prune(g, n, x)
                    g.lint()
                except Exception as e:
                    msgs.append(f"{label}: {type(e).__name__}: {e}")
            return bool(msgs), "; ".join(msgs)[:400] or "pruning rewrites nested uses"
        helper = rj["function"].rsplit(".", 1)[-1]
        cfg = rj.get("cfg") or {}
        if cfg.get("history") == "input_is_an_earlier_result":
            # chained passes on a real fx graph: the graph handed to the second pass is the first pass' result
            import operator

            def op_a(t):
                return t

            g = fx.Graph()
            x = g.placeholder("x")
            a = g.call_function(op_a, (x,))
            i = g.call_function(operator.neg, (a,))  # a non-float node with one float input
            b = g.call_function(op_a, (i,))  # same scale as its input
            c = g.call_function(op_a, (b, a))
            g.output((c,))
            D = ts.Metrics.Data
            for n, (fl, v) in zip(g.nodes, ((True, 1.0), (True, 2.0), (False, 0.0), (True, 2.0), (True, 5.0), (False, 0.0))):
                n.meta["clean_name"] = n.name
                n.meta["outputs_float_tensor"] = fl
                if fl:
                    m = ts.Metrics.__new__(ts.Metrics)
                    m.fwd, m.bwd = D(v, 0, 0, 0, 0, 1), D(v, 0, 0, 0, 0, 1)
                    n.meta["metrics"] = m
            first = ts.prune_non_float_tensors(g)
            before = [(n.name, str(n.args)) for n in first.nodes]
            second = ts.prune_same_scale_tensors(first) if helper == "prune_same_scale_tensors" else ts.prune_non_float_tensors(first)
            after = [(n.name, str(n.args)) for n in first.nodes]
            msgs = []
            if second is first:
                msgs.append("the helper returned its input graph object")
            if after != before:
                msgs.append(f"the input graph (an earlier result) was modified: {len(before)} -> {len(after)} nodes")
            return bool(msgs), "; ".join(msgs) or "an earlier result handed in again is left unchanged"
        if helper in ("prune_non_float_tensors", "prune_same_scale_tensors", "prune_selected_nodes") and "user" in cfg:
            # the generic-node graph of contracts/jobs_prune.py as a real torch.fx graph
            import operator

            def sel_fn(*a, **k):
                return a[0]

            def kept_fn(*a, **k):
                return a[0]

            def earlier_op(*a, **k):
                return a[0]

            def consumer(*a, **k):
                return a[0]

            shapes = {
                "positional": lambda n, o: ((n, o), {}),
                "keyword": lambda n, o: ((o,), {"other": n}),
                "nested_list": lambda n, o: (([o, n],), {"dim": 0}),
                "index_tuple": lambda n, o: ((o, (slice(None), n)), {}),
            }
            nN, nOut = ("output", "output_1") if cfg.get("names") == "user_variable_called_output" else ("N", "output")
            msgs = []
            # (name, forward mean|x| of N / of its input, backward mean|g| of N / of its input, rtol)
            variants = [("same", 1.0, 1.0, 1.0, 1.0, 2**-16), ("different", 1.0, 2.0, 1.0, 2.0, 2**-16), ("backward_within_the_callers_rtol", 1.0, 1.0, 1.0, 1.001, 0.25), ("forward_within_the_callers_rtol", 1.0, 1.001, 1.0, 1.0, 0.25), ("backward_outside_rtol", 1.0, 1.0, 1.0, 1.5, 0.25), ("tiny_values_that_differ_by_a_factor_4", 1e-10, 4e-10, 1e-10, 4e-10, 2**-16), ("every_node_tiny_all_different", 1e-10, 4e-10, 1e-10, 4e-10, 2**-16, 1e-10)] if helper == "prune_same_scale_tensors" else [("-", 1.0, 2.0, 1.0, 2.0, 2**-16)]
            for vname, mN, mA, gN, gA, rtol_, *rest in variants:
                k_others = rest[0] if rest else 1.0
                g = fx.Graph()
                x = g.placeholder("x")
                idx = g.placeholder("idx")
                prev = g.call_function(earlier_op, (x,))
                prev.name = "earlier"
                fa = cfg.get("float_args", 1)
                side = None
                if fa == 2:
                    side = g.call_function(earlier_op, (x,))
                    side.name = "side"
                nargs = {0: (idx,), 1: (prev, idx), 2: (prev, side)}[fa]
                tgt = (sel_fn if cfg.get("selected") else kept_fn) if helper == "prune_selected_nodes" else operator.neg
                node = g.call_function(tgt, nargs)
                node.name = nN
                a, k = shapes[cfg.get("user", "positional")](node, prev)
                cons = g.call_function(consumer, a, k)
                cons.name = "consumer"
                out = g.output((cons,))
                out.name = nOut
                D = ts.Metrics.Data
                for n in g.nodes:
                    n.meta["clean_name"] = n.name
                    n.meta["outputs_float_tensor"] = n.name != "idx" and n.op != "output"
                node.meta["outputs_float_tensor"] = cfg.get("node_is_float", True)
                if helper == "prune_same_scale_tensors":
                    vals = {"x": 7.0 * k_others, "earlier": mA, nN: mN, "consumer": 13.0 * k_others, "side": 3.0 * k_others}
                    for n in g.nodes:
                        if n.name in vals:
                            m = ts.Metrics.__new__(ts.Metrics)
                            m.fwd = D(vals[n.name], 0, 0, 0, 0, 1)
                            m.bwd = D({"earlier": gA, nN: gN}.get(n.name, vals[n.name]), 0, 0, 0, 0, 1) if cfg.get("bwd", "both") == "both" or (cfg.get("bwd") == "only_node" and n is node) or (cfg.get("bwd") == "only_arg" and n is prev) else None
                            n.meta["metrics"] = m
                before = [(n.name, n.op) for n in g.nodes]
                try:
                    if helper == "prune_non_float_tensors":
                        res = ts.prune_non_float_tensors(g)
                    elif helper == "prune_same_scale_tensors":
                        res = ts.prune_same_scale_tensors(g, rtol=rtol_)
                    else:
                        res = ts.prune_selected_nodes(g, [sel_fn])
                    res.lint()
                except Exception as e:
                    msgs.append(f"[{vname}] raises {type(e).__name__}: {e}")
                    continue
                names = [n.name for n in res.nodes]
                removed = nN not in names
                if helper == "prune_non_float_tensors":
                    must = not cfg["node_is_float"]
                elif helper == "prune_selected_nodes":
                    must = bool(cfg["selected"])
                else:
                    bN, bA = node.meta["metrics"].bwd, prev.meta["metrics"].bwd
                    close = lambda a_, b_: abs(a_ - b_) <= rtol_ * max(abs(a_), abs(b_))  # noqa: E731
                    must = fa == 1 and close(mN, mA) and ((bN is None) == (bA is None)) and (bN is None or close(gN, gA))
                want = [n for n in ["x", "idx", "earlier", "side", nN, "consumer", nOut] if (n != nN or not must) and not (n == "idx" and helper == "prune_non_float_tensors") and (n != "side" or fa == 2)]
                if names != want:
                    msgs.append(f"[{vname}] surviving nodes {names}, documented behaviour keeps {want}")
                if not any(n.op == "output" for n in res.nodes):
                    msgs.append(f"[{vname}] the result has no output node")
                if helper != "prune_selected_nodes" and [(n.name, n.op) for n in g.nodes] != before:
                    msgs.append(f"[{vname}] the input graph was modified")
            return bool(msgs), "; ".join(msgs)[:600] or "real helper on the real torch.fx generic-node graph behaves as documented"
        if "same_scale" in ob or "prune_same_scale" in ob:
            D = ts.Metrics.Data
            bad = []
            for a, b in ((1e-10, 4e-10), (3e-9, 1e-9), (1.0, 1.0 + 2**-20), (1.0, 1.5)):
                da, db = D(a, 0, 0, 0, 0, 1), D(b, 0, 0, 0, 0, 1)
                got = ts._directions_same_scale(da, db, 2**-16)
                want = abs(a - b) <= 2**-16 * max(abs(a), abs(b))
                if bool(got) != want:
                    bad.append(f"mean|x| {a} vs {b}: same_scale={bool(got)}, |a-b| <= rtol*max is {want}")
            return bool(bad), "; ".join(bad) or "same-scale predicate is the relative test"
        return False, "no concrete replay rule; see the verifier output in the replay file"

    handler(lambda rj: rj["job"].startswith("c17:"))(replay_c17)
    handler(lambda rj: rj["job"].startswith("c18:"))(replay_c18)
    handler(lambda rj: rj["job"].startswith("c19:"))(replay_c19)
    handler(lambda rj: rj["job"].startswith("c15:quantise_") and "after_other_direction" in rj["job"])(replay_ste_same_object)
    handler(lambda rj: rj["job"].startswith("c15:quantise_"))(replay_ste_cache)
    handler(lambda rj: rj["job"].startswith("c15:"))(replay_c15)
    handler(lambda rj: rj["job"].startswith("mod:") and ("Depth" in rj["job"] or "depth" in rj["obligation"]))(replay_depth)
    handler(lambda rj: rj["job"].startswith("mod:"))(replay_module)
    handler(lambda rj: rj["job"].startswith("c09:"))(replay_parameter)
