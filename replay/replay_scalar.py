"""Replay handlers for the scalar / optimizer / residual families (C02 primitives, C05 means,
C06, C07, C10, C11, C12): the witness is rebuilt concretely, the REAL function is called and
the failed clause is re-evaluated against an oracle written from the property statement."""
from __future__ import annotations

import math
import re
from fractions import Fraction


def install(handler, g):
    import torch
    import torch.nn as nn

    num, ival, rval = g["num"], g["ival"], g["rval"]

    def mk_param(rank, mup_type, depth, w, name="param"):
        if rank == "ge4":
            shape = [2, 3, 2, 2]
        else:
            shape = [max(1, ival(w, f"{name}_d{i}", 3 + i)) for i in range(int(rank))]
        import unit_scaling as uu

        if mup_type == "<untagged>":
            return nn.Parameter(torch.zeros(shape))
        d = None if depth == "None" else max(1, ival(w, f"{name}_depth", 5))
        p = uu.Parameter(torch.zeros(shape), mup_type if mup_type in ("weight", "bias", "norm", "output") else "weight", d)
        if mup_type not in ("weight", "bias", "norm", "output"):
            p.mup_type = mup_type
        return p

    def table_factor(p, mode):
        """the u-muP table of the property statement"""
        sh = list(p.shape)
        depth = 1.0 if p.mup_scaling_depth is None else p.mup_scaling_depth**-0.5
        if len(sh) >= 4 and p.mup_type == "weight":
            raise ValueError("ndim >= 4")
        fan_in = sh[0] if len(sh) == 1 else sh[1] if len(sh) == 2 else sh[1] * sh[2] if len(sh) == 3 else None
        if mode == "adam":
            return depth * (fan_in**-0.5 if p.mup_type == "weight" else 1.0)
        if p.mup_type == "weight":
            return depth * fan_in**0.5
        if p.mup_type in ("bias", "norm"):
            return depth * sh[0]
        return depth

    def replay_c10(rj):
        from unit_scaling import optim as O

        job, cfg, w = rj["job"], rj["cfg"], rj.get("witness") or {}
        if job.startswith("c10:_get_fan_in"):
            p = mk_param(cfg["rank"], "weight", "None", w)
            sh = list(p.shape)
            try:
                got = O._get_fan_in(p)
            except ValueError:
                return len(sh) < 4, f"ValueError for shape {sh}"
            want = sh[0] if len(sh) == 1 else sh[1] if len(sh) == 2 else sh[1] * sh[2] if len(sh) == 3 else "ValueError"
            return got != want, f"_get_fan_in(shape={sh}) = {got}, the property says {want}"
        if job.startswith("c10:lr_rule"):
            which = cfg["which"]
            p = mk_param(cfg["rank"], cfg["mup_type"], cfg["depth"], w)
            fn = O.lr_scale_func_adam if which == "adam" else O.lr_scale_func_sgd({"sgd_none": None, "sgd_output": "to_output_scale"}.get(which, "gmean"))
            mode = "adam" if which in ("adam", "sgd_none") else "sgd_output"
            try:
                got = fn(p)
            except Exception as e:
                try:
                    table_factor(p, mode)
                    ok_type = cfg["mup_type"] in ("weight", "bias", "norm", "output")
                    return ok_type, f"raised {type(e).__name__}: {e}"
                except ValueError:
                    return False, "raises for ndim >= 4 as documented"
            try:
                want = table_factor(p, mode)
            except ValueError:
                return True, f"returned {got} for a weight of ndim >= 4 (must raise)"
            return abs(got - want) > 1e-12 * max(1, abs(want)), f"{which} factor for {cfg['mup_type']} shape {list(p.shape)} depth {p.mup_scaling_depth}: {got}, u-muP table: {want}"
        if job.startswith("c10:lr_scale_for_depth"):
            p = mk_param(2, "weight", cfg["depth"], w)
            got = O.lr_scale_for_depth(p)
            want = 1.0 if p.mup_scaling_depth is None else p.mup_scaling_depth**-0.5
            return abs(got - want) > 1e-12, f"{got} vs {want}"
        return False, "no concrete replay rule; see the verifier output in the replay file"

    def replay_c11(rj):
        import unit_scaling as uu
        from unit_scaling.optim import scaled_parameters

        cfg, ob = rj["cfg"], rj["obligation"]
        clause = ob.split(":", 2)[2]
        if "entry" not in cfg:
            return False, "no rule"
        tagged = cfg["tagged"]
        p1 = uu.Parameter(torch.zeros(3, 4), "weight", 5) if tagged else nn.Parameter(torch.zeros(3, 4))
        p2 = uu.Parameter(torch.zeros(6), "bias") if tagged else nn.Parameter(torch.zeros(6))
        p3 = uu.Parameter(torch.zeros(2, 2), "output") if tagged else nn.Parameter(torch.zeros(2, 2))

        # loop-carried state: when untagged parameters are allowed, a parameter of the OTHER kind
        # precedes the configured ones in the same group
        p0 = None
        if cfg["allow"]:
            p0 = nn.Parameter(torch.zeros(5)) if tagged else uu.Parameter(torch.zeros(4, 5), "weight", 3)
        is_tagged = lambda q: hasattr(q, "mup_type")  # noqa: E731

        def mk_lr(kind, v):
            return None if kind == "absent" else (v if kind == "float" else torch.tensor(v))

        w = rj.get("witness") or {}
        gwd = max(0.0, rval(w, "global_weight_decay", 0.1))
        grp_wd = max(0.0, rval(w, "group_weight_decay", 0.2))
        bad = []
        # two instantiations of the arbitrary lr_scale_func: a generic one and the constant 1
        for factor in (lambda p: {12: 0.37, 6: 1.0, 4: 2.5, 20: 0.11}[p.numel()], lambda p: 1.0):
            glr = mk_lr(cfg["global_lr"], 0.5)
            if cfg["entry"] == "tensor":
                params, src = ([p0] if p0 is not None else []) + [p1, p2, p3], [(glr, gwd)] * (3 + (p0 is not None))
                entries_before = None
            else:
                lr_g = mk_lr(cfg["group_lr"], 0.25)
                gr = {"params": ([p0] if p0 is not None else []) + [p1, p2], "betas": (0.8, 0.9), "momentum": 0.3}
                if lr_g is not None:
                    gr["lr"] = lr_g
                if cfg["group_wd"]:
                    gr["weight_decay"] = grp_wd
                gr2 = {"params": [p3]}
                params = [gr, gr2]
                src = [(gr.get("lr", glr), gr["weight_decay"] if "weight_decay" in gr else gwd)] * len(gr["params"]) + [(glr, gwd)]
                entries_before = [dict(gr), dict(gr2), list(gr["params"])]
            lr_now = lambda: (glr, params[0].get("lr") if isinstance(params[0], dict) else None)  # noqa: E731
            lr_before = [None if not isinstance(x, torch.Tensor) else x.clone() for x in lr_now()]
            try:
                out = scaled_parameters(params, factor, lr=glr, weight_decay=gwd, independent_weight_decay=cfg["independent"], allow_non_unit_scaling_params=cfg["allow"])
            except ValueError as e:
                expect = (not tagged and not cfg["allow"]) or cfg["global_lr"] == "absent"
                return (not expect) and clause.startswith("error_cases"), f"ValueError: {e}"
            except Exception as e:
                return True, f"raised {type(e).__name__}: {e}"
            ps = ([p0] if p0 is not None else []) + [p1, p2, p3]
            if len(out) != len(ps) or any(len(g_["params"]) != 1 or g_["params"][0] is not q for g_, q in zip(out, ps)):
                bad.append("groups are not one-per-parameter in input order")
                continue
            for g_, q, (slr, swd) in zip(out, ps, src):
                f = factor(q) if is_tagged(q) else 1.0
                if slr is None:
                    continue
                want = float(slr) * f
                if abs(float(g_["lr"]) - want) > 1e-6 * max(1, abs(want)):
                    bad.append(f"lr {float(g_['lr'])} != source lr * factor {want}")
                wd = g_["weight_decay"]
                if cfg["independent"]:
                    if abs(float(g_["lr"]) * wd - swd) > 1e-6:
                        bad.append(f"lr*wd {float(g_['lr']) * wd} != requested decay {swd}")
                elif abs(wd - swd) > 1e-12:
                    bad.append(f"weight_decay {wd} != source {swd}")
                if isinstance(slr, torch.Tensor) and tagged and (g_["lr"] is slr):
                    bad.append("a scaled group's tensor lr IS the caller's tensor (aliased)")
            tl = [g_["lr"] for g_ in out if isinstance(g_["lr"], torch.Tensor)]
            if tagged and len({id(t) for t in tl}) != len(tl):
                bad.append("two groups share one lr tensor")
            for before, now in zip(lr_before, lr_now()):
                if before is not None and not torch.equal(before, now):
                    bad.append(f"caller's lr tensor changed {float(before)} -> {float(now)}")
            if entries_before is not None:
                if dict(params[0]) != entries_before[0] or dict(params[1]) != entries_before[1] or params[0]["params"] != entries_before[2]:
                    bad.append("caller's group dict changed")
                if out[0].get("betas") != (0.8, 0.9) or out[1].get("momentum") != 0.3:
                    bad.append("extra options not carried over")
        if "iterated_once" in clause or "group_holds_exactly" in clause or "each_parameter_appends" in clause:
            # a group whose "params" is a one-shot iterator (e.g. module.parameters())
            qs = [uu.Parameter(torch.zeros(3, 4), "weight", 5), uu.Parameter(torch.zeros(6), "bias")]
            try:
                out = scaled_parameters([{"params": (q for q in qs), "lr": 0.25}], lambda p: 1.0, lr=0.5, weight_decay=0.0, allow_non_unit_scaling_params=cfg["allow"])
                got = [q for g_ in out for q in g_["params"]]
                if len(got) != len(qs) or any(a is not b for a, b in zip(got, qs)):
                    bad.append(f"a group given as a generator of {len(qs)} parameters yields {len(got)} parameter(s) in the result (the iterator was consumed more than once)")
            except Exception as e:
                bad.append(f"generator-valued group: raised {type(e).__name__}: {e}")
        bad = sorted(set(bad))
        return bool(bad), "; ".join(bad) or "all clauses hold on the concrete instance"

    def replay_c06(rj):
        import unit_scaling.functional as U

        w = rj.get("witness") or {}
        tau = rval(w, "tau", 0.7)
        if tau <= 0:
            tau = 0.7
        torch.manual_seed(0)
        x = torch.randn(5, dtype=torch.float64, requires_grad=True)
        f = lambda t: torch.tanh(1.3 * t) + 0.2 * t  # noqa: E731
        r, s = U.residual_split(x, tau=tau)
        y = U.residual_add(f(r), s, tau=tau)
        want = (x + tau * f(x)) / math.sqrt(1 + tau * tau)
        g = torch.randn(5, dtype=torch.float64)
        (gx,) = torch.autograd.grad(y, x, g, retain_graph=True)
        (gw,) = torch.autograd.grad(want, x, g)
        y2 = U.residual_apply(f, x, tau=tau)
        bad = []
        if not torch.allclose(y, want.detach(), rtol=1e-12, atol=1e-12):
            bad.append(f"value differs from (x + tau f(x))/sqrt(1+tau^2) by {float((y - want).abs().max()):.3g}")
        if not torch.allclose(gx, gw, rtol=1e-10, atol=1e-12):
            bad.append(f"gradient at x differs from the derivative by {float((gx - gw).abs().max()):.3g}")
        if not torch.allclose(y2, y, rtol=1e-12, atol=1e-12):
            bad.append("residual_apply differs from split / f / add")
        # every tau > 0 (incl. exactly 1, int or float) x every shape (single-element tensors, a branch
        # output that broadcasts against the skip)
        for tau2 in (tau, 1.0, 1, 2):
            for shp, fb, label in (((5,), f, "vector"), ((1,), f, "single element"), ((), f, "0-dim"), ((3, 4), lambda t: torch.tanh(t).mean(-1, keepdim=True), "branch output broadcasts against the skip")):
                xs = torch.randn(shp, dtype=torch.float64, requires_grad=True)
                r_, s_ = U.residual_split(xs, tau=tau2)
                ys = U.residual_add(fb(r_), s_, tau=tau2)
                ws = (xs + tau2 * fb(xs)) / math.sqrt(1 + tau2 * tau2)
                gs = torch.randn(ws.shape, dtype=torch.float64)
                (g1,) = torch.autograd.grad(ys, xs, gs.expand_as(ys) if ys.shape != gs.shape else gs, retain_graph=True)
                (g2,) = torch.autograd.grad(ws, xs, gs)
                if ys.shape != ws.shape or not torch.allclose(ys, ws.detach(), rtol=1e-12, atol=1e-12):
                    bad.append(f"[tau={tau2!r}, {label}] value differs from (x + tau f(x))/sqrt(1+tau^2) by {float((ys - ws).abs().max()) if ys.shape == ws.shape else 'shape'}")
                elif not torch.allclose(g1, g2, rtol=1e-10, atol=1e-12):
                    bad.append(f"[tau={tau2!r}, {label}] gradient at x differs from the derivative by {float((g1 - g2).abs().max()):.3g}")
        # "for ANY branch function": an in-place branch, with and without autograd recording
        for mode in ("grad", "no_grad", "input_without_grad"):
            x2 = torch.randn(6, dtype=torch.float64, requires_grad=(mode == "grad"))
            x0 = x2.detach().clone()
            fin = lambda t: torch.relu_(t * 1.0 if mode == "grad" else t) * 0.5  # noqa: E731
            with torch.set_grad_enabled(mode != "no_grad"):
                r2, s2 = U.residual_split(x2, tau=tau)
                shared = r2.data_ptr() == s2.data_ptr() or r2.data_ptr() == x2.data_ptr() or s2.data_ptr() == x2.data_ptr()
                out = U.residual_add(torch.relu_(r2) * 0.5 if mode != "grad" else fin(r2), s2, tau=tau)
            want2 = (x0 + tau * torch.relu(x0) * 0.5) / math.sqrt(1 + tau * tau)
            if shared or not torch.allclose(out.detach(), want2, rtol=1e-12, atol=1e-12) or not torch.equal(x2.detach(), x0):
                bad.append(f"[{mode}] in-place branch: residual/skip/input share storage={shared}, output error {float((out.detach() - want2).abs().max()):.3g}, caller's x changed={not torch.equal(x2.detach(), x0)}")
        return bool(bad), f"tau={tau}: " + ("; ".join(bad) or "value, gradient and residual_apply agree")

    def replay_c07(rj):
        from unit_scaling.core.functional import transformer_residual_scaling_rule

        w = rj.get("witness") or {}
        L = max(2, ival(w, "layers", 6))
        L += L % 2
        m, r = rval(w, "residual_mult", 1.3), rval(w, "residual_attn_ratio", 0.7)
        m, r = (m if m > 0 else 1.3), (r if r > 0 else 0.7)
        rule = transformer_residual_scaling_rule(m, r)
        L0 = max(2, ival(w, "layers_of_an_earlier_call", L + 4))
        for i in range(min(L, L0)):
            rule(i, L0)  # the same rule object queried earlier for another depth
        taus = [rule(i, L) for i in range(L)]
        contrib = []
        for i in range(L):
            c = taus[i] ** 2 / (1 + taus[i] ** 2)
            for j in range(i + 1, L):
                c /= 1 + taus[j] ** 2
            contrib.append(c)
        emb = 1.0
        for t in taus:
            emb /= 1 + t * t
        attn, mlp = contrib[0::2], contrib[1::2]
        bad = []
        if abs(emb + sum(contrib) - 1) > 1e-9:
            bad.append(f"squared contributions sum to {emb + sum(contrib)}")
        if max(attn) - min(attn) > 1e-9 or max(mlp) - min(mlp) > 1e-9:
            bad.append("attention (or MLP) layers contribute unequally")
        if abs(math.sqrt(sum(attn) / sum(mlp)) - r) > 1e-9:
            bad.append(f"attn:mlp ratio {math.sqrt(sum(attn) / sum(mlp))} != {r}")
        if abs(math.sqrt((sum(attn) + sum(mlp)) / 2 / emb) - m) > 1e-9:
            bad.append(f"layer/embedding multiplier {math.sqrt((sum(attn) + sum(mlp)) / 2 / emb)} != {m}")
        return bool(bad), f"layers={L} mult={m} ratio={r}: " + ("; ".join(bad) or "all balance clauses hold")

    def replay_core(rj):
        import unit_scaling.functional as U
        from unit_scaling import constraints as Cn
        from unit_scaling.scale import scale_bwd, scale_fwd

        job, w = rj["job"], rj.get("witness") or {}
        if job.startswith("core:scale_"):
            s = rval(w, "scale", -0.75)
            x = torch.randn(4, dtype=torch.float64, requires_grad=True)
            fn = scale_fwd if "fwd" in job else scale_bwd
            y = fn(x, s)
            g = torch.randn(4, dtype=torch.float64)
            (gx,) = torch.autograd.grad(y, x, g)
            ok = torch.allclose(y, (s if "fwd" in job else 1.0) * x) and torch.allclose(gx, (1.0 if "fwd" in job else s) * g)
            if "aliasing" in rj["obligation"]:
                for s1 in (s, 1.0, 1):
                    x1 = torch.randn(4, dtype=torch.float32)
                    y1 = fn(x1, s1)
                    if y1 is x1 or y1.data_ptr() == x1.data_ptr():
                        return True, f"{fn.__name__}(x, {s1!r}) returns {'x itself' if y1 is x1 else 'a tensor sharing the storage of x'}: a later in-place operation on the result changes the caller's tensor"
                return False, "the result never shares storage with the argument"
            if ok:
                # "never varies between repeated calls": a low-precision call first, then float64
                for s2 in (1 / 3, 0.7, s):
                    for dt in (torch.bfloat16, torch.float16, torch.float32):
                        xl = torch.randn(4, dtype=dt, requires_grad=True)
                        torch.autograd.grad(scale_bwd(xl, s2), xl, torch.ones(4, dtype=dt))
                        xh = torch.randn(4, dtype=torch.float64, requires_grad=True)
                        (gh,) = torch.autograd.grad(scale_bwd(xh, s2), xh, torch.ones(4, dtype=torch.float64))
                        if abs(float(gh[0]) - s2) > 1e-12 * max(1, abs(s2)):
                            return True, f"scale_bwd(x, {s2}) in float64 after a {dt} call with the same factor multiplies the gradient by {float(gh[0])!r} (history dependent)"
            return (not ok), f"scale={s}: value ratio {float((y / x).mean())}, gradient ratio {float((gx / g).mean())}"
        m = re.match(r"core:(gmean|hmean|amean)\[(\d+)\]", job)
        if m:
            n = int(m.group(2))
            sc = [max(1e-6, rval(w, f"s{i}", 0.5 + i)) for i in range(n)]
            got = getattr(Cn, m.group(1))(*sc)
            want = {"gmean": math.prod(sc) ** (1 / n), "hmean": n / sum(1 / s for s in sc), "amean": sum(sc) / n}[m.group(1)]
            return abs(got - want) > 1e-9 * max(1, abs(want)), f"{m.group(1)}{tuple(sc)} = {got}, definition {want}"
        if job.startswith("core:rms"):
            import torch.nn.functional as F

            # rms feeds rms_norm: compare with PyTorch in several dtypes / magnitudes (rounding is
            # outside the verifier's model, A1, so the witness is searched here)
            for dt, mag in ((torch.float64, 1.0), (torch.float32, 1.0), (torch.float16, 2000.0), (torch.bfloat16, 1e4), (torch.float16, 1e-3)):
                x = (torch.randn(4, 8, dtype=torch.float64) * mag).to(dt)
                got = U.rms_norm(x, (8,), None, 1e-5).float()
                want = F.rms_norm(x, (8,), None, 1e-5).float()
                if not torch.allclose(got, want, rtol=5e-2, atol=1e-3):
                    return True, f"rms_norm in {dt} with |x|~{mag}: max abs difference to F.rms_norm {float((got - want).abs().max()):.4g} (rms of the input computed wrongly)"
            for dt in (torch.bfloat16, torch.float16, torch.float32, torch.float64):
                for wt in (None, torch.ones(8, dtype=dt)):
                    x = torch.randn(4, 8, dtype=torch.float64).to(dt)
                    got, want = U.rms_norm(x, (8,), wt, 1e-5), F.rms_norm(x, (8,), wt, 1e-5)
                    if got.dtype != want.dtype:
                        return True, f"rms_norm({dt} input, weight={'None' if wt is None else 'given'}) returns {got.dtype}, F.rms_norm returns {want.dtype}"
            return False, "rms_norm agrees with F.rms_norm in all tried dtypes"
        if job.startswith("core:logarithmic_interpolation"):
            from unit_scaling.core.functional import logarithmic_interpolation as li

            a, lo, hi = rval(w, "alpha", 0.3), max(1e-6, rval(w, "lower", 0.5)), max(1e-6, rval(w, "upper", 2.0))
            got = li(a, lo, hi)
            want = math.exp(a * math.log(hi) + (1 - a) * math.log(lo))
            bad = abs(got - want) > 1e-9 * max(1, abs(want)) or (0 <= a <= 1 and not (min(lo, hi) - 1e-12 <= got <= max(lo, hi) + 1e-12))
            return bad, f"logarithmic_interpolation({a},{lo},{hi}) = {got}"
        return False, "no concrete replay rule; see the verifier output in the replay file"

    def replay_c12(rj):
        import unit_scaling as uu

        cfg = rj["cfg"]
        w = rj.get("witness") or {}
        fi, fo = 16, 5
        kw = {} if cfg["constraint"] == "default" else {"constraint": None}
        torch.manual_seed(0)
        if cfg["layer"] == "Conv1d":
            K = 3
            layer = uu.Conv1d(fi, fo, K, dtype=torch.float64, **kw)
            x = torch.sign(torch.randn(1, fi, K, dtype=torch.float64))
        else:
            layer = getattr(uu, cfg["layer"])(fi, fo, dtype=torch.float64, **kw)
            x = torch.sign(torch.randn(1, fi, dtype=torch.float64))
        depth = None
        if cfg["depth"] == "int":
            depth = 9
            layer.weight.mup_scaling_depth = depth
        eta = 0.01
        opt = uu.optim.Adam(layer.parameters(), lr=eta, eps=0.0)
        y0 = layer(x).detach().clone()
        g = torch.sign(torch.randn_like(y0)) * (0.5 + torch.rand_like(y0))
        layer(x).backward(g)
        opt.step()
        dy = (layer(x).detach() - y0).abs().flatten()
        want = eta / (math.sqrt(depth) if depth else 1.0)
        bad = float((dy - want).abs().max()) > 1e-9
        return bad, f"{cfg['layer']} fan_in={fi}: |dy| in [{float(dy.min()):.6g}, {float(dy.max()):.6g}], expected exactly {want:.6g}"

    def replay_stack(rj):
        import unit_scaling as uu
        from unit_scaling.core.functional import transformer_residual_scaling_rule

        bad = []
        for layers, mult, ratio in ((1, 1.0, 2.0), (2, 4.0, 1.0), (3, 1.0, 1.0), (4, 0.5, 3.0)):
            rule = transformer_residual_scaling_rule(mult, ratio)
            st = uu.TransformerStack(layers=layers, hidden_size=4, heads=2, is_causal=True, residual_scaling=rule)
            for i, layer in enumerate(st):
                want = (rule(2 * i, 2 * layers), rule(2 * i + 1, 2 * layers))
                got = (layer.mhsa_tau, layer.mlp_tau)
                if any(abs(g_ - w_) > 1e-12 * max(1, abs(w_)) for g_, w_ in zip(got, want)):
                    bad.append(f"layers={layers} mult={mult} ratio={ratio} layer {i}: (attention tau, MLP tau) = {got}, the rule gives {want}")
        return bool(bad), "; ".join(bad[:3]) or "stack taus equal rule(2i, 2L), rule(2i+1, 2L)"

    handler(lambda rj: rj["job"].startswith("mod:Transformer") and rj["obligation"].startswith("C07"))(replay_stack)
    handler(lambda rj: rj["job"].startswith("c10:"))(replay_c10)
    handler(lambda rj: rj["job"].startswith("c11:"))(replay_c11)
    handler(lambda rj: rj["job"].startswith("c06:") or rj["job"].startswith("core:residual"))(replay_c06)
    handler(lambda rj: rj["job"].startswith("c07:"))(replay_c07)
    handler(lambda rj: rj["job"].startswith("c12:"))(replay_c12)
    handler(lambda rj: rj["job"].startswith("core:") and not rj["job"].startswith("core:apply_constraint"))(replay_core)
