"""C16 replay / bounded composition check on the REAL code (run with /venv/bin/python):
build the real torch.fx graph of a description, run the real unit_scaling_backend on it,
and compare with the recipe (contracts/refs_c16.py).

  replay_c16.py one '<json description>'          -> exit 1 when the real code deviates
  replay_c16.py sweep quick|thorough [--jobs N]   -> bounded sweep, prints deviations
  replay_c16.py torch_map                         -> the real U.torch_map equals refs_c16.TORCH_MAP
"""
from __future__ import annotations

import inspect
import json
import logging
import operator
import os
import sys
import types
from typing import Any, Dict, List, Optional, Tuple

sys.path.insert(0, os.path.join(os.path.dirname(os.path.abspath(__file__)), ".."))

import torch
import torch.nn.functional as F
from torch import fx

import unit_scaling.functional as U
from contracts import refs_c16 as R
from unit_scaling.transforms._unit_scale import unit_scaling_backend

logging.disable(logging.CRITICAL)


def user_fn(x, constraint="to_output_scale"):  # a user function (replaced via `replace`)
    return x


def user_scaled(x, constraint="to_output_scale"):  # its user-supplied replacement
    return x


def user_gelu(input, mult=1.0, constraint="to_output_scale", approximate="none"):  # overrides the built-in F.gelu -> U.gelu
    return input


def user_positional(x, constraint, mult=1.0):
    return x


def user_plain(x, y=None):  # an opaque operation of the surrounding graph
    return x


USER = {"user.fn": user_fn, "user.scaled": user_scaled, "user.gelu": user_gelu, "user.positional": user_positional, "user.plain": user_plain}


def obj_of(key: str) -> Any:
    mod, name = key.split(".", 1)
    if mod == "user":
        return USER[key]
    return getattr({"F": F, "torch": torch, "operator": operator, "U": U}[mod], name)


def key_of(obj: Any) -> str:
    for k, v in USER.items():
        if v is obj:
            return k
    for mod, m in (("operator", operator), ("U", U), ("F", F), ("torch", torch)):
        n = getattr(obj, "__name__", None)
        if n and getattr(m, n, None) is obj:
            return f"{mod}.{n}"
    return f"?{obj!r}"


def to_fx(desc: List[R.Node]) -> fx.Graph:
    g = fx.Graph()
    by: Dict[str, fx.Node] = {}
    conv = lambda a: R.deep_map(a, lambda n: by[n])
    for n in desc:
        if n["op"] == "placeholder":
            by[n["name"]] = g.placeholder(n["target"])
        elif n["op"] == "output":
            by[n["name"]] = g.output(conv(tuple(_tup(n["args"])))[0])
        elif n["op"] == "call_function":
            by[n["name"]] = g.call_function(obj_of(n["target"]), tuple(conv(_tup(n["args"]))), dict(conv(n["kwargs"])))
        elif n["op"] == "call_method":
            by[n["name"]] = g.call_method(n["target"], tuple(conv(_tup(n["args"]))), dict(conv(n["kwargs"])))
        else:
            raise ValueError(n["op"])
    return g


def _tup(a: Any) -> Any:
    """JSON lists that stand for refs / tuples"""
    if isinstance(a, list) and len(a) == 2 and a[0] == "ref" and isinstance(a[1], str):
        return ("ref", a[1])
    if isinstance(a, (list, tuple)):
        return tuple(_tup(x) for x in a)
    if isinstance(a, dict):
        return {k: _tup(v) for k, v in a.items()}
    return a


def normalise(desc: List[R.Node]) -> List[R.Node]:
    return [{**n, "args": list(_tup(n["args"])), "kwargs": _tup(n["kwargs"])} for n in desc]


def from_fx(g: fx.Graph) -> List[R.Node]:
    out = []
    conv = lambda a: fx.node.map_arg(a, lambda n: ("ref", n.name))
    for n in g.nodes:
        t = n.target if isinstance(n.target, str) else key_of(n.target)
        out.append(R.node(n.name, n.op, t, list(conv(n.args)), dict(conv(n.kwargs))))
    return out


def sigs(key: str) -> Optional[List[str]]:
    if key.startswith("U.") or key.startswith("user."):
        return list(inspect.signature(obj_of(key)).parameters)
    return None


def has_constraint(key: str) -> bool:
    p = sigs(key)
    return p is not None and "constraint" in p


def run_one(desc: List[R.Node], replace: Dict[str, str]) -> Tuple[str, str]:
    """-> (verdict, detail); verdict in ok / deviates / raises / outside-precondition"""
    desc = normalise(desc)
    if not R.well_nested(desc):
        return "outside-precondition", "not well-nested"
    want = R.canon(R.spec_rewrite(desc, replace, has_constraint, sigs), sigs)
    g = to_fx(desc)
    gm = fx.GraphModule(torch.nn.Module(), g)
    tmap0 = dict(U.torch_map)
    try:
        out = unit_scaling_backend({obj_of(k): obj_of(v) for k, v in replace.items()})(gm, [])
    except Exception as e:  # the property: runs without error
        return "raises", f"{type(e).__name__}: {e}"
    finally:
        changed = dict(U.torch_map) != tmap0
        U.torch_map.clear()
        U.torch_map.update(tmap0)  # keep later graphs of the sweep independent of this one
    if changed:
        return "deviates", "frame: unit_scaling.functional.torch_map was modified by the backend (entries of the user's replace map written into the built-in map)"
    got_desc = from_fx(out.graph)
    bad = R.lint(got_desc)
    if bad:
        return "deviates", "ill-formed graph: " + bad
    try:
        got = R.canon(got_desc, sigs)
    except R.IllFormed as e:
        return "deviates", f"ill-formed call (TypeError when the module runs): {e}"
    if got != want:
        return "deviates", f"got  {got}\nwant {want}"
    return "ok", ""


families = R.families


def main() -> int:
    cmd = sys.argv[1]
    if cmd == "torch_map":
        real = {key_of(k): key_of(v) for k, v in U.torch_map.items()}
        if real != R.TORCH_MAP:
            print("torch_map differs:", sorted(set(real.items()) ^ set(R.TORCH_MAP.items())))
            return 1
        keys = sorted(set(R.TORCH_MAP) | set(R.C_BUILTINS) | set(R.PY_PARAMS))
        bad = [k for k in keys if isinstance(obj_of(k), types.BuiltinFunctionType) != (k in R.C_BUILTINS)]
        bad += [k for k in keys if k not in R.C_BUILTINS and list(inspect.signature(obj_of(k)).parameters) != R.PY_PARAMS.get(k)]
        if bad:
            print("builtin classification / parameter lists differ:", bad)
            return 1
        print("torch_map ok", len(real))
        return 0
    if cmd == "one":
        spec = json.loads(sys.argv[2])
        v, d = run_one(spec["graph"], spec.get("replace", {}))
        print(v, d)
        return 1 if v in ("deviates", "raises") else 0
    if cmd == "sweep":
        tier = sys.argv[2]
        counts: Dict[str, int] = {}
        shown = 0
        for label, g, rep in families(tier):
            v, d = run_one(g, rep)
            counts[v] = counts.get(v, 0) + 1
            if v in ("deviates", "raises") and shown < int(os.environ.get("SHOW", "10")):
                shown += 1
                print("--", label, v, d[:600])
        print(json.dumps(counts))
        return 1 if counts.get("deviates") or counts.get("raises") else 0
    return 2




# ----------------------------------------------------------------------------------
# replay handlers (installed into replay.py): a failed C16 obligation carries the graph


def _replay_graph(rj):
    info = rj.get("info") or {}
    if "graph" not in info:
        return False, "the failed obligation carries no graph (summary obligation): see the individual obligations of the same job"
    graph = info["graph"]
    if isinstance(graph, str):
        import ast as _ast

        graph = _ast.literal_eval(graph)
    rep = info.get("replace") or {}
    if isinstance(rep, str):
        import ast as _ast

        rep = _ast.literal_eval(rep)
    name = rj["obligation"]
    desc = normalise(graph)
    if "._unconstrain_node:" in name:
        from unit_scaling.transforms._unit_scale import _unconstrain_node

        g = to_fx(desc)
        n = next(m for m in g.nodes if m.name == "n")
        a0, k0 = n.args, dict(n.kwargs)
        try:
            _unconstrain_node(n)
        except Exception as e:
            return True, f"_unconstrain_node raises {type(e).__name__}: {e}"
        key = n.target if isinstance(n.target, str) else key_of(n.target)
        params = sigs(key) if n.op == "call_function" and not isinstance(n.target, str) else None
        if params is None or "constraint" not in params:
            bad = n.args != a0 or dict(n.kwargs) != k0
            return bad, f"node without constraint parameter {'changed' if bad else 'untouched'}: {n.args} {n.kwargs}"
        try:
            b0 = R.bind(key, params, list(a0), k0)
            b1 = R.bind(key, params, list(n.args), dict(n.kwargs))
        except R.IllFormed as e:
            return True, f"ill-formed call after _unconstrain_node: {e}"
        bad = b1.get("constraint", "<unbound>") is not None or {k: v for k, v in b1.items() if k != "constraint"} != {k: v for k, v in b0.items() if k != "constraint"}
        return bad, f"bound arguments before {b0} after {b1}"
    if "._is_self_attention:" in name:
        from unit_scaling.transforms._unit_scale import _is_self_attention

        g = to_fx(desc)
        by = {m.name: m for m in g.nodes}
        res = [m for m in g.nodes if m.op == "output"][0].all_input_nodes[0]
        got = _is_self_attention(by["skip"], res)
        cls_branch, todo, byd = [], [res.name], {n["name"]: n for n in desc}
        while todo:
            q = todo.pop()
            if q == "skip" or q in cls_branch:
                continue
            cls_branch.append(q)
            todo += R.inputs_of(byd[q])
        want = any(byd[q]["target"] in R.SELF_ATTENTION for q in cls_branch)
        return got is not want, f"_is_self_attention -> {got}, the branch {'contains' if want else 'does not contain'} softmax / attention"
    v, d = run_one(desc, rep)
    return v in ("deviates", "raises"), f"real unit_scaling_backend on the real torch.fx graph: {v} {d[:600]}"


def _replay_is_add(rj):
    import re as _re

    from unit_scaling.transforms._unit_scale import _is_add

    m = _re.search(r"\[(\w+),([\w.:]+)\]$", rj["obligation"])
    if not m:
        return False, "cannot parse the node class"
    op, tk = m.group(1), m.group(2)
    g = fx.Graph()
    x = g.placeholder("x")
    t = tk[4:] if tk.startswith("str:") else obj_of(tk)
    n = g.create_node(op if op not in ("placeholder", "output") else "call_function", t, (x, x), {})
    n.op = op
    got = _is_add(n)
    want = op == "call_function" and tk in R.ADD_KEYS
    return got is not want, f"_is_add({op} node, target {tk}) -> {got}, expected {want}"


def _replay_deps(rj):
    import ast as _ast
    import re as _re

    from unit_scaling.transforms._unit_scale import _add_dependency_meta

    m = _re.search(r"\[dag=(\[.*\]),(\w+),node=(\w+)\]$", rj["obligation"])
    if not m:
        return False, "summary obligation: see the individual obligations of the same job"
    shape, mode = _ast.literal_eval(m.group(1)), m.group(2)
    g = fx.Graph()
    nodes = []
    for i, ins in enumerate(shape):
        if not ins:
            nodes.append(g.placeholder(f"n{i}"))
        else:
            args = tuple(nodes[j] for j in ins[:1]) + ((tuple(nodes[j] for j in ins[1:2]),) if len(ins) > 1 else ())
            nodes.append(g.call_function(user_plain, args, {"k": [nodes[j] for j in ins[2:]]} if len(ins) > 2 else {}))
    out = g.output(tuple(n for n in nodes if not n.users))
    anc = {}
    for n in list(nodes) + [out]:
        s = set()
        for q in n.all_input_nodes:
            s |= {q} | anc[q]
        anc[n] = s
    if mode == "recalculate_stale":
        for n in nodes:
            n.meta["dependencies"] = {nodes[0]} if n is not nodes[0] else {nodes[-1]}
    if mode == "memo_valid":
        for n in nodes[: len(nodes) // 2]:
            n.meta["dependencies"] = set(anc[n])
    _add_dependency_meta(g, *([True] if mode == "recalculate_stale" else []))
    bad = [n.name for n in list(nodes) + [out] if n.meta.get("dependencies") != anc[n]]
    return bool(bad), f"dependencies != ancestors for {bad}" if bad else "dependencies == ancestors"


def install(handler, g):
    handler(lambda rj: rj["job"].startswith("c16:_is_add"))(_replay_is_add)
    handler(lambda rj: rj["job"].startswith("c16:_add_dependency_meta"))(_replay_deps)
    handler(lambda rj: rj["job"].startswith("c16:"))(_replay_graph)


if __name__ == "__main__":
    sys.exit(main())
