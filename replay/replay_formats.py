"""Replay handlers for C13/C14 counter-models: the witness float32 bit pattern(s) are fed
to the real FPFormat.quantise and the failed clause is evaluated with an exact
`fractions.Fraction` oracle of the format's value set."""
from __future__ import annotations

import math
import re
import struct
from fractions import Fraction


def f32_from_bits(b: int) -> float:
    return struct.unpack("<f", struct.pack("<I", b & 0xFFFFFFFF))[0]


def bits_from_f32(x: float) -> int:
    return struct.unpack("<I", struct.pack("<f", x))[0]


def consts(E, M):
    emin = 1 - 2 ** (E - 1)
    emax = 2 ** (E - 1) - 1
    return emin, emax, Fraction(2) ** emax * (2 - Fraction(1, 2**M))


def floor_log2(a: Fraction) -> int:
    e = a.numerator.bit_length() - a.denominator.bit_length()
    while Fraction(2) ** e > a:
        e -= 1
    while Fraction(2) ** (e + 1) <= a:
        e += 1
    return e


def spacing(E, M, a: Fraction) -> Fraction:
    emin, _, _ = consts(E, M)
    e = emin if a == 0 else max(floor_log2(a), emin)
    return Fraction(2) ** (e - M)


def is_repr(E, M, v: Fraction) -> bool:
    _, _, mx = consts(E, M)
    a = abs(v)
    if a > mx:
        return False
    return (a / spacing(E, M, a)).denominator == 1


def neighbours(E, M, v: Fraction):
    """(lo, hi): largest representable <= v and smallest representable >= v (v already clamped)"""
    a = abs(v)
    sp = spacing(E, M, a)
    lo = (a / sp).__floor__() * sp
    hi = lo if lo == a else lo + sp
    _, _, mx = consts(E, M)
    hi = min(hi, mx)
    return (lo, hi) if v >= 0 else (-hi, -lo)


def ival(w, key, default=None):
    v = w.get(key)
    if v is None:
        return default
    s = str(v)
    if s.startswith("#x"):
        return int(s[2:], 16)
    if s.startswith("#b"):
        return int(s[2:], 2)
    try:
        return int(s)
    except ValueError:
        return default


def install(handler, g):
    import torch

    def parse(ob):
        m = re.search(r"\[E(\d+)M(\d+)(?:,(\w+))?(?:,sr=(\d+))?\]", ob)
        return int(m.group(1)), int(m.group(2)), m.group(3), m.group(4)

    def quantise_bits(fmt, bits_list, dtype=torch.float32):
        x = torch.tensor([f32_from_bits(b) for b in bits_list], dtype=torch.float32).to(dtype)
        return x, fmt.quantise(x)

    def replay_c13(rj):
        from unit_scaling.formats import FPFormat

        ob = rj["obligation"]
        if rj["job"].startswith("c13:reuse[") and rj["cfg"].get("history") == "rounding":
            c = rj["cfg"]
            f = FPFormat(c["E"], c["M"])  # default rounding: stochastic, __post_init__ stores srbits = 23 - M
            f.rounding = "nearest"
            g_ = FPFormat(c["E"], c["M"], "nearest")
            _, emin_, mx_ = consts(c["E"], c["M"])
            sp = float(Fraction(2) ** (emin_ - c["M"]))
            xs = torch.tensor([0.875 * 8 * sp, 0.375 * 8 * sp, 1.3, -2.7, 0.3, 1.75 * float(mx_) / 2], dtype=torch.float32)
            a, b = f.quantise(xs.clone()), g_.quantise(xs.clone())
            bad = not torch.equal(a, b)
            return bad, (f"an E{c['E']}M{c['M']} object constructed as stochastic and then set to nearest quantises {xs.tolist()} to {a.tolist()}, a fresh nearest format to {b.tolist()}" if bad else "equal to a fresh nearest format")
        if rj["job"].startswith("c13:reuse["):
            c = rj["cfg"]
            f = FPFormat(c["E0"], c["M0"], "nearest")
            _ = (f.max_absolute_value, f.min_absolute_normal, f.min_absolute_subnormal)
            x = torch.tensor([0.3, 1.3, 312.0, -7.7e4, 3e-6, 1e-9, 5e4], dtype=torch.float32)
            f.quantise(x.clone())
            f.exponent_bits, f.mantissa_bits = c["E"], c["M"]
            g_ = FPFormat(c["E"], c["M"], "nearest")
            msgs = []
            for name in ("max_absolute_value", "min_absolute_normal", "min_absolute_subnormal"):
                if float(getattr(f, name)) != float(getattr(g_, name)):
                    msgs.append(f"{name} = {getattr(f, name)} after the fields were reassigned, a fresh E{c['E']}M{c['M']} format has {getattr(g_, name)}")
            a, b = f.quantise(x.clone()), g_.quantise(x.clone())
            if not torch.equal(a, b):
                msgs.append(f"quantise gives {a.tolist()}, a fresh format {b.tolist()}")
            return bool(msgs), "; ".join(msgs)[:600] or "a re-used format object behaves as a fresh one"
        E, M, dtype, _ = parse(ob)
        w = rj.get("witness") or {}
        clause = ob.split("]:", 1)[1]
        fmt = FPFormat(E, M, "nearest")
        if dtype in ("float64", "bfloat16", "float16"):
            rank = rj["cfg"].get("rank", 1)
            shape = [max(1, ival(w, f"n{i}", 4) or 4) for i in range(rank)]
            if dtype != "float64":
                shape[-1] = shape[-1] * 2  # keep the view legal so the shape defect shows instead of an exception
            x = torch.linspace(-3, 3, math.prod(shape), dtype=torch.float64).reshape(shape).to(getattr(torch, dtype))
            before = x.clone()
            try:
                y = fmt.quantise(x)
            except Exception as e:
                return clause.startswith("no_exception"), f"raised {type(e).__name__}: {e}"
            if clause.startswith("shape_preserved"):
                return tuple(y.shape) != tuple(x.shape), f"input shape {tuple(x.shape)} -> result shape {tuple(y.shape)}"
            if clause.startswith("dtype_preserved"):
                return y.dtype != x.dtype, f"{x.dtype} -> {y.dtype}"
            if clause.startswith("argument_not_modified"):
                return not torch.equal(before, x), "argument changed" if not torch.equal(before, x) else "argument unchanged"
            ref = FPFormat(E, M, "nearest").quantise(x.to(torch.float32)).to(x.dtype)
            if tuple(y.shape) != tuple(ref.shape):
                return True, f"result shape {tuple(y.shape)} != float32-path shape {tuple(ref.shape)} (elements reinterpreted across element sizes)"
            return not torch.equal(y, ref), f"differs from the float32 path on {int((y != ref).sum())} elements"
        if clause.startswith("argument_not_modified"):
            msgs = []
            for xs in (torch.tensor([1.3, -2.7, 100.0, 3e-5, 6.17e17]), torch.tensor([[1.3, -2.7], [0.1, 5e4]]).t(), torch.tensor(1.3)):
                before = xs.clone()
                try:
                    fmt.quantise(xs)
                except Exception as e:
                    msgs.append(f"raised {type(e).__name__}: {e}")
                    continue
                if not torch.equal(before, xs):
                    msgs.append(f"float32 argument of shape {tuple(xs.shape)} modified in place: was {before.flatten().tolist()[:3]}, now {xs.flatten().tolist()[:3]}")
            return bool(msgs), "; ".join(msgs)[:500] or "argument unchanged"
        xb = ival(w, "x_bits")
        if xb is None:
            return False, "no x_bits in the witness"
        xv = f32_from_bits(xb)
        if math.isnan(xv):
            return False, "witness is NaN (outside the precondition)"
        _, _, mx = consts(E, M)
        x, y = quantise_bits(fmt, [xb])
        code = Fraction(float(y[0])) if math.isfinite(float(y[0])) else None
        cx = max(-mx, min(mx, Fraction(xv))) if math.isfinite(xv) else (mx if xv > 0 else -mx)
        info = f"x=bits {xb:#010x} ({xv!r}) -> code {float(y[0])!r}"
        if code is None:
            return True, info + " (non-finite result)"
        if clause.startswith("representable_input_unchanged"):
            return is_repr(E, M, Fraction(xv)) and bits_from_f32(float(y[0])) != xb, info
        if clause.startswith("representable"):
            return not is_repr(E, M, code), info
        if clause.startswith("sign_preserved"):
            return (bits_from_f32(float(y[0])) >> 31) != (xb >> 31), info
        if clause.startswith("saturates"):
            return abs(Fraction(xv) if math.isfinite(xv) else mx + 1) >= mx and abs(code) != mx, info
        if clause.startswith("odd_symmetric"):
            _, y2 = quantise_bits(fmt, [xb ^ 0x80000000])
            return bits_from_f32(float(y2[0])) != (bits_from_f32(float(y[0])) ^ 0x80000000), info + f" ; -x -> {float(y2[0])!r}"
        if clause.startswith("is_a_neighbour"):
            lo, hi = neighbours(E, M, cx)
            return code not in (lo, hi), info + f" neighbours {float(lo)!r}, {float(hi)!r}"
        if clause.startswith("nearest"):
            lo, hi = neighbours(E, M, cx)
            emin = consts(E, M)[0]
            slack = Fraction(2) ** (emin - 23) if abs(cx) < Fraction(2) ** emin else 0
            best = min(abs(lo - cx), abs(hi - cx))
            return abs(code - cx) > best + slack, info + f" |code-x|={float(abs(code - cx))!r} best={float(best)!r} slack={float(slack)!r}"
        if clause.startswith("monotone"):
            yb = ival(w, "y_bits")
            if yb is None:
                return False, "no y_bits"
            _, yy = quantise_bits(fmt, [xb, yb])
            a, b = f32_from_bits(xb), f32_from_bits(yb)
            return a <= b and float(yy[0]) > float(yy[1]), f"x={a!r} y={b!r} -> {float(yy[0])!r}, {float(yy[1])!r}"
        return False, "no replay rule for " + clause

    def replay_range(rj):
        from unit_scaling.formats import FPFormat

        E, M, _, _ = parse(rj["obligation"])
        emin, emax, mx = consts(E, M)
        f = FPFormat(E, M, "nearest")
        bad = []
        if Fraction(f.max_absolute_value) != mx:
            bad.append(f"max_absolute_value={f.max_absolute_value} expected {float(mx)}")
        if Fraction(f.min_absolute_normal) != Fraction(2) ** emin:
            bad.append(f"min_absolute_normal={f.min_absolute_normal}")
        if Fraction(f.min_absolute_subnormal) != Fraction(2) ** (emin - M):
            bad.append(f"min_absolute_subnormal={f.min_absolute_subnormal}")
        return bool(bad), "; ".join(bad) or "range properties equal the extremes of the value set"

    def replay_c14(rj):
        from unit_scaling.formats import FPFormat

        ob = rj["obligation"]
        E, M, _, s_ = parse(ob)
        s_ = int(s_)
        D = 23 - M
        w = rj.get("witness") or {}
        clause = ob.split("]:", 1)[1]
        fmt = FPFormat(E, M, "stochastic", 0 if s_ == D else s_)
        if clause.startswith("spec:"):
            return False, "specification lemma (no repo code involved); verifier output kept in the replay file"
        xb, R = ival(w, "x_bits"), ival(w, "R", 0)
        calls = []
        real_randint = torch.randint

        def fake_randint(low, high, size, **kw):
            calls.append((low, high, tuple(size), kw.get("dtype")))
            return torch.full(tuple(size), R, dtype=kw.get("dtype", torch.int64))

        if xb is None:
            xb = bits_from_f32(1.3)
        xv = f32_from_bits(xb)
        if math.isnan(xv) or math.isinf(xv):
            return False, "witness outside the precondition (non-finite)"
        x = torch.tensor([xv, xv], dtype=torch.float32)
        before = x.clone()
        torch.randint = fake_randint
        try:
            y = fmt.quantise(x)
        finally:
            torch.randint = real_randint
        _, _, mx = consts(E, M)
        emin = consts(E, M)[0]
        code = Fraction(float(y[0]))
        cx = max(-mx, min(mx, Fraction(xv)))
        lo, hi = neighbours(E, M, cx)
        info = f"x=bits {xb:#010x} ({xv!r}) R={R} -> {float(y[0])!r}; neighbours {float(lo)!r}, {float(hi)!r}"
        if clause.startswith("one_random_draw"):
            return len(calls) != 1, f"{len(calls)} randint calls"
        if clause.startswith("independent_draw"):
            return not (len(calls) == 1 and calls[0][2] == tuple(x.shape)), f"randint size {calls and calls[0][2]} vs input shape {tuple(x.shape)}"
        if clause.startswith("draw_is_uniform"):
            return not (len(calls) == 1 and calls[0][0] == 0 and calls[0][1] == 2**s_), f"randint range {calls and calls[0][:2]}"
        if clause.startswith("dtype_and_shape"):
            return y.dtype != x.dtype or y.shape != x.shape, f"{y.dtype} {tuple(y.shape)}"
        if clause.startswith("argument_not_modified"):
            if not torch.equal(before, x):
                return True, "argument changed"
            # the frame clause also covers state that survives the call: does an EARLIER quantisation with
            # another random-bit count of the same E/M change what this format computes?
            import importlib

            import unit_scaling.formats as fm

            D_ = 23 - M
            real_randint = torch.randint
            xs = torch.tensor([0.3, 1.3, -2.7, 0.0, float(consts(E, M)[2])], dtype=torch.float32)
            msgs = []
            for other in sorted({0, 1, max(1, D_ - 1), D_} - {s_}):
                def run(history):
                    importlib.reload(fm)
                    out = None
                    for sb in history:
                        f = fm.FPFormat(E, M, "stochastic", srbits=sb)
                        hi_ = 2 ** f.srbits
                        torch.randint = lambda lo, hi, size, **kw: torch.full(tuple(size), (hi - 1) // 2, dtype=kw.get("dtype", torch.int64))
                        try:
                            out = f.quantise(xs.clone())
                        finally:
                            torch.randint = real_randint
                    return out
                alone, after = run([s_]), run([other, s_])
                if not torch.equal(alone, after):
                    msgs.append(f"E{E}M{M} srbits={s_} quantises {xs.tolist()} to {alone.tolist()} in a fresh process but to {after.tolist()} after a quantisation with srbits={other} (same draws)")
            importlib.reload(fm)
            return bool(msgs), "; ".join(msgs)[:600] or "unchanged, and independent of earlier quantisations"
        if clause.startswith("representable_input_never_moved"):
            return is_repr(E, M, Fraction(xv)) and bits_from_f32(float(y[0])) != xb, info
        if clause.startswith("representable"):
            return not is_repr(E, M, code), info
        if clause.startswith("sign_preserved"):
            return (bits_from_f32(float(y[0])) >> 31) != (xb >> 31), info
        if clause.startswith("is_one_of_the_two_neighbours"):
            return code not in (lo, hi), info
        if clause.startswith("rounds_away") or clause.startswith("scaled_position"):
            # exact oracle: position of the (RNE-)scaled value between its neighbours
            sp = Fraction(2) ** (max(emin, floor_log2(abs(cx)) if cx != 0 else emin) - M)
            a = abs(cx)
            if a >= Fraction(2) ** emin:
                d = (a - abs(lo if cx >= 0 else hi)) / sp * 2**D
            else:
                t = a / Fraction(2) ** (emin + 126) / Fraction(2) ** -149  # |cx| / downscale in float32-subnormal units
                fl = t.__floor__()
                r = t - fl
                mq = fl + (1 if (r > Fraction(1, 2) or (r == Fraction(1, 2) and fl % 2 == 1)) else 0)
                d = Fraction(mq % 2**D)
                base = (mq - mq % 2**D) * Fraction(2) ** -149 * Fraction(2) ** (emin + 126)
                lo, hi = (base, base + sp) if cx >= 0 else (-(base + sp), -base)
            sb = D - s_
            t_ = int(d) if sb == 0 else (int(d) + 2 ** (sb - 1)) // 2**sb
            away = R + t_ >= 2**s_
            near0, far0 = (lo, hi) if cx >= 0 else (hi, lo)
            expect = far0 if away else near0
            if d == 0:
                expect = near0 if not away else far0
            return code != expect, info + f" d={d} expected {'away' if away else 'toward zero'} -> {float(expect)!r}"
        return False, "no replay rule for " + clause

    handler(lambda rj: rj["job"].startswith("c14:quantise"))(replay_c14)
    handler(lambda rj: rj["job"].startswith("c13:quantise") or rj["job"].startswith("c13:reuse["))(replay_c13)
    handler(lambda rj: rj["job"].startswith("c13:range"))(replay_range)
