#!/venv/bin/python
import json
import os
import sys
from fractions import Fraction

sys.path.insert(0, os.path.dirname(os.path.abspath(__file__)))
sys.path.insert(0, os.environ.get("VERIF_REPO", "/repo"))
import torch  # noqa: E402
from replay_formats import bits_from_f32, f32_from_bits, is_repr  # noqa: E402
from unit_scaling.formats import FPFormat  # noqa: E402


def main():
    cases = json.load(open(sys.argv[1]))
    mism, n = [], 0
    real_randint = torch.randint
    for c in cases:
        f = FPFormat(c["E"], c["M"], c["rounding"], c["srbits"])
        x = torch.tensor([f32_from_bits(c["x"])], dtype=torch.float32)
        torch.randint = lambda lo, hi, size, **kw: torch.full(tuple(size), c["R"], dtype=kw.get("dtype", torch.int64))
        try:
            y = f.quantise(x)
        finally:
            torch.randint = real_randint
        got = bits_from_f32(float(y[0]))
        n += 1
        if got != c["want"] and not (float(y[0]) != float(y[0])):
            mism.append(f"E{c['E']}M{c['M']} {c['rounding']} x={c['x']:#010x} R={c['R']}: model {c['want']:#010x} torch {got:#010x}")
        xv = f32_from_bits(c["x"])
        n += 1
        if is_repr(c["E"], c["M"], Fraction(xv)) != c["repr"]:
            mism.append(f"repr_pred E{c['E']}M{c['M']} x={c['x']:#010x} ({xv!r}): predicate {c['repr']} oracle {not c['repr']}")
    print(json.dumps({"compared": n, "mismatches": mism[:10]}))


if __name__ == "__main__":
    main()
