"""Shared helpers for the sidecar contract jobs."""
from __future__ import annotations

from fractions import Fraction
from typing import Any, Callable, Dict, List, Optional, Sequence, Tuple

import z3

from pyvc import tensor as tz
from pyvc import torchmodel
from pyvc.harness import Record, compare_values, data_independent_goal, eval_expr, lc_equal_goal, lc_ratio, lookup_fn, mentions, run_config, shape_eq_goal
from pyvc.interp import Interp, PathResult
from pyvc.sym import SB, SV, Ctx, OutOfReach, PyRaise, zreal
from pyvc.tensor import LinComb, Run, Shape, SymTensor

from .summaries import INLINE, SUMMARIES


def mk_interp(ctx: Ctx, verifying: Sequence[str] = (), extra_inline: Sequence[str] = (), extra_contracts: Optional[Dict[str, Any]] = None, hook: Any = None) -> Interp:
    contracts = dict(SUMMARIES)
    if extra_contracts:
        contracts.update(extra_contracts)
    it = Interp(ctx, contracts=contracts, inline=list(INLINE) + list(extra_inline), verifying=verifying, externals=torchmodel.externals)
    hooks = [h for h in (hook if isinstance(hook, (list, tuple)) else [hook]) if h is not None]
    if hooks:
        def chained(interp: Any, name: str) -> Any:
            out: Any = None
            for h in hooks:
                r = h(interp, name)
                if r is not None:
                    out = dict(out or {}, **r)
            return out

        it.external_hook = chained  # type: ignore[attr-defined]
    return it


def pos_real(ctx: Ctx, name: str) -> SV:
    v = ctx.fresh_real(name)
    ctx.assume(v.z > 0)
    ctx.inputs[name] = v
    return v


def any_real(ctx: Ctx, name: str) -> SV:
    v = ctx.fresh_real(name)
    ctx.inputs[name] = v
    return v


def dim(ctx: Ctx, name: str, lo: int = 1) -> SV:
    v = ctx.fresh_int(name)
    ctx.assume(v.z >= lo)
    ctx.inputs[name] = v
    return v


def opaque(ctx: Ctx, name: str) -> tz.Opaque:
    o = tz.Opaque(z3.Const(ctx.fresh(name), tz.V), name)
    ctx.inputs[name] = o
    return o


def leaf(ctx: Ctx, name: str, shape: Shape, dtype: Any = None, float_dtype: bool = True) -> SymTensor:
    t = tz.new_leaf_tensor(ctx, name, shape, dtype)
    if float_dtype and dtype is None:
        ctx.assume(torchmodel.is_float_dtype(t.dtype))
    ctx.inputs[name] = t
    return t


def frame_obligations(ctx: Ctx, name: str, allow_out: Sequence[Any] = (), info: Optional[Dict[str, Any]] = None) -> None:
    """No input tensor / caller container / module-level state is written."""
    bad: List[str] = []
    for eff in ctx.effects:
        kind = eff[0]
        if kind in ("inplace", "requires_grad_"):
            st = eff[1]
            if isinstance(st, tz.Storage) and st.origin.startswith("input:"):
                bad.append(f"{kind} {eff[2]} on {st.origin}")
        elif kind == "out=":
            st = eff[1]
            if not any(st is getattr(a, "storage", None) for a in allow_out):
                bad.append(f"out= writes {st}")
        elif kind == "mutate":
            if eff[1] in ctx.protected:
                bad.append(f"{eff[2]} on {ctx.protected[eff[1]]}")
        elif kind == "setattr":
            tgt = eff[1]
            if isinstance(tgt, SymTensor) and any(tgt is v for v in ctx.inputs.values()):
                bad.append(f"setattr {eff[2]} on input tensor {tgt.name}")
            if id(tgt) in ctx.protected:
                bad.append(f"setattr {eff[2]} on {ctx.protected[id(tgt)]}")
    ctx.oblige(name, not bad, writes=bad, **(info or {}))


def grads_of(ctx: Ctx, interp: Interp, out: SymTensor, gname: str = "g") -> Tuple[z3.ExprRef, Dict[int, Tuple[Any, LinComb]]]:
    g = z3.Const(gname, tz.T)
    return g, tz.backward(ctx, out, LinComb.of(g), interp)


def grad_for(grads: Dict[int, Tuple[Any, LinComb]], t: SymTensor) -> LinComb:
    if t.node is None:
        return LinComb()
    return grads.get(t.node.id, (None, LinComb()))[1]
