"""C09: u-muP tags survive any history.  Representation invariant

  tagged_full(p) := p is an nn.Parameter  /\\  p.mup_type in MupType  /\\  p has mup_scaling_depth
                    /\\  p.__dict__['__deepcopy__']  is _parameter_deepcopy  bound to p
                    /\\  p.__dict__['__reduce_ex__'] is _parameter_reduce_ex bound to p

Every history step of the property is one of: Parameter(...), deepcopy (-> the instance hook
_parameter_deepcopy), pickle / torch.save round trip (-> the instance hook
_parameter_reduce_ex, then the returned callable applied to the returned arguments),
in-place module operations (same object: nothing to prove), a library transform (deepcopy +
torch_nn_modules_to_user_modules).  Each repo function is proved to preserve tagged_full
with equal tags / values / requires_grad, so ANY history does (induction on its length).
How copy / pickle / torch dispatch to these hooks is assumed (validated: group `copy`).
"""
from __future__ import annotations

from typing import Any, Callable, Dict, List

import z3

from pyvc import nnmodel
from pyvc import tensor as tz
from pyvc.harness import Record, lc_equal_goal, lookup_fn, run_config
from pyvc.interp import BoundMethod, Builtin, ExtClass, FuncVal, ObjVal, PathResult
from pyvc.sym import SV, Ctx, PyRaise
from pyvc.tensor import LinComb, Opaque, Run, Shape, Storage, SymTensor

from .common import dim, frame_obligations, leaf, mk_interp, opaque
from .jobs_optim import MUP_TYPES
from .registry import Job, register

P = "unit_scaling.parameter."


def param_deepcopy_base(interp: Any, args: List[Any], kwargs: Dict[str, Any]) -> Any:
    """ASSUMED nn.Parameter.__deepcopy__(self, memo): a plain nn.Parameter holding a clone of
    the data, same requires_grad, NO instance attributes."""
    p = args[0]
    r = SymTensor(p.shape, p.dtype, p.val, tz.Leaf(interp.ctx.fresh("copy")), Storage("fresh"), p.name + "_copy", p.requires_grad)
    r.is_parameter = True
    r.attrs = {}
    return r


def rebuild_with_state(interp: Any, args: List[Any], kwargs: Dict[str, Any]) -> Any:
    """ASSUMED torch._utils._rebuild_parameter_with_state(data, requires_grad, hooks, state)"""
    data, rg, hooks, state = args
    r = nnmodel.mk_parameter(interp, [data, rg], {})
    r.attrs = dict(state)
    return r


def get_obj_state(interp: Any, args: List[Any], kwargs: Dict[str, Any]) -> Any:
    """ASSUMED torch._utils._get_obj_state(obj): the instance __dict__"""
    return dict(args[0].attrs)


def set_obj_state(interp: Any, args: List[Any], kwargs: Dict[str, Any]) -> Any:
    """ASSUMED torch._utils._set_obj_state(obj, state): a dict state becomes instance attributes; returns obj"""
    obj, state = args
    if not isinstance(state, dict):
        raise PyRaise("RuntimeError", "Invalid serialized state")
    for k, v in state.items():
        interp.setattr(obj, k, v)
    return obj


def _hook(interp: Any, name: str) -> Any:
    if name == "torch.nn":
        ents = nnmodel.nn_entries(interp)
        ents["Parameter"] = ExtClass("Parameter", (), {"__new__": lambda it, a, k: nnmodel.mk_parameter(it, a[1:], k), "__deepcopy__": param_deepcopy_base})
        return ents
    if name == "torch._utils":
        return {"_rebuild_parameter_with_state": Builtin("torch._utils._rebuild_parameter_with_state", rebuild_with_state), "_get_obj_state": Builtin("torch._utils._get_obj_state", get_obj_state), "_set_obj_state": Builtin("torch._utils._set_obj_state", set_obj_state)}
    if name == "collections":
        return {"OrderedDict": Builtin("OrderedDict", lambda it, a, k: dict(*a, **k))}
    return None


def tagged_full(interp: Any, p: Any) -> Dict[str, bool]:
    dc = lookup_fn(interp, P + "_parameter_deepcopy")
    rx = lookup_fn(interp, P + "_parameter_reduce_ex")
    a = p.attrs if isinstance(p, SymTensor) else {}
    h1, h2 = a.get("__deepcopy__"), a.get("__reduce_ex__")
    return {
        "is_parameter": isinstance(p, SymTensor) and p.is_parameter,
        "has_type_tag": "mup_type" in a,
        "has_depth_tag": "mup_scaling_depth" in a,
        "deepcopy_hook_installed_and_bound_to_itself": isinstance(h1, BoundMethod) and h1.func is dc and h1.obj is p,
        "reduce_ex_hook_installed_and_bound_to_itself": isinstance(h2, BoundMethod) and h2.func is rx and h2.obj is p,
    }


def mk_tagged(interp: Any, ctx: Ctx, mup_type: Any, depth: Any) -> SymTensor:
    """an arbitrary parameter satisfying the invariant (with one arbitrary extra attribute)"""
    p = leaf(ctx, "param", Shape([Run(ctx, "shape")]))
    p.is_parameter = True
    p.requires_grad = opaque(ctx, "requires_grad")
    p.attrs = {"mup_type": mup_type, "mup_scaling_depth": depth, "user_attr": opaque(ctx, "user_attr")}
    p.attrs["__deepcopy__"] = BoundMethod(p, lookup_fn(interp, P + "_parameter_deepcopy"))
    p.attrs["__reduce_ex__"] = BoundMethod(p, lookup_fn(interp, P + "_parameter_reduce_ex"))
    return p


def _same_tags_values(ctx: Ctx, tag: str, src: SymTensor, res: Any) -> None:
    ok = isinstance(res, SymTensor)
    ctx.oblige(f"{tag}:returns_parameter", ok and res.is_parameter)
    if not ok:
        return
    ctx.oblige(f"{tag}:same_mup_type", res.attrs.get("mup_type", "<none>") is src.attrs["mup_type"])
    ctx.oblige(f"{tag}:same_mup_scaling_depth", res.attrs.get("mup_scaling_depth", "<none>") is src.attrs["mup_scaling_depth"])
    ctx.oblige(f"{tag}:same_values", lc_equal_goal(ctx, res.val, src.val))
    ctx.oblige(f"{tag}:same_shape_and_dtype", res.shape.eq(ctx, src.shape) is True and res.dtype is src.dtype)
    ctx.oblige(f"{tag}:same_requires_grad", res.requires_grad is src.requires_grad)


def _invariant(ctx: Ctx, interp: Any, tag: str, res: Any) -> None:
    for k, v in tagged_full(interp, res).items():
        ctx.oblige(f"{tag}:invariant_{k}", v)


def _job(which: str) -> Callable[[], Record]:
    def run() -> Record:
        tag = f"C09:parameter.{which}"
        verifying = [P + "Parameter", P + "_parameter_deepcopy", P + "_parameter_reduce_ex", P + "_rebuild_parameter_with_state"]

        def build(ctx: Ctx) -> Any:
            it = mk_interp(ctx, verifying=verifying, hook=_hook)
            mt, depth = opaque(ctx, "mup_type"), opaque(ctx, "mup_scaling_depth")

            def thunk() -> Any:
                if which == "Parameter":
                    data = leaf(ctx, "data", Shape([Run(ctx, "shape")]))
                    res = it.call(lookup_fn(it, P + "Parameter"), [data, mt, depth], {})
                    return ("ctor", data, mt, depth, res)
                src = mk_tagged(it, ctx, mt, depth)
                if which == "_parameter_deepcopy":
                    # copy.deepcopy(p) -> p.__deepcopy__(memo) (instance attribute: assumed)
                    res = it.call(src.attrs["__deepcopy__"], [{}], {})
                    return ("copy", src, res)
                red = it.call(src.attrs["__reduce_ex__"], [opaque(ctx, "protocol")], {})
                fn, args = red[0], red[1]
                res = it.call(fn, list(args), {})  # unpickling applies the callable to the arguments (assumed)
                return ("pickle", src, res, fn, args)

            return it, thunk

        def post(p: PathResult, i: int) -> Any:
            ctx = p.ctx
            it = p.interp
            if p.outcome != "return":
                ctx.oblige(f"{tag}:no_exception", False, exc=str(p.exc))
                return None
            v = p.value
            if v[0] == "ctor":
                _, data, mt, depth, res = v
                _invariant(ctx, it, tag, res)
                ok = isinstance(res, SymTensor)
                ctx.oblige(f"{tag}:tags_are_the_arguments", ok and res.attrs.get("mup_type") is mt and res.attrs.get("mup_scaling_depth") is depth)
                ctx.oblige(f"{tag}:wraps_the_given_data(no copy, no re-initialisation)", ok and res.storage is data.storage and lc_equal_goal(ctx, res.val, data.val) is not False)
                ctx.oblige(f"{tag}:trainable", ok and res.requires_grad is True)
                frame_obligations(ctx, f"{tag}:frame")
                return None
            src, res = v[1], v[2]
            _same_tags_values(ctx, tag, src, res)
            _invariant(ctx, it, tag, res)
            if isinstance(res, SymTensor):
                ctx.oblige(f"{tag}:other_instance_attributes_kept" if v[0] == "pickle" else f"{tag}:result_is_a_distinct_object", (res.attrs.get("user_attr") is src.attrs["user_attr"]) if v[0] == "pickle" else res is not src)
                if v[0] == "copy":
                    ctx.oblige(f"{tag}:no_storage_shared_with_the_source", res.storage is not src.storage)
                else:
                    fn, args = v[3], v[4]
                    ctx.oblige(f"{tag}:reduce_returns_the_library_rebuild_function", isinstance(fn, FuncVal) and fn.qualname == "_rebuild_parameter_with_state")
                    state = args[3] if len(args) == 4 else {}
                    ctx.oblige(f"{tag}:pickled_state_omits_the_unpicklable_hooks", isinstance(state, dict) and "__deepcopy__" not in state and "__reduce_ex__" not in state)
                    ctx.oblige(f"{tag}:pickled_state_keeps_the_tags", isinstance(state, dict) and state.get("mup_type") is src.attrs["mup_type"] and state.get("mup_scaling_depth") is src.attrs["mup_scaling_depth"])
            # the source is left as it was
            for k, ok_ in tagged_full(it, src).items():
                ctx.oblige(f"{tag}:source_still_satisfies_invariant_{k}", ok_)
            return None

        return run_config(P + which, {"history": {"_parameter_deepcopy": ["deepcopy", "deepcopy"], "_parameter_reduce_ex": ["pickle", "deepcopy"], "Parameter": []}[which]}, build, post)

    return run


for _w in ("Parameter", "_parameter_deepcopy", "_parameter_reduce_ex"):
    register(Job(f"c09:{_w}", ["C09", "C08"] if _w == "Parameter" else ["C09", "C17"], P + _w, {}, _job(_w), shared=True))


def _parameter_contract_job() -> Record:
    """the contract of Parameter used by the module jobs (C08) equals its body"""
    from .jobs_modules import s_Parameter

    tag = "C09:parameter.Parameter"

    def build(ctx: Ctx) -> Any:
        it = mk_interp(ctx, verifying=[P + "Parameter"], hook=_hook)
        data = leaf(ctx, "data", Shape([Run(ctx, "shape")]))
        mt, depth = opaque(ctx, "mup_type"), opaque(ctx, "mup_scaling_depth")

        def thunk() -> Any:
            body = it.call(lookup_fn(it, P + "Parameter"), [data, mt, depth], {})
            spec = s_Parameter(it, {"data": data, "mup_type": mt, "mup_scaling_depth": depth})
            return body, spec

        return it, thunk

    def post(p: PathResult, i: int) -> Any:
        ctx = p.ctx
        if p.outcome != "return":
            ctx.oblige(f"{tag}:no_exception", False, exc=str(p.exc))
            return None
        body, spec = p.value
        ok = isinstance(body, SymTensor) and body.is_parameter and body.storage is spec.storage and set(body.attrs) == {k for k in spec.attrs if not k.startswith("__made")} and body.attrs["mup_type"] is spec.attrs["mup_type"] and body.attrs["mup_scaling_depth"] is spec.attrs["mup_scaling_depth"]
        ctx.oblige(f"{tag}:body==contract_used_by_module_jobs", ok, body_attrs=sorted(getattr(body, "attrs", {})), spec_attrs=sorted(spec.attrs))
        return None

    return run_config(P + "Parameter", {"contract": True}, build, post)


register(Job("c09:Parameter-contract", ["C09", "C08"], P + "Parameter", {"contract": True}, _parameter_contract_job))
