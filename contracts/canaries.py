"""Canaries: in-memory mutants of the REAL source for which a named obligation must come
back violated.  A canary that verifies means the engine is unsound or the contract
vacuous: the check exits 3.  (A canary whose pattern no longer occurs in the source is
reported as pattern-not-found and skipped: refactorings must not raise alarms.)"""
from __future__ import annotations

from typing import Any, Dict

F = "unit_scaling/functional.py"
FM = "unit_scaling.functional"

CANARIES: Dict[str, Dict[str, Any]] = {
    "linear-batch-is-shape0": dict(
        props=["C03"], file=F, module=FM,
        old="batch_size = input.numel() // fan_in", new="batch_size = input.shape[0]",
        job="op:linear[bias=True,constraint=None,scale_power=default]", expect=["C03:functional.linear:grad[weight]", "no_exception"],
    ),
    "scale_bwd-drops-factor": dict(
        props=["C02"], file="unit_scaling/scale.py", module="unit_scaling.scale",
        old="return bwd_scale * grad_Y, None, None", new="return grad_Y, None, None",
        job="core:scale_bwd", expect=["C02:scale.scale_bwd:body==contract:grad"],
    ),
    "scale_fwd-is-scale_bwd": dict(
        props=["C02"], file="unit_scaling/scale.py", module="unit_scaling.scale",
        old="return _scale(input, fwd_scale=scale)", new="return _scale(input, bwd_scale=scale)",
        job="core:scale_fwd", expect=["C02:scale.scale_fwd:body==contract"],
    ),
    "matmul-wrong-operand-scale": dict(
        props=["C03", "C05"], file=F, module=FM,
        old="left = scale_bwd(left, left_grad_scale)", new="left = scale_bwd(left, right_grad_scale)",
        job="op:matmul[constraint=None]", expect=["C03:functional.matmul:grad[left]"],
    ),
    "matmul-wrong-operand-scale-constrained": dict(
        props=["C05"], file=F, module=FM,
        old="left = scale_bwd(left, left_grad_scale)", new="left = scale_bwd(left, right_size**-0.5)",
        job="op:matmul[constraint=to_right_grad_scale]", expect=["C05:functional.matmul:grad_scale[left]"],
    ),
    "apply_constraint-returns-unconstrained": dict(
        props=["C05"], file="unit_scaling/constraints.py", module="unit_scaling.constraints",
        old="return tuple(scale for _ in scales)", new="return scales",
        job="core:apply_constraint['gmean',2]", expect=["C05:constraints.apply_constraint:body==contract"],
    ),
    "dropout-scale-not-sqrt": dict(
        props=["C03"], file=F, module=FM,
        old="output_scale = grad_input_scale = (1 - p) ** 0.5", new="output_scale = grad_input_scale = (1 - p)",
        job="op:dropout[]", expect=["C03:functional.dropout"],
    ),
    "linear-data-dependent-scale": dict(
        props=["C01"], file=F, module=FM,
        old="output_scale = 1 / fan_in ** scale_power[0]", new="output_scale = 1 / float(input.std())",
        job="op:linear[bias=False,constraint=None,scale_power=default]", expect=["C01:functional.linear:k_data_independent"],
    ),
    "mse-writes-its-input": dict(
        props=["C01"], file=F, module=FM,
        old="    grad_scale = 8**-0.5\n", new="    grad_scale = 8**-0.5\n    target *= 1.0\n",
        job="op:mse_loss[reduction=mean]", expect=["C01:functional.mse_loss:frame_no_input_written"],
    ),
    "mse-mean-divides-twice": dict(
        props=["C01"], file=F, module=FM,
        old="return scale_fwd(loss, 1 / input.nelement())", new="return scale_fwd(loss, 1 / input.nelement() ** 2)",
        job="op:mse_loss[reduction=mean]", expect=["C01:functional.mse_loss:k_equals_1"],
    ),
    "conv1d-grad-weight-ignores-batch": dict(
        props=["C03"], file=F, module=FM,
        old="        batch_size *= input.shape[:-2].numel()", new="        batch_size *= 1",
        job="op:conv1d[batched=True,bias=True,constraint=None]", expect=["C03:functional.conv1d:grad[weight]"],
    ),
    "softmax-grad-scale-ignores-mult": dict(
        props=["C05"], file=F, module=FM,
        old="    scaled_softmax = scale_elementwise(\n        _unscaled_softmax, output_scale, grad_input_scale, constraint\n    )",
        new="    scaled_softmax = scale_elementwise(\n        _unscaled_softmax, output_scale, grad_input_scale, None\n    )",
        job="op:softmax[constraint=gmean,dtype=None]", expect=["C05:functional.softmax"],
    ),
}
