"""Canaries: in-memory mutants of the REAL source for which a named obligation must come
back violated.  A canary that verifies means the engine is unsound or the contract
vacuous: the check exits 3.  (A canary whose pattern no longer occurs in the source is
reported as pattern-not-found and skipped: refactorings must not raise alarms.)"""
from __future__ import annotations

from typing import Any, Dict

F = "unit_scaling/functional.py"
FM = "unit_scaling.functional"

CANARIES: Dict[str, Dict[str, Any]] = {
    "linear-batch-is-shape0": dict(
        props=["C03"], file=F, module=FM,
        old="batch_size = input.numel() // fan_in", new="batch_size = input.shape[0]",
        job="op:linear[bias=True,constraint=None,scale_power=default]", expect=["C03:functional.linear:grad[weight]", "no_exception"],
    ),
    "scale_bwd-drops-factor": dict(
        props=["C02"], file="unit_scaling/scale.py", module="unit_scaling.scale",
        old="return bwd_scale * grad_Y, None, None", new="return grad_Y, None, None",
        job="core:scale_bwd", expect=["C02:scale.scale_bwd:body==contract:grad"],
    ),
    "scale_fwd-is-scale_bwd": dict(
        props=["C02"], file="unit_scaling/scale.py", module="unit_scaling.scale",
        old="return _scale(input, fwd_scale=scale)", new="return _scale(input, bwd_scale=scale)",
        job="core:scale_fwd", expect=["C02:scale.scale_fwd:body==contract"],
    ),
    "matmul-wrong-operand-scale": dict(
        props=["C03", "C05"], file=F, module=FM,
        old="left = scale_bwd(left, left_grad_scale)", new="left = scale_bwd(left, right_grad_scale)",
        job="op:matmul[constraint=None]", expect=["C03:functional.matmul:grad[left]"],
    ),
    "matmul-wrong-operand-scale-constrained": dict(
        props=["C05"], file=F, module=FM,
        old="left = scale_bwd(left, left_grad_scale)", new="left = scale_bwd(left, right_size**-0.5)",
        job="op:matmul[constraint=to_right_grad_scale]", expect=["C05:functional.matmul:grad_scale[left]"],
    ),
    "apply_constraint-returns-unconstrained": dict(
        props=["C05"], file="unit_scaling/constraints.py", module="unit_scaling.constraints",
        old="return tuple(scale for _ in scales)", new="return scales",
        job="core:apply_constraint['gmean',2]", expect=["C05:constraints.apply_constraint:body==contract"],
    ),
    "dropout-scale-not-sqrt": dict(
        props=["C03"], file=F, module=FM,
        old="output_scale = grad_input_scale = (1 - p) ** 0.5", new="output_scale = grad_input_scale = (1 - p)",
        job="op:dropout[]", expect=["C03:functional.dropout"],
    ),
    "linear-data-dependent-scale": dict(
        props=["C01"], file=F, module=FM,
        old="output_scale = 1 / fan_in ** scale_power[0]", new="output_scale = 1 / float(input.std())",
        job="op:linear[bias=False,constraint=None,scale_power=default]", expect=["C01:functional.linear:k_data_independent"],
    ),
    "mse-writes-its-input": dict(
        props=["C01"], file=F, module=FM,
        old="    grad_scale = 8**-0.5\n", new="    grad_scale = 8**-0.5\n    target *= 1.0\n",
        job="op:mse_loss[reduction=mean]", expect=["C01:functional.mse_loss:frame_no_input_written"],
    ),
    "mse-mean-divides-twice": dict(
        props=["C01"], file=F, module=FM,
        old="return scale_fwd(loss, 1 / input.nelement())", new="return scale_fwd(loss, 1 / input.nelement() ** 2)",
        job="op:mse_loss[reduction=mean]", expect=["C01:functional.mse_loss:k_equals_1"],
    ),
    "conv1d-grad-weight-ignores-batch": dict(
        props=["C03"], file=F, module=FM,
        old="        batch_size *= input.shape[:-2].numel()", new="        batch_size *= 1",
        job="op:conv1d[batched=True,bias=True,constraint=None]", expect=["C03:functional.conv1d:grad[weight]"],
    ),
    "softmax-grad-scale-ignores-mult": dict(
        props=["C05"], file=F, module=FM,
        old="    scaled_softmax = scale_elementwise(\n        _unscaled_softmax, output_scale, grad_input_scale, constraint\n    )",
        new="    scaled_softmax = scale_elementwise(\n        _unscaled_softmax, output_scale, grad_input_scale, None\n    )",
        job="op:softmax[constraint=gmean,dtype=None]", expect=["C05:functional.softmax"],
    ),
    "scaled_parameters-no-clone": dict(
        props=["C11"], file="unit_scaling/optim.py", module="unit_scaling.optim",
        old="                    param_lr = param_lr.clone()\n", new="                    pass\n",
        job="c11:scaled_parameters[allow=False,entry=dict,global_lr=float,group_lr=tensor,group_wd=False,independent=True,tagged=True]",
        expect=["scaled_tensor_lr_is_a_fresh_tensor", "frame_no_caller_state_written"],
    ),
    "scaled_parameters-no-copy": dict(
        props=["C11"], file="unit_scaling/optim.py", module="unit_scaling.optim",
        old="else entry.copy()", new="else entry",
        job="c11:scaled_parameters[allow=False,entry=dict,global_lr=float,group_lr=absent,group_wd=False,independent=True,tagged=True]",
        expect=["callers_group_dict_unchanged", "frame_no_caller_state_written"],
    ),
    "scaled_parameters-wd-multiplied": dict(
        props=["C11"], file="unit_scaling/optim.py", module="unit_scaling.optim",
        old="param_weight_decay /= float(param_lr)", new="param_weight_decay *= float(param_lr)",
        job="c11:scaled_parameters[allow=False,entry=tensor,global_lr=float,group_lr=absent,group_wd=False,independent=True,tagged=True]",
        expect=["independent_weight_decay_lr_times_wd_is_requested_decay"],
    ),
    "scaled_parameters-lr-not-scaled-for-group-lr": dict(
        props=["C10"], file="unit_scaling/optim.py", module="unit_scaling.optim",
        old="                param_lr *= lr_scale_func(param)", new="                param_lr *= lr_scale_func(param) if lr is None else 1.0",
        job="c11:scaled_parameters[allow=False,entry=dict,global_lr=float,group_lr=float,group_wd=False,independent=True,tagged=True]",
        expect=["group_lr_is_source_lr_times_factor"],
    ),
    "adam-weight-exponent-sign": dict(
        props=["C10", "C12"], file="unit_scaling/optim.py", module="unit_scaling.optim",
        old="return scale * _get_fan_in(param) ** -0.5", new="return scale * _get_fan_in(param) ** 0.5",
        job="c10:lr_rule[adam,rank=2,weight,depth=int]", expect=["factor_squared_matches_u-muP_table"],
    ),
    "fan_in-3d-drops-kernel": dict(
        props=["C10"], file="unit_scaling/optim.py", module="unit_scaling.optim",
        old="return param.shape[1] * param.shape[2]", new="return param.shape[1]",
        job="c10:_get_fan_in[rank=3]", expect=["_get_fan_in:body==contract"],
    ),
    "sgd-class-uses-adam-rule": dict(
        props=["C10"], file="unit_scaling/optim.py", module="unit_scaling.optim",
        old="            lr_scale_func_sgd(readout_constraint),", new="            lr_scale_func_adam,",
        job="c10:SGD.__init__[rc=to_output_scale]", expect=["uses_sgd_output_scaled_readout_rule"],
    ),
    "residual_add-swapped-weights": dict(
        props=["C06"], file=F, module=FM,
        old="    skip = scale_fwd(skip, 1 / denom)", new="    skip = scale_fwd(skip, tau / denom)",
        job="c06:residual[sequence]", expect=["C06:functional.residual_sequence:skip_weight", "mixing_weights"],
    ),
    "residual_split-uses-scale_fwd": dict(
        props=["C06"], file=F, module=FM,
        old="    residual = scale_bwd(input, tau / denom)", new="    residual = scale_fwd(input, tau / denom)",
        job="c06:residual[sequence]", expect=["C06:functional.residual_sequence"],
    ),
    "residual-denominator-1-plus-tau": dict(
        props=["C06"], file=F, module=FM,
        old="    denom = (1 + tau**2) ** 0.5\n    residual = scale_fwd", new="    denom = (1 + tau) ** 0.5\n    residual = scale_fwd",
        job="c06:residual[sequence]", expect=["C06:functional.residual_sequence"],
    ),
    "tau-rule-wrong-count": dict(
        props=["C07"], file="unit_scaling/core/functional.py", module="unit_scaling.core.functional",
        old="n_attn = (index + 1) // 2", new="n_attn = index // 2",
        job="c07:tau_rule[parity=1]", expect=["tau_sq_times_S_equals_a_sq"],
    ),
    "tau-rule-alpha-swap": dict(
        props=["C07"], file="unit_scaling/core/functional.py", module="unit_scaling.core.functional",
        old="(alpha_attn if (index % 2) == 0 else alpha_mlp)", new="(alpha_mlp if (index % 2) == 0 else alpha_attn)",
        job="c07:tau_rule[parity=0]", expect=["tau_sq_times_S_equals_a_sq"],
    ),
    "quantise-offset-off-by-one": dict(
        props=["C13"], file="unit_scaling/formats.py", module="unit_scaling.formats",
        old="            offset = mask // 2\n", new="            offset = mask // 2 + 2\n",
        job="c13:quantise[E4M3,nearest]", expect=["nearest("],
    ),
    "quantise-offset-zero": dict(
        props=["C13"], file="unit_scaling/formats.py", module="unit_scaling.formats",
        old="            offset = mask // 2\n", new="            offset = mask // 4\n",
        job="c13:quantise[E5M2,nearest]", expect=["nearest("],
    ),
    "quantise-wrong-downscale": dict(
        props=["C13"], file="unit_scaling/formats.py", module="unit_scaling.formats",
        old="downscale = 2.0 ** (127 - 2 ** (self.exponent_bits - 1))", new="downscale = 2.0 ** (128 - 2 ** (self.exponent_bits - 1))",
        job="c13:quantise[E4M3,core]", expect=["representable"],
    ),
    "quantise-clips-original-dtype": dict(
        props=["C13"], file="unit_scaling/formats.py", module="unit_scaling.formats",
        old="q = torch.clip(q, -absmax, absmax)", new="q = torch.clip(x, -absmax, absmax)",
        job="c13:quantise-dtype[E4M3,float64,rank=1]", expect=["shape_preserved"],
    ),
    "quantise-in-place-on-argument": dict(
        props=["C13"], file="unit_scaling/formats.py", module="unit_scaling.formats",
        old="        q = torch.clip(q, -absmax, absmax)\n", new="        pass\n",
        job="c13:quantise[E4M3,core]", expect=["argument_not_modified"],
    ),
    "max-value-wrong-mantissa": dict(
        props=["C13"], file="unit_scaling/formats.py", module="unit_scaling.formats",
        old="2**max_exponent * (2 - 2**-self.mantissa_bits)", new="2**max_exponent * (2 - 2**-(self.mantissa_bits + 1))",
        job="c13:range[E4M3]", expect=["max_absolute_value_is_largest_value"],
    ),
    "max-value-python-int-for-E8M0": dict(
        props=["C13"], file="unit_scaling/formats.py", module="unit_scaling.formats",
        old="return float(2**max_exponent * (2 - 2**-self.mantissa_bits))", new="return 2**max_exponent * (2 - 2**-self.mantissa_bits)",
        job="c13:quantise[E8M0,core]", expect=["C13:formats.FPFormat.quantise[E8M0]:no_exception"],
    ),
    "quantise-mask-int64-breaks-0-dim": dict(
        props=["C13"], file="unit_scaling/formats.py", module="unit_scaling.formats",
        old="2 ** (23 - self.mantissa_bits) - 1, dtype=torch.int32, device=x.device", new="2 ** (23 - self.mantissa_bits) - 1, device=x.device",
        job="c13:quantise-dtype[E4M3,float32,rank=0]", expect=["no_exception[rank=0]"],
    ),
    "sr-no-bias-correction": dict(
        props=["C14"], file="unit_scaling/formats.py", module="unit_scaling.formats",
        old="                offset += 1 << (srbitsbar - 1)", new="                offset += 0",
        job="c14:quantise[E4M3,sr=4,threshold_normal]", expect=["rounds_away_iff"],
    ),
    "sr-offset-shifted-one-bit-too-far": dict(
        props=["C14"], file="unit_scaling/formats.py", module="unit_scaling.formats",
        old="                << srbitsbar\n", new="                << (srbitsbar + 1)\n",
        job="c14:quantise[E5M2,sr=1,neighbour]", expect=["is_one_of_the_two_neighbours"],
    ),
    "sr-shared-draw-for-all-elements": dict(
        props=["C14"], file="unit_scaling/formats.py", module="unit_scaling.formats",
        old="0, 2**self.srbits, x.shape, dtype=torch.int32, device=x.device", new="0, 2**self.srbits, (1,), dtype=torch.int32, device=x.device",
        job="c14:quantise[E4M3,sr=4,core]", expect=["independent_draw_per_element"],
    ),
    "sr-range-one-bit-short": dict(
        props=["C14"], file="unit_scaling/formats.py", module="unit_scaling.formats",
        old="0, 2**self.srbits, x.shape", new="0, 2 ** (self.srbits - 1), x.shape",
        job="c14:quantise[E4M3,sr=4,core]", expect=["draw_is_uniform"],
    ),
    "linear-module-drops-constraint": dict(
        props=["C08"], file="unit_scaling/_modules.py", module="unit_scaling._modules",
        old="return U.linear(input, self.weight, self.bias, self.constraint)", new="return U.linear(input, self.weight, self.bias)",
        job="mod:Linear[bias=False]", expect=["option_constraint_honoured"],
    ),
    "conv1d-module-drops-constraint": dict(
        props=["C08"], file="unit_scaling/_modules.py", module="unit_scaling._modules",
        old="            self.groups,\n            self.constraint,\n", new="            self.groups,\n",
        job="mod:Conv1d[bias=False,padding_mode=zeros]", expect=["option_constraint_honoured"],
    ),
    "conv1d-module-pads-twice": dict(
        props=["C08"], file="unit_scaling/_modules.py", module="unit_scaling._modules",
        old="            padding = 0  # already applied above\n", new="            pass\n",
        job="mod:Conv1d[bias=False,padding_mode=circular]", expect=["option_padding_honoured"],
    ),
    "readout-weight-tagged-as-weight": dict(
        props=["C08", "C12"], file="unit_scaling/_modules.py", module="unit_scaling._modules",
        old='weight_mup_type: MupType = "output",', new='weight_mup_type: MupType = "weight",',
        job="mod:LinearReadout(defaults)[]", expect=["parameter_weight_mup_type"],
    ),
    "embedding-module-drops-padding_idx": dict(
        props=["C08"], file="unit_scaling/_modules.py", module="unit_scaling._modules",
        old="            self.padding_idx,\n            self.max_norm,", new="            None,\n            self.max_norm,",
        job="mod:Embedding[padding_idx=given]", expect=["option_padding_idx_honoured"],
    ),
    "mhsa-ignores-mult": dict(
        props=["C08"], file="unit_scaling/_modules.py", module="unit_scaling._modules",
        old="is_causal=self.is_causal, mult=self.mult", new="is_causal=self.is_causal",
        job="mod:MHSA", expect=["option_mult_honoured"],
    ),
    "stack-swaps-attention-and-mlp-tau": dict(
        props=["C07"], file="unit_scaling/_modules.py", module="unit_scaling._modules",
        old="mhsa_tau=residual_scaling(2 * i, 2 * layers),", new="mhsa_tau=residual_scaling(2 * i + 1, 2 * layers),",
        job="mod:TransformerStack", expect=["attention_tau_is_rule"],
    ),
    "stack-passes-layers-not-branches": dict(
        props=["C07"], file="unit_scaling/_modules.py", module="unit_scaling._modules",
        old="mlp_tau=residual_scaling(2 * i + 1, 2 * layers),", new="mlp_tau=residual_scaling(2 * i + 1, layers),",
        job="mod:TransformerStack", expect=["mlp_tau_is_rule"],
    ),
    "layer-second-split-uses-mhsa-tau": dict(
        props=["C07", "C08"], file="unit_scaling/_modules.py", module="unit_scaling._modules",
        old="input, skip = U.residual_split(input, tau=self.mlp_tau)", new="input, skip = U.residual_split(input, tau=self.mhsa_tau)",
        job="mod:TransformerLayer", expect=["mlp_tau_used_in_second_split_and_add"],
    ),
    "rmsnorm-gain-tagged-weight": dict(
        props=["C08"], file="unit_scaling/_modules.py", module="unit_scaling._modules",
        old='Parameter(torch.ones(normalized_shape), "norm")', new='Parameter(torch.ones(normalized_shape), "weight")',
        job="mod:RMSNorm[affine=True,shape=int]", expect=["parameter_weight_mup_type"],
    ),
    "deepcopy-hook-not-reinstalled": dict(
        props=["C09"], file="unit_scaling/parameter.py", module="unit_scaling.parameter",
        old="    result.__deepcopy__ = _parameter_deepcopy.__get__(result)\n", new="",
        job="c09:_parameter_deepcopy", expect=["invariant_deepcopy_hook_installed"],
    ),
    "deepcopy-drops-depth": dict(
        props=["C09"], file="unit_scaling/parameter.py", module="unit_scaling.parameter",
        old="    result.mup_scaling_depth = self.mup_scaling_depth\n", new="    result.mup_scaling_depth = None\n",
        job="c09:_parameter_deepcopy", expect=["same_mup_scaling_depth"],
    ),
    "reduce-ex-filters-tags": dict(
        props=["C09"], file="unit_scaling/parameter.py", module="unit_scaling.parameter",
        old='if k not in ["__deepcopy__", "__reduce_ex__"]', new='if k not in ["__deepcopy__", "__reduce_ex__", "mup_scaling_depth"]',
        job="c09:_parameter_reduce_ex", expect=["same_mup_scaling_depth", "pickled_state_keeps_the_tags"],
    ),
    "rebuild-forgets-hooks": dict(
        props=["C09"], file="unit_scaling/parameter.py", module="unit_scaling.parameter",
        old="    p.__reduce_ex__ = _parameter_reduce_ex.__get__(p)\n    return p\n\n\ndef _parameter_reduce_ex", new="    return p\n\n\ndef _parameter_reduce_ex",
        job="c09:_parameter_reduce_ex", expect=["invariant_reduce_ex_hook_installed"],
    ),
    "c12-readout-uses-sqrt-scale": dict(
        props=["C12"], file=F, module=FM,
        old="input, weight, bias, constraint=constraint, scale_power=(1.0, 0.5, 0.5)", new="input, weight, bias, constraint=constraint, scale_power=(0.5, 0.5, 0.5)",
        job="c12:LinearReadout[constraint=default,depth=None]", expect=["out_scale*lr_factor*fan"],
    ),
    "c12-readout-tagged-weight": dict(
        props=["C12"], file="unit_scaling/_modules.py", module="unit_scaling._modules",
        old='weight_mup_type: MupType = "output",', new='weight_mup_type: MupType = "weight",',
        job="c12:LinearReadout[constraint=default,depth=int]", expect=["out_scale*lr_factor*fan", "tag_is_output"],
    ),
    "c12-adam-weight-rule-no-fan_in": dict(
        props=["C12"], file="unit_scaling/optim.py", module="unit_scaling.optim",
        old="return scale * _get_fan_in(param) ** -0.5", new="return scale",
        job="c12:Linear[constraint=default,depth=int]", expect=["out_scale*lr_factor*fan"],
    ),
    "c12-conv-fan_in-drops-kernel": dict(
        props=["C12"], file="unit_scaling/optim.py", module="unit_scaling.optim",
        old="return param.shape[1] * param.shape[2]", new="return param.shape[1]",
        job="c12:Conv1d[constraint=default,depth=None]", expect=["out_scale*lr_factor*fan"],
        via="c10:_get_fan_in[rank=3]", via_expect=["_get_fan_in:body==contract"],
    ),
    "cross-entropy-grad-scale-sqrt-V": dict(
        props=["C04"], file=F, module=FM,
        old="input = scale_bwd(input, vocab_size / (vocab_size - 1) ** 0.5)", new="input = scale_bwd(input, vocab_size**0.5)",
        job="op:cross_entropy[rank=2,reduction=sum]", expect=["C04:functional.cross_entropy"],
    ),
    "log-interpolation-sign": dict(
        props=["C04"], file="unit_scaling/core/functional.py", module="unit_scaling.core.functional",
        old="alpha * math.log(upper) + (1 - alpha) * math.log(lower)", new="alpha * math.log(upper) - (1 - alpha) * math.log(lower)",
        job="core:logarithmic_interpolation", expect=["between_limits", "body==contract"],
    ),
    "softmax-scale-outside-limits": dict(
        props=["C04"], file=F, module=FM,
        old="        upper=dim_size**0.5,  # one-hot limit", new="        upper=dim_size**0.25,  # one-hot limit",
        job="op:softmax[constraint=None,dtype=None]", expect=["C04:functional.softmax:output_scale_between"],
    ),
    "c15-wrapper-quantises-bias": dict(
        props=["C15"], file="unit_scaling/transforms/_simulate_format.py", module="unit_scaling.transforms._simulate_format",
        old="    weight = fwd_format.quantise_fwd(weight)\n    output = F.linear(input, weight, bias)", new="    weight = fwd_format.quantise_fwd(weight)\n    bias = fwd_format.quantise_fwd(bias)\n    output = F.linear(input, weight, bias)",
        job="c15:wrapper[_quantised_linear]", expect=["equals_op_on_fwd_quantised_operands"],
    ),
    "c15-wrapper-backward-uses-forward-format": dict(
        props=["C15"], file="unit_scaling/transforms/_simulate_format.py", module="unit_scaling.transforms._simulate_format",
        old="    output = F.linear(input, weight, bias)\n    return bwd_format.quantise_bwd(output)", new="    output = F.linear(input, weight, bias)\n    return fwd_format.quantise_bwd(output)",
        job="c15:wrapper[_quantised_linear]", expect=["equals_op_on_fwd_quantised_operands"],
    ),
    "c15-quantise_bwd-passes-gradient-through": dict(
        props=["C15"], file="unit_scaling/formats.py", module="unit_scaling.formats",
        old="                return self.quantise(grad_y)", new="                return grad_y",
        job="c15:quantise_bwd[nearest,srbits_given=False]", expect=["body==straight_through_contract"],
    ),
    "c15-quantise_fwd-quantises-gradient-too": dict(
        props=["C15"], file="unit_scaling/formats.py", module="unit_scaling.formats",
        old="            ) -> Tensor:\n                return grad_y\n", new="            ) -> Tensor:\n                return self.quantise(grad_y)\n",
        job="c15:quantise_fwd[nearest,srbits_given=False]", expect=["body==straight_through_contract"],
    ),
    "c15-fp8-formats-swapped": dict(
        props=["C15"], file="unit_scaling/transforms/_simulate_format.py", module="unit_scaling.transforms._simulate_format",
        old="fwd_format=FPFormat(4, 3), bwd_format=FPFormat(5, 2)", new="fwd_format=FPFormat(5, 2), bwd_format=FPFormat(4, 3)",
        job="c15:simulate_fp8", expect=["forward_format_is_E4M3"],
    ),
    "c15-format-tuple-drops-srbits": dict(
        props=["C15"], file="unit_scaling/formats.py", module="unit_scaling.formats",
        old="        format.rounding,\n        format.srbits,\n    )", new="        format.rounding,\n    )",
        job="c15:format_tuple_roundtrip[stochastic,srbits_given=True]", expect=["round_trip_preserves_srbits"],
    ),
    "c15-backend-erases-without-rewiring": dict(
        props=["C15"], file="unit_scaling/transforms/utils.py", module="unit_scaling.transforms.utils",
        old="        source.replace_all_uses_with(new_node)\n", new="",
        job="c15:backend[match:F.linear]", expect=["C15:transforms._simulate_format._quantisation_backend"],
    ),
    "c15-attention-wrapper-skips-value": dict(
        props=["C15"], file="unit_scaling/transforms/_simulate_format.py", module="unit_scaling.transforms._simulate_format",
        old="    query, key, value = (fwd_format.quantise_fwd(t) for t in (query, key, value))\n    output = F.scaled_dot_product_attention", new="    query, key = (fwd_format.quantise_fwd(t) for t in (query, key))\n    output = F.scaled_dot_product_attention",
        job="c15:wrapper[_quantised_scaled_dot_product_attention]", expect=["equals_op_on_fwd_quantised_operands"],
    ),
    "c19-prune-top-level-args-only": dict(
        props=["C19"], file="unit_scaling/transforms/_track_scales.py", module="unit_scaling.transforms._track_scales",
        old="        user.args = map_arg(user.args, swap)\n", new="        user.args = tuple(swap(a) if isinstance(a, Node) else a for a in user.args)\n",
        job="c19:_prune[nested_list,rep=node]", expect=["never_raises"],
    ),
    "c19-prune-forgets-kwargs": dict(
        props=["C19"], file="unit_scaling/transforms/_track_scales.py", module="unit_scaling.transforms._track_scales",
        old="        user.kwargs = map_arg(user.kwargs, swap)\n", new="",
        job="c19:_prune[keyword,rep=node]", expect=["never_raises"],
    ),
    "c19-non-float-prunes-in-place": dict(
        props=["C19"], file="unit_scaling/transforms/_track_scales.py", module="unit_scaling.transforms._track_scales",
        old="    graph = deepcopy(graph)\n    for n in graph.nodes:\n        if n.op == \"output\":\n            continue\n", new="    for n in graph.nodes:\n        if n.op == \"output\":\n            continue\n",
        job="c19:prune_non_float_tensors[float_args=1,node_is_float=False,user=positional]", expect=["input_graph_unchanged"],
    ),
    "c19-output-node-recognised-by-name": dict(
        props=["C19"], file="unit_scaling/transforms/_track_scales.py", module="unit_scaling.transforms._track_scales",
        old="        if n.op == \"output\":\n            continue\n", new="        if n.name == \"output\":\n            continue\n",
        job="c19:prune_non_float_tensors[float_args=1,names=user_variable_called_output,node_is_float=True,user=positional]", expect=["surviving_nodes_keep_their_order_and_nothing_is_added"],
    ),
    "c19-same-scale-ignores-backward": dict(
        props=["C19"], file="unit_scaling/transforms/_track_scales.py", module="unit_scaling.transforms._track_scales",
        old="    return _directions_same_scale(a.fwd, b.fwd, rtol) and _directions_same_scale(\n        a.bwd, b.bwd, rtol\n    )", new="    return _directions_same_scale(a.fwd, b.fwd, rtol)",
        job="c19:prune_same_scale_tensors[bwd=both,float_args=1,node_is_float=True,user=positional]", expect=["node_removed_iff_same_scale_within_rtol"],
    ),
    "c19-non-float-bypasses-with-two-float-inputs": dict(
        props=["C19"], file="unit_scaling/transforms/_track_scales.py", module="unit_scaling.transforms._track_scales",
        old="            a = float_tensor_args[0] if len(float_tensor_args) == 1 else None", new="            a = float_tensor_args[0] if len(float_tensor_args) >= 1 else None",
        job="c19:prune_non_float_tensors[float_args=2,node_is_float=False,user=positional]", expect=["consumer_"],
    ),
    "c18-abs-mean-swapped": dict(
        props=["C18"], file="unit_scaling/transforms/_track_scales.py", module="unit_scaling.transforms._track_scales",
        old="            abs_mean=t.mean().abs().item(),", new="            abs_mean=abs_t.mean().item(),",
        job="c18:Metrics.from_tensor", expect=["field_abs_mean_is_the_true_statistic"],
    ),
    "c18-abs-max-of-signed": dict(
        props=["C18"], file="unit_scaling/transforms/_track_scales.py", module="unit_scaling.transforms._track_scales",
        old="            abs_max=abs_t.max().item(),", new="            abs_max=t.max().abs().item(),",
        job="c18:Metrics.from_tensor", expect=["field_abs_max_is_the_true_statistic"],
    ),
    "c18-tracking-scales-the-gradient": dict(
        props=["C18"], file="unit_scaling/transforms/_track_scales.py", module="unit_scaling.transforms._track_scales",
        old="        return t.clone(), None, None", new="        return t.clone() * 0.5, None, None",
        job="c18:ScaleTrackingAutogradFunction", expect=["gradient_passes_through_unchanged"],
    ),
    "c18-tracking-modifies-forward": dict(
        props=["C18"], file="unit_scaling/transforms/_track_scales.py", module="unit_scaling.transforms._track_scales",
        old="        ctx.node_meta = node_meta  # type: ignore\n        return t.clone()", new="        ctx.node_meta = node_meta  # type: ignore\n        return t.clone() * 2.0",
        job="c18:ScaleTrackingAutogradFunction", expect=["forward_value_unchanged", "gradient_passes"],
    ),
    "c18-bwd-metrics-of-forward-tensor": dict(
        props=["C18"], file="unit_scaling/transforms/_track_scales.py", module="unit_scaling.transforms._track_scales",
        old="        self.bwd = self.from_tensor(bwd_tensor)", new="        self.bwd = self.fwd",
        job="c18:ScaleTrackingAutogradFunction", expect=["backward_metrics"],
    ),
    "c18-run_node-returns-untracked": dict(
        props=["C18"], file="unit_scaling/transforms/_track_scales.py", module="unit_scaling.transforms._track_scales",
        old="            out = ScaleTrackingAutogradFunction.apply(out, n.meta)  # type: ignore", new="            ScaleTrackingAutogradFunction.apply(out, n.meta)  # type: ignore",
        job="c18:run_node[transforms,float]", expect=["the_tracked_tensor_is_what_every_consumer_sees"],
    ),
    "c18-instruments-int-tensors": dict(
        props=["C18"], file="unit_scaling/transforms/_track_scales.py", module="unit_scaling.transforms._track_scales",
        old="    return isinstance(a, Tensor) and a.is_floating_point()", new="    return isinstance(a, Tensor)",
        job="c18:run_node[transforms,int]", expect=["non_float_value_is_never_instrumented"],
    ),
    "c17-transform-without-copy": dict(
        props=["C17"], file="unit_scaling/transforms/utils.py", module="unit_scaling.transforms.utils",
        old="    module = copy.deepcopy(module)\n", new="    module = module\n",
        job="c17:apply_transform[transformed_before=False]", expect=["returns_a_new_module", "unchanged", "frame"],
    ),
    "c17-base-forward-wraps-the-wrapper": dict(
        props=["C17"], file="unit_scaling/transforms/utils.py", module="unit_scaling.transforms.utils",
        old='module.base_forward = getattr(module, "base_forward", module.forward)', new="module.base_forward = module.forward",
        job="c17:apply_transform[transformed_before=True]", expect=["base_forward_is_the_ORIGINAL_forward", "dynamo_sees_the_original_forward"],
    ),
    "c17-no-retrace-after-new-transform": dict(
        props=["C17"], file="unit_scaling/transforms/utils.py", module="unit_scaling.transforms.utils",
        old="    module.rerun_transform = True\n", new='    module.rerun_transform = getattr(module, "rerun_transform", True)\n',
        job="c17:apply_transform[transformed_before=True]", expect=["C17:transforms.utils.apply_transform"],
    ),
    "c17-composite-over-a-copy-of-the-list": dict(
        props=["C17"], file="unit_scaling/transforms/utils.py", module="unit_scaling.transforms.utils",
        old="    backend = _compose_backends(module.backends)", new="    backend = _compose_backends(list(module.backends))",
        job="c17:apply_transform[transformed_before=False]", expect=["composite_backend_closes_over_the_results_own_backend_list"],
    ),
    "c17-backends-list-shared-with-source": dict(
        props=["C17"], file="unit_scaling/transforms/utils.py", module="unit_scaling.transforms.utils",
        old="    module = copy.deepcopy(module)\n\n    torch_nn_modules_to_user_modules(module)", new="    _b = getattr(module, 'backends', None)\n    module = copy.deepcopy(module)\n    if _b is not None:\n        module.backends = _b\n\n    torch_nn_modules_to_user_modules(module)",
        job="c17:apply_transform[transformed_before=True]", expect=["argument_and_everything_reachable_from_it_unchanged", "backends_are_the_earlier_ones", "no_object_or_storage_shared"],
    ),
    "c17-compose-applies-each-backend-to-the-first-graph": dict(
        props=["C17"], file="unit_scaling/transforms/utils.py", module="unit_scaling.transforms.utils",
        old="            gm = new_gm  # type: ignore[assignment]\n", new="            pass\n",
        job="c17:_compose_backends", expect=["use_returns_the_last_result"],
    ),
    "c17-order-inserts-after-quantisation": dict(
        props=["C17"], file="unit_scaling/transforms/_unit_scale.py", module="unit_scaling.transforms._unit_scale",
        old="        backends.insert(quantisation_backend_idx, u)", new="        backends.insert(quantisation_backend_idx + 1, u)",
        job="c17:_order_backends[<=4]", expect=["unit_scaling_precedes_quantisation"],
    ),
    "c17-unit-scale-initialises-the-original": dict(
        props=["C17"], file="unit_scaling/transforms/_unit_scale.py", module="unit_scaling.transforms._unit_scale",
        old="    _unit_init_weights(unit_scaled_module)\n", new="    _unit_init_weights(module)\n",
        job="c17:unit_scale", expect=["initialisation_touches_the_result_only"],
    ),
    "c17-unit-scale-forgets-to-reorder": dict(
        props=["C17"], file="unit_scaling/transforms/_unit_scale.py", module="unit_scaling.transforms._unit_scale",
        old="    _order_backends(unit_scaled_module.backends)\n", new="",
        job="c17:unit_scale", expect=["sequence_backend_apply_order_init"],
    ),
}

US_FILE = "unit_scaling/transforms/_unit_scale.py"
US_MOD = "unit_scaling.transforms._unit_scale"
_BK = "C16:transforms._unit_scale.unit_scaling_backend"
CANARIES.update({
    "c16-is_add-accepts-mul": dict(
        props=["C16"], file=US_FILE, module=US_MOD,
        old='and n.target.__name__ in ["add", "iadd"]', new='and n.target.__name__ in ["add", "iadd", "mul"]',
        job="c16:_is_add", expect=["C16:transforms._unit_scale._is_add:iff_call_function_of_a_builtin_named_add_or_iadd"],
    ),
    "c16-is_add-any-function-named-add": dict(
        props=["C16"], file=US_FILE, module=US_MOD,
        old="        and isinstance(n.target, BuiltinFunctionType)\n        and n.target.__name__ in", new="        and n.target.__name__ in",
        job="c16:_is_add", expect=["C16:transforms._unit_scale._is_add:iff_call_function_of_a_builtin_named_add_or_iadd[call_function,U.add]"],
    ),
    "c16-tau-self-attention": dict(
        props=["C16"], file=US_FILE, module=US_MOD,
        old="tau = 0.01 if is_self_attention else 0.5", new="tau = 0.1 if is_self_attention else 0.5",
        job="c16:node[residual_softmax_branch]", expect=[_BK + ":node_rewritten_as_the_recipe_prescribes"],
    ),
    "c16-residual-operands-swapped": dict(
        props=["C16"], file=US_FILE, module=US_MOD,
        old='"residual_arg_idx": 1 if l in r_deps else 0', new='"residual_arg_idx": 0 if l in r_deps else 1',
        job="c16:node[residual_skip_first]", expect=[_BK + ":node_rewritten_as_the_recipe_prescribes"],
    ),
    "c16-unconstrain-by-keyword-only": dict(
        props=["C16"], file=US_FILE, module=US_MOD,
        old="        if len(node.args) > idx:  # constraint was passed positionally\n            node.args = (*node.args[:idx], None, *node.args[idx + 1 :])\n        else:\n            node.kwargs = dict(node.kwargs, constraint=None)",
        new="        node.kwargs = dict(node.kwargs, constraint=None)",
        job="c16:_unconstrain_node", expect=["C16:transforms._unit_scale._unconstrain_node:call_stays_well_formed"],
    ),
    "c16-builtin-map-before-user-map": dict(
        props=["C16"], file=US_FILE, module=US_MOD,
        old="if node.target in replacement_map:", new="if node.target in replacement_map and node.target not in U.torch_map:",
        job="c16:node[user_overrides_builtin_map]", expect=[_BK + ":node_rewritten_as_the_recipe_prescribes"],
    ),
    "c16-plain-add-left-constrained": dict(
        props=["C16"], file=US_FILE, module=US_MOD,
        old="args = (*node.args, None)  # None denotes unconstrained", new="args = (*node.args,)",
        job="c16:node[plain_add_nodes]", expect=[_BK + ":node_rewritten_as_the_recipe_prescribes"],
    ),
    "c16-everything-unconstrained": dict(
        props=["C16"], file=US_FILE, module=US_MOD,
        old='if "has_residual_successor" not in node.meta:', new='if "has_residual_successor" not in node.meta or True:',
        job="c16:node[mapped_with_constraint]", expect=[_BK + ":node_rewritten_as_the_recipe_prescribes"],
    ),
    "c16-dependencies-parents-only": dict(
        props=["C16"], file=US_FILE, module=US_MOD,
        old="deps.update(recurse(parent))", new="recurse(parent)",
        job="c16:_add_dependency_meta[<=4]", expect=["C16:transforms._unit_scale._add_dependency_meta:dependencies==ancestors"],
    ),
    "c16-inductive-dependencies-parents-only": dict(
        props=["C16"], file=US_FILE, module=US_MOD, not_proved=True,
        old="deps.update(recurse(parent))", new="recurse(parent)",
        job="c16:_add_dependency_meta.recurse[inductive]", expect=["deps==inputs_U_ancestors_of_visited_parents"],
    ),
    "c16-inductive-memo-mutated-through-an-alias": dict(
        props=["C16"], file=US_FILE, module=US_MOD, not_proved=True,
        old="            deps.update(recurse(parent))", new="            d = recurse(parent)\n            d.update(deps)\n            deps.update(d)",
        job="c16:_add_dependency_meta.recurse[inductive]", expect=["memo_invariant", "other_sets_unchanged"],
    ),
    "c16-inductive-memo-not-recorded": dict(
        props=["C16"], file=US_FILE, module=US_MOD, not_proved=True,
        old='        n.meta["dependencies"] = deps\n', new="",
        job="c16:_add_dependency_meta.recurse[inductive]", expect=["memo_recorded"],
    ),
    "c16-self-attention-looks-past-the-skip": dict(
        props=["C16"], file=US_FILE, module=US_MOD,
        old="        if p == skip_node:\n            continue", new="        if p is None:\n            continue",
        job="c16:_is_self_attention", expect=["C16:transforms._unit_scale._is_self_attention:iff_the_residual_branch_contains_softmax_or_attention"],
    ),
    "c16-plain-add-replaced-during-the-analysis": dict(
        props=["C16"], file=US_FILE, module=US_MOD,
        old="                    regular_adds.append(node)", new="                    replace_node_with_function(graph, node, U.add, args=(*node.args, None))",
        job="c16:node[residual_skip_first]", expect=[_BK + ":node_rewritten_as_the_recipe_prescribes_everything_else_untouched[node=residual_skip_first,later_residual_add=False,earlier_part_ends_in=plain_sum]"],
    ),
    "c16-skip-reads-the-residual-output-of-the-split": dict(
        props=["C16"], file=US_FILE, module=US_MOD,
        old="new_skip = graph.call_function(getitem, args=(split, 1))", new="new_skip = graph.call_function(getitem, args=(split, 0))",
        job="c16:composition[quick,0]", expect=[_BK + ":equals_the_recipe"],
    ),
})
CANARIES.update({
    "c17-root-torch-nn-layer-not-rehomed": dict(
        props=["C17", "C15"], file="unit_scaling/transforms/utils.py", module="unit_scaling.transforms.utils",
        old='    if root_type.__module__.startswith(("torch.nn.", "torch.ao.")):', new='    if root_type.__module__.startswith(("torch.nn.functional.",)):',
        job="c17:apply_transform[transformed_before=False,root=torch_nn_layer]", expect=["module_handed_to_dynamo_is_of_a_user_class_with_a_user_code_forward"],
    ),
    "c17-dynamo-cache-not-reset": dict(
        props=["C17", "C15"], file="unit_scaling/transforms/utils.py", module="unit_scaling.transforms.utils",
        old="            torch._dynamo.reset()\n", new="",
        job="c17:apply_transform[transformed_before=False]", expect=["dynamo_cache_reset_immediately_before_each_compilation"],
    ),
})
CANARIES.update({
    "c16-private-kwargs-kept": dict(
        props=["C16"], file=US_FILE, module=US_MOD,
        old='if not k.startswith("_") or k in params}', new='if True or k in params}',
        job="c16:node[nn.Softmax]", expect=[_BK + ":node_rewritten_as_the_recipe_prescribes"],
    ),
    "c16-all-unknown-kwargs-dropped": dict(
        props=["C16"], file=US_FILE, module=US_MOD,
        old='if not k.startswith("_") or k in params}', new='if k in params}',
        job="c16:_supported_kwargs", expect=["C16:transforms._unit_scale._supported_kwargs:keeps_every_argument_except_private_ones_the_function_lacks"],
    ),
})

