"""Verification of the call-site contracts (summaries) against the real bodies of
scale.py, constraints.py, core/functional.py and the few functional.py functions that
have callers."""
from __future__ import annotations

from fractions import Fraction
from typing import Any, Callable, Dict, List

import z3

from pyvc import tensor as tz
from pyvc.harness import Record, compare_values, lookup_fn, run_config
from pyvc.interp import PathResult
from pyvc.sym import SV, Ctx, PyRaise, zreal
from pyvc.tensor import Run, Shape, SymTensor

from .common import any_real, dim, frame_obligations, leaf, mk_interp, opaque, pos_real
from .registry import Job, register
from .summaries import C, CF, CONSTRAINT_RULES, S, SUMMARIES, UF, spec_rule


def body_vs_contract(
    prop: str,
    qual: str,
    cfg: Dict[str, Any],
    make_args: Callable[[Ctx], Any],
    leaves_of: Callable[[Any], List[SymTensor]] = lambda a: [],
    extra_post: Callable[[PathResult, Any], None] = None,  # type: ignore[assignment]
    call_with: Callable[[Any], Any] = None,  # type: ignore[assignment]
    frame: bool = True,
) -> Record:
    """Generic job: for all arguments satisfying the precondition,
    outcome(body) == outcome(contract) (value, shape, dtype, gradients, exception type)."""
    tag = f"{prop}:{qual.replace('unit_scaling.', '')}"

    def build(ctx: Ctx) -> Any:
        it = mk_interp(ctx, verifying=[qual])
        args = make_args(ctx)
        f = lookup_fn(it, qual)

        def thunk() -> Any:
            pos, kw = call_with(args) if call_with else (list(args.values()) if isinstance(args, dict) else list(args), {})
            try:
                body: Any = ("return", it.call(f, list(pos), dict(kw)))
            except PyRaise as e:
                body = ("raise", e.exc)
            eff_body = list(ctx.effects)
            fv = f
            try:
                bound = it.bind(fv, list(pos), dict(kw))
                spec: Any = ("return", SUMMARIES[qual](it, bound))
            except PyRaise as e:
                spec = ("raise", e.exc)
            ctx.effects[:] = eff_body
            return body, spec, args

        return it, thunk

    def post(p: PathResult, i: int) -> Any:
        ctx = p.ctx
        if p.outcome != "return":
            ctx.oblige(f"{tag}:harness", False, exc=str(p.exc))
            return None
        body, spec, args = p.value
        if body[0] != spec[0]:
            ctx.oblige(f"{tag}:outcome", False, body=str(body)[:120], contract=str(spec)[:120])
        elif body[0] == "raise":
            ctx.oblige(f"{tag}:raises", body[1] == spec[1], body=body[1], contract=spec[1])
        else:
            compare_values(ctx, p.interp, f"{tag}:body==contract", body[1], spec[1], leaves_of(args))
        if frame:
            frame_obligations(ctx, f"{tag}:frame")
        if extra_post is not None:
            extra_post(p, args)
        return {k: (v.z if isinstance(v, SV) else None) for k, v in ctx.inputs.items() if isinstance(v, SV)}

    return run_config(qual, cfg, build, post)


# ---------------------------------------------------------------- scale.py (C02 last sentence)


def _scale_job(which: str) -> Callable[[], Record]:
    def run() -> Record:
        def make(ctx: Ctx) -> Any:
            x = leaf(ctx, "input", Shape([Run(ctx, "a")]))
            s = any_real(ctx, "scale")  # every real factor, zero and negative included
            return {"input": x, "scale": s}

        def extra(p: PathResult, args: Any) -> None:
            # fresh storage: the primitive returns a new tensor, never its argument's storage
            body = p.value[0]
            if body[0] == "return" and isinstance(body[1], SymTensor):
                p.ctx.oblige(f"C02:scale.{which}:result_not_aliasing_input", body[1].storage is not args["input"].storage)

        return body_vs_contract("C02", S + which, {}, make, lambda a: [a["input"]], extra)

    return run


for _w in ("scale_fwd", "scale_bwd"):
    # every scaled op is verified against these two contracts: the properties built on the op jobs depend on them
    register(Job(f"core:{_w}", ["C02", "C01", "C03", "C04", "C05", "C06"], S + _w, {}, _scale_job(_w), shared=True))


# ---------------------------------------------------------------- constraints.py (C05)


def _mean_job(which: str, n: int) -> Callable[[], Record]:
    def run() -> Record:
        def make(ctx: Ctx) -> Any:
            return [pos_real(ctx, f"s{i}") for i in range(n)]

        def extra(p: PathResult, args: Any) -> None:
            body = p.value[0]
            if body[0] != "return":
                return
            v = zreal(body[1])
            zs = [a.z for a in args]
            ctx = p.ctx
            # the rule functions lie between the smallest and largest scale (z3 second opinion
            # for small n; all n in Lean: lean/Means.lean)
            if n <= 3:
                ctx.oblige(f"C05:constraints.{which}:between_min_max[n={n}]", z3.And(z3.Or(*[v >= z for z in zs]), z3.Or(*[v <= z for z in zs])))
            # symmetric: invariant under swapping the first two / rotating
            if n >= 2:
                perm = args[1:] + args[:1]
                other = SUMMARIES[C + which](p.interp, {"scales": tuple(perm)})
                ctx.oblige(f"C05:constraints.{which}:symmetric_rotation[n={n}]", zreal(other) == v)
                sw = [args[1], args[0]] + args[2:]
                other2 = SUMMARIES[C + which](p.interp, {"scales": tuple(sw)})
                ctx.oblige(f"C05:constraints.{which}:symmetric_swap[n={n}]", zreal(other2) == v)
            # definitional link to the Lean statements
            if which == "gmean":
                prod = zs[0]
                for z in zs[1:]:
                    prod = prod * z
                pw = v
                for _ in range(n - 1):
                    pw = pw * v
                ctx.oblige(f"C05:constraints.gmean:is_nth_root_of_product[n={n}]", z3.And(v > 0, pw == prod))
            if which == "amean":
                ctx.oblige(f"C05:constraints.amean:is_sum_over_n[n={n}]", v * n == sum(zs[1:], zs[0]))
            if which == "hmean":
                ctx.oblige(f"C05:constraints.hmean:is_n_over_sum_recip[n={n}]", v * sum([1 / z for z in zs[1:]], 1 / zs[0]) == n)

        return body_vs_contract("C05", C + which, {"n": n}, make, extra_post=extra, call_with=lambda a: (a, {}))

    return run


for _w in ("gmean", "hmean", "amean"):
    for _n in range(1, 7):
        register(Job(f"core:{_w}[{_n}]", ["C05"], C + _w, {"n": _n}, _mean_job(_w, _n)))


def _ineq_job(n: int) -> Callable[[], Record]:
    """hmean <= gmean <= amean, z3 second opinion for n <= 3 (all n: Lean)."""

    def run() -> Record:
        def build(ctx: Ctx) -> Any:
            it = mk_interp(ctx)
            args = [pos_real(ctx, f"s{i}") for i in range(n)]

            def thunk() -> Any:
                return [SUMMARIES[C + w](it, {"scales": tuple(args)}) for w in ("hmean", "gmean", "amean")], args

            return it, thunk

        def post(p: PathResult, i: int) -> Any:
            (h, g, a), args = p.value
            p.ctx.oblige(f"C05:constraints:hmean<=gmean[n={n}]", zreal(h) <= zreal(g))
            p.ctx.oblige(f"C05:constraints:gmean<=amean[n={n}]", zreal(g) <= zreal(a))
            return None

        return run_config("unit_scaling.constraints.means", {"n": n}, build, post)

    return run


for _n in (1, 2):
    register(Job(f"core:mean_ineq[{_n}]", ["C05"], C + "means", {"n": _n}, _ineq_job(_n)))


def module_namespace(qualmod: str) -> List[str]:
    """All names bound at the top level of a repo module (imports + definitions), read
    from the real source: this is what `getattr(sys.modules[__name__], name)` can find."""
    import ast

    from pyvc.interp import Repo

    src, tree = Repo().load(qualmod)
    names: List[str] = []
    for st in tree.body:
        if isinstance(st, (ast.FunctionDef, ast.ClassDef)):
            names.append(st.name)
        elif isinstance(st, ast.Import):
            names += [(a.asname or a.name.split(".")[0]) for a in st.names]
        elif isinstance(st, ast.ImportFrom):
            names += [(a.asname or a.name) for a in st.names]
        elif isinstance(st, (ast.Assign, ast.AnnAssign)):
            for t in st.targets if isinstance(st, ast.Assign) else [st.target]:
                for n in ast.walk(t):
                    if isinstance(n, ast.Name):
                        names.append(n.id)
    for extra in ("__name__", "__doc__", "__file__", "__builtins__", "__spec__", "__loader__", "__package__"):
        names.append(extra)
    return sorted(set(names))


def constraint_names_universe() -> List[Any]:
    """The quantifier "any string" is finite modulo behaviour: the names bound in the module
    namespace (each can behave differently) plus one fresh name bound nowhere."""
    ns = module_namespace("unit_scaling.constraints")
    return [None, ""] + sorted(set(list(CONSTRAINT_RULES) + ns)) + ["<fresh-unbound-name>"]


def _apply_constraint_job(name: Any, n: int) -> Callable[[], Record]:
    def run() -> Record:
        def make(ctx: Ctx) -> Any:
            return [pos_real(ctx, f"s{i}") for i in range(n)]

        return body_vs_contract(
            "C05", C + "apply_constraint", {"constraint_name": name, "n": n}, make, call_with=lambda a: ([name] + a, {})
        )

    return run


def register_apply_constraint() -> None:
    for name in constraint_names_universe():
        for n in (2, 3):
            register(
                Job(
                    f"core:apply_constraint[{name!r},{n}]",
                    ["C05"],
                    C + "apply_constraint",
                    {"constraint_name": name, "n": n},
                    _apply_constraint_job(name, n),
                )
            )


register_apply_constraint()


# ---------------------------------------------------------------- core/functional.py


def _logint_job() -> Record:
    def make(ctx: Ctx) -> Any:
        return {"alpha": any_real(ctx, "alpha"), "lower": pos_real(ctx, "lower"), "upper": pos_real(ctx, "upper")}

    def extra(p: PathResult, args: Any) -> None:
        body = p.value[0]
        if body[0] != "return":
            return
        ctx = p.ctx
        r, a, lo, hi = zreal(body[1]), args["alpha"].z, args["lower"].z, args["upper"].z
        ctx.oblige("C04:core.functional.logarithmic_interpolation:positive", r > 0)
        ctx.oblige("C04:core.functional.logarithmic_interpolation:alpha0_is_lower", z3.Implies(a == 0, r == lo))
        ctx.oblige("C04:core.functional.logarithmic_interpolation:alpha1_is_upper", z3.Implies(a == 1, r == hi))
        inside = z3.And(a >= 0, a <= 1)
        ctx.oblige(
            "C04:core.functional.logarithmic_interpolation:between_limits",
            z3.Implies(inside, z3.And(z3.Or(r >= lo, r >= hi), z3.Or(r <= lo, r <= hi))),
        )

    return body_vs_contract("C04", CF + "logarithmic_interpolation", {}, make, extra_post=extra)


register(Job("core:logarithmic_interpolation", ["C04", "C01"], CF + "logarithmic_interpolation", {}, _logint_job))


class UFun:
    """An arbitrary (uninterpreted) tensor function with an uninterpreted linear VJP."""

    def __init__(self, name: str):
        self.name = name

    def pyvc_call(self, interp: Any, args: List[Any], kwargs: Dict[str, Any]) -> Any:
        from pyvc.torchmodel import op_app

        x = args[0]
        vals = list(args) + [kwargs[k] for k in sorted(kwargs)]
        return op_app(interp, "ufun_" + self.name, vals, x.shape, x.dtype)


def _scale_elementwise_job(name: Any) -> Callable[[], Record]:
    def run() -> Record:
        qual = CF + "scale_elementwise"
        tag = "C05:core.functional.scale_elementwise"

        def build(ctx: Ctx) -> Any:
            it = mk_interp(ctx, verifying=[qual])
            f = lookup_fn(it, qual)
            os_, gs = pos_real(ctx, "output_scale"), pos_real(ctx, "grad_input_scale")
            x = leaf(ctx, "input", Shape([Run(ctx, "a")]))
            extra_arg = opaque(ctx, "extra")
            kw = opaque(ctx, "kwextra")
            fn = UFun("f")

            def thunk() -> Any:
                try:
                    h = it.call(f, [fn, os_, gs, name], {})
                    body: Any = ("return", it.call(h, [x, extra_arg], {"k": kw}))
                except PyRaise as e:
                    body = ("raise", e.exc)
                try:
                    hs = SUMMARIES[qual](it, {"f": fn, "output_scale": os_, "grad_input_scale": gs, "constraint": name})
                    spec: Any = ("return", it.call(hs, [x, extra_arg], {"k": kw}))
                except PyRaise as e:
                    spec = ("raise", e.exc)
                return body, spec, x

            return it, thunk

        def post(p: PathResult, i: int) -> Any:
            ctx = p.ctx
            if p.outcome != "return":
                ctx.oblige(f"{tag}:harness", False, exc=str(p.exc))
                return None
            body, spec, x = p.value
            if body[0] != spec[0]:
                ctx.oblige(f"{tag}:outcome", False, body=str(body)[:100], contract=str(spec)[:100])
            elif body[0] == "raise":
                ctx.oblige(f"{tag}:raises", body[1] == spec[1])
            else:
                compare_values(ctx, p.interp, f"{tag}:body==contract", body[1], spec[1], [x])
            frame_obligations(ctx, f"{tag}:frame")
            return None

        return run_config(qual, {"constraint": name}, build, post)

    return run


for _c in (None, "", "gmean", "hmean", "amean", "to_output_scale", "to_grad_input_scale", "<fresh-unbound-name>"):
    register(Job(f"core:scale_elementwise[{_c!r}]", ["C05", "C01", "C02"], CF + "scale_elementwise", {"constraint": _c}, _scale_elementwise_job(_c)))


def _rms_job(k: int, eps_zero: bool) -> Callable[[], Record]:
    def run() -> Record:
        def make(ctx: Ctx) -> Any:
            ns = [dim(ctx, f"n{i}") for i in range(k)]
            x = leaf(ctx, "x", Shape([Run(ctx, "a")] + ns))
            eps = Fraction(0) if eps_zero else pos_real(ctx, "eps")
            return {"x": x, "dims": tuple(range(-1, -1 - k, -1)), "keepdim": True, "eps": eps}

        return body_vs_contract("C01", CF + "rms", {"norm_rank": k, "eps_zero": eps_zero}, make, lambda a: [a["x"]], call_with=lambda a: ([a["x"]], {"dims": a["dims"], "keepdim": a["keepdim"], "eps": a["eps"]}))

    return run


for _k in (1, 2, 3):
    for _z in (False, True):
        register(Job(f"core:rms[{_k},eps0={_z}]", ["C01", "C02"], CF + "rms", {"norm_rank": _k}, _rms_job(_k, _z)))


# ---------------------------------------------------------------- functional.py callees


def _bcast_job(n: int) -> Callable[[], Record]:
    def run() -> Record:
        def make(ctx: Ctx) -> Any:
            return [leaf(ctx, f"arg{i}", Shape([Run(ctx, f"s{i}")])) for i in range(n)]

        return body_vs_contract("C03", UF + "_get_broadcast_sizes", {"n": n}, make, call_with=lambda a: (a, {}))

    return run


for _n in (1, 2, 3):
    register(Job(f"core:_get_broadcast_sizes[{_n}]", ["C03", "C02"], UF + "_get_broadcast_sizes", {"n": _n}, _bcast_job(_n)))


def _linear_summary_job(con: Any, bias: bool, sp_mode: str) -> Callable[[], Record]:
    def run() -> Record:
        def make(ctx: Ctx) -> Any:
            fi, fo = dim(ctx, "fan_in"), dim(ctx, "fan_out")
            x = leaf(ctx, "input", Shape([Run(ctx, "batch"), fi]))
            w = leaf(ctx, "weight", Shape([fo, fi]))
            b = leaf(ctx, "bias", Shape([fo])) if bias else None
            if sp_mode == "default":
                sp: Any = None
            elif sp_mode == "readout":
                sp = (Fraction(1), Fraction(1, 2), Fraction(1, 2))
            else:
                sp = tuple(any_real(ctx, f"sp{i}") for i in range(3))
            return {"input": x, "weight": w, "bias": b, "constraint": con, "sp": sp}

        def call_with(a: Any) -> Any:
            kw = {} if a["sp"] is None else {"scale_power": a["sp"]}
            return [a["input"], a["weight"], a["bias"], a["constraint"]], kw

        return body_vs_contract(
            "C01",
            UF + "linear",
            {"constraint": con, "bias": bias, "scale_power": sp_mode},
            make,
            lambda a: [t for t in (a["input"], a["weight"], a["bias"]) if t is not None],
            call_with=call_with,
        )

    return run


for _c in (None, "to_output_scale", "gmean", "<fresh-unbound-name>"):
    for _b in (False, True):
        for _sp in ("default", "readout", "symbolic"):
            register(
                Job(
                    f"core:linear-summary[{_c!r},bias={_b},{_sp}]",
                    ["C01", "C02", "C12"],
                    UF + "linear",
                    {"constraint": _c, "bias": _b, "scale_power": _sp},
                    _linear_summary_job(_c, _b, _sp),
                )
            )


def _residual_summary_job(which: str) -> Callable[[], Record]:
    def run() -> Record:
        def make(ctx: Ctx) -> Any:
            sh = Shape([Run(ctx, "a")])
            tau = pos_real(ctx, "tau")
            if which == "residual_split":
                return {"input": leaf(ctx, "input", sh), "tau": tau}
            return {"residual": leaf(ctx, "residual", sh), "skip": leaf(ctx, "skip", sh), "tau": tau}

        def extra(p: PathResult, args: Any) -> None:
            body = p.value[0]
            if which != "residual_split" or body[0] != "return":
                return
            r, s_ = body[1]
            x = args["input"]
            # "for ANY branch function f" includes in-place ones: the two results must not share
            # storage with each other or with the caller's tensor
            p.ctx.oblige("C06:functional.residual_split:residual_skip_and_input_do_not_share_storage", isinstance(r, SymTensor) and isinstance(s_, SymTensor) and r.storage is not s_.storage and r.storage is not x.storage and s_.storage is not x.storage)

        return body_vs_contract("C06", UF + which, {}, make, lambda a: [v for v in a.values() if isinstance(v, SymTensor)], extra)

    return run


for _w in ("residual_split", "residual_add"):
    register(Job(f"core:{_w}-summary", ["C06"], UF + _w, {}, _residual_summary_job(_w)))
