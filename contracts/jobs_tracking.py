"""C18: scale tracking is purely observational; its metrics are the true statistics.
Function-level contracts on transforms/_track_scales.py and utils.py; how fx.Interpreter
executes a graph and how autograd sums consumer gradients is assumed (A2, A5)."""
from __future__ import annotations

from typing import Any, Callable, Dict, List

import z3

from pyvc import fxmodel
from pyvc import tensor as tz
from pyvc import torchmodel
from pyvc.fxmodel import FxGraph
from pyvc.harness import Record, eval_expr, lc_equal_goal, lookup_fn, run_config
from pyvc.interp import Builtin, ExtClass, ObjVal, PathResult, TypeTok
from pyvc.sym import SB, SV, Ctx, PyRaise, zreal
from pyvc.tensor import DTYPES, LinComb, Opaque, Run, Shape, SymTensor

from .common import frame_obligations, leaf, mk_interp, opaque
from .registry import Job, register

TS = "unit_scaling.transforms._track_scales."
UT = "unit_scaling.utils."

SPEC_FIELDS = {
    "mean_abs": "t.abs().mean().item()",  # mean |x|
    "abs_mean": "t.mean().abs().item()",  # |mean x|
    "std": "t.std().item()",  # standard deviation (torch default)
    "abs_max": "t.abs().max().item()",  # max |x|
    "abs_min": "t.abs().min().item()",  # min |x|
    "numel": "t.numel()",  # element count
}


def interpreter_run_node(interp: Any, args: List[Any], kwargs: Dict[str, Any]) -> Any:
    """ASSUMED fx.Interpreter.run_node(n): the value of node n (here: a preset symbolic value)"""
    n = args[1]
    return n.meta["__value__"]


INTERPRETER = ExtClass("Interpreter", (), {"__init__": lambda it, a, k: a[0].attrs.__setitem__("module", a[1]) if len(a) > 1 else None, "run_node": interpreter_run_node})


def _hook(interp: Any, name: str) -> Any:
    r = fxmodel.hook(interp, name) or {}
    if name == "torch.fx":
        r = dict(r)
        r["Interpreter"] = INTERPRETER
    if name == "torch.nn":
        from pyvc import nnmodel

        return nnmodel.nn_entries(interp)
    if name == "tabulate":
        return {"tabulate": Builtin("tabulate", lambda it, a, k: None)}
    return r or None


def _check_metrics(ctx: Ctx, it: Any, tag: str, data: Any, t: SymTensor) -> None:
    ok = isinstance(data, ObjVal)
    ctx.oblige(f"{tag}:is_Metrics.Data", ok)
    if not ok:
        return
    for f, src in SPEC_FIELDS.items():
        want = eval_expr(it, src, {"t": t}, module="unit_scaling.transforms._track_scales")
        got = data.attrs.get(f)
        if got is None:
            ctx.oblige(f"{tag}:field_{f}_is_the_true_statistic", False, got="missing")
        else:
            ctx.oblige(f"{tag}:field_{f}_is_the_true_statistic", zreal(got) == zreal(want), got=str(got)[:120], want=str(want)[:120])


def _from_tensor_job() -> Record:
    qual = TS + "Metrics.from_tensor"
    tag = "C18:transforms._track_scales.Metrics.from_tensor"

    def build(ctx: Ctx) -> Any:
        it = mk_interp(ctx, verifying=[qual], hook=_hook)
        t = leaf(ctx, "t", Shape([Run(ctx, "a")]))
        M = lookup_fn(it, TS + "Metrics")
        return it, lambda: (it.call(it.getattr(M, "from_tensor"), [t], {}), t)

    def post(p: PathResult, i: int) -> Any:
        ctx = p.ctx
        if p.outcome != "return":
            ctx.oblige(f"{tag}:no_exception", False, exc=str(p.exc))
            return None
        data, t = p.value
        _check_metrics(ctx, p.interp, tag, data, t)
        # "the TRUE statistics": values are reals in this model (A1), so precision is stated separately --
        # the tensor is not converted to a narrower dtype before the reductions (float64 modules, tiny / huge values)
        from pyvc.torchmodel import narrowing

        convs = ctx.__dict__.get("dtype_conversions", [])
        ctx.oblige(f"{tag}:statistics_taken_without_a_narrowing_dtype_conversion", z3.Not(z3.Or(*[narrowing(a, b) for a, b in convs])) if convs else True, conversions=len(convs))
        frame_obligations(ctx, f"{tag}:tensor_not_modified")
        return None

    return run_config(qual, {}, build, post)


register(Job("c18:Metrics.from_tensor", ["C18"], TS + "Metrics.from_tensor", {}, _from_tensor_job))


def _tracking_function_job(which: str) -> Callable[[], Record]:
    """which: 'ScaleTrackingAutogradFunction' (transforms) | 'ScaleTracker' (utils)"""

    def run() -> Record:
        mod = TS if which == "ScaleTrackingAutogradFunction" else UT
        tag = f"C18:{'transforms._track_scales' if mod == TS else 'utils'}.{which}"
        verifying = [mod + which + ".forward", mod + which + ".backward", mod + which + ".track", TS + "Metrics.__init__", TS + "Metrics.set_bwd", TS + "Metrics.from_tensor"]

        def build(ctx: Ctx) -> Any:
            it = mk_interp(ctx, verifying=verifying, hook=_hook)
            t = leaf(ctx, "t", Shape([Run(ctx, "a")]))
            C = lookup_fn(it, mod + which)
            if which == "ScaleTrackingAutogradFunction":
                side: Any = {"existing_key": opaque(ctx, "existing")}
                # the node's meta as an EARLIER forward+backward run of the same graph left it
                M_ = lookup_fn(it, TS + "Metrics")
                old = ObjVal(M_)
                old.attrs["fwd"] = opaque(ctx, "stale_forward_metrics")
                old.attrs["bwd"] = opaque(ctx, "stale_backward_metrics")
                side["metrics"] = old
            else:
                SP = lookup_fn(it, UT + "ScalePair")
                side = it.call(SP, [], {})

            def thunk() -> Any:
                out = it.call(it.getattr(C, "apply"), [t, side], {})
                eff_fwd = list(ctx.effects)
                if which == "ScaleTrackingAutogradFunction":
                    m0 = side.get("metrics")
                    ctx.__dict__["bwd_after_forward_only"] = m0.attrs.get("bwd", "missing") if isinstance(m0, ObjVal) else "no-metrics"
                g = z3.Const("g", tz.T)
                grads = tz.backward(ctx, out, LinComb.of(g), it)
                return out, t, side, g, grads, eff_fwd

            return it, thunk

        def post(p: PathResult, i: int) -> Any:
            ctx = p.ctx
            it = p.interp
            if p.outcome != "return":
                ctx.oblige(f"{tag}:no_exception", False, exc=str(p.exc))
                return None
            out, t, side, g, grads, eff_fwd = p.value
            ok = isinstance(out, SymTensor)
            ctx.oblige(f"{tag}:forward_value_unchanged", ok and lc_equal_goal(ctx, out.val, t.val))
            ctx.oblige(f"{tag}:forward_shape_and_dtype_unchanged", ok and out.shape.eq(ctx, t.shape) is True and out.dtype is t.dtype)
            gx = grads.get(t.node.id, (None, LinComb()))[1]
            ctx.oblige(f"{tag}:gradient_passes_through_unchanged", lc_equal_goal(ctx, gx, LinComb.of(g)))
            frame_obligations(ctx, f"{tag}:tracked_tensor_not_modified")
            G = SymTensor(t.shape, t.dtype, LinComb.of(g), None)
            if which == "ScaleTrackingAutogradFunction":
                ctx.oblige(f"{tag}:only_the_metrics_entry_is_written", set(side.keys()) == {"existing_key", "metrics"})
                ctx.oblige(f"{tag}:no_backward_metrics_before_a_gradient_arrives(even if an earlier run recorded some)", ctx.__dict__.get("bwd_after_forward_only", "x") is None, got=str(ctx.__dict__.get("bwd_after_forward_only"))[:80])
                m = side.get("metrics")
                okm = isinstance(m, ObjVal)
                ctx.oblige(f"{tag}:records_Metrics_of_the_tracked_tensor", okm)
                if okm:
                    _check_metrics(ctx, it, f"{tag}:forward_metrics", m.attrs.get("fwd"), t)
                    _check_metrics(ctx, it, f"{tag}:backward_metrics(of the gradient that reached the point)", m.attrs.get("bwd"), G)
            else:
                fwd, bwd = side.attrs.get("forward"), side.attrs.get("backward")
                want_f = eval_expr(it, "float(t.std())", {"t": t}, module="unit_scaling.utils")
                want_b = eval_expr(it, "float(t.std())", {"t": G}, module="unit_scaling.utils")
                ctx.oblige(f"{tag}:records_forward_std", fwd is not None and zreal(fwd) == zreal(want_f))
                ctx.oblige(f"{tag}:records_backward_std_of_the_gradient", bwd is not None and zreal(bwd) == zreal(want_b))
            return None

        return run_config(mod + which, {}, build, post)

    return run


for _w in ("ScaleTrackingAutogradFunction", "ScaleTracker"):
    register(Job(f"c18:{_w}", ["C18"], (TS if _w.startswith("ScaleTrackingA") else UT) + _w, {}, _tracking_function_job(_w)))


def _no_backward_job() -> Record:
    """tensors that receive no gradient report no backward metrics"""
    tag = "C18:transforms._track_scales.Metrics"

    def build(ctx: Ctx) -> Any:
        it = mk_interp(ctx, verifying=[TS + "Metrics.__init__", TS + "Metrics.from_tensor"], hook=_hook)
        t = leaf(ctx, "t", Shape([Run(ctx, "a")]))
        return it, lambda: it.call(lookup_fn(it, TS + "Metrics"), [], {"fwd_tensor": t})

    def post(p: PathResult, i: int) -> Any:
        ok = p.outcome == "return" and isinstance(p.value, ObjVal)
        p.ctx.oblige(f"{tag}:bwd_is_None_until_backward_runs", ok and p.value.attrs.get("bwd", "missing") is None)
        return None

    return run_config(TS + "Metrics.__init__", {}, build, post)


register(Job("c18:Metrics.__init__", ["C18"], TS + "Metrics.__init__", {}, _no_backward_job))


def _run_node_job(which: str, kind: str) -> Callable[[], Record]:
    """which: transforms | utils ; kind of the node's value: float | int | parameter | non_tensor"""

    def run() -> Record:
        mod = TS if which == "transforms" else UT
        tag = f"C18:{'transforms._track_scales' if which == 'transforms' else 'utils'}.ScaleTrackingInterpreter.run_node"
        verifying = [mod + "ScaleTrackingInterpreter.run_node", mod + "ScaleTrackingInterpreter.__init__", TS + "_get_tracking_meta", TS + "_is_float_tensor", TS + "_clean_node_name"]
        contracts = {}
        rec: List[Any] = []

        def s_apply(interp: Any, args: List[Any], kwargs: Dict[str, Any]) -> Any:
            rec.append(args)
            t = args[1]
            if which == "transforms" and len(args) > 2 and isinstance(args[2], dict):
                # contract of ScaleTrackingAutogradFunction (verified separately): node_meta["metrics"] = Metrics(t)
                args[2]["metrics"] = ("Metrics of", t)
            r = SymTensor(t.shape, t.dtype, t.val, tz.LinNode([t.node], [z3.RealVal(1)], [None]))
            r.attrs["__tracked__"] = True
            return r

        def build(ctx: Ctx) -> Any:
            it = mk_interp(ctx, verifying=verifying, hook=_hook)
            rec.clear()
            # the tracking autograd functions are seen through their (separately verified) contract
            cls_q = TS + "ScaleTrackingAutogradFunction" if which == "transforms" else UT + "ScaleTracker"
            C = lookup_fn(it, cls_q)
            C.attrs["apply"] = Builtin("tracking.apply", lambda it_, a, k: s_apply(it_, [C] + a, k))
            if which == "utils":
                C.attrs["track"] = Builtin("ScaleTracker.track", lambda it_, a, k: s_apply(it_, [C] + a, k))
            g = FxGraph()
            n = g.add("call_function", "some_op", (), {}, name="L__self___layer_out_")
            n.meta["earlier"] = "kept"
            if kind == "float":
                v: Any = leaf(ctx, "out", Shape([Run(ctx, "a")]))
            elif kind == "int":
                v = leaf(ctx, "out", Shape([Run(ctx, "a")]), dtype=DTYPES["int64"], float_dtype=False)
            elif kind == "parameter":
                v = leaf(ctx, "out", Shape([Run(ctx, "a")]))
                v.is_parameter = True
                v.requires_grad = True
            elif kind == "alias_of_tracked":
                # a no-op node (contiguous(), .float(), eval-mode dropout ...) returning the very tensor
                # object an earlier node produced and tracked
                v = leaf(ctx, "out", Shape([Run(ctx, "a")]))
                n0 = g.add("call_function", "producer", (), {}, name="producer")
                n0.meta["__value__"] = v
                n._args = (n0,)  # the no-op node reads the producer
            else:
                v = (3, "not a tensor")
            n.meta["__value__"] = v
            gm = fxmodel.GraphModuleModel(opaque(ctx, "root"), g)
            I = lookup_fn(it, mod + "ScaleTrackingInterpreter")

            def thunk() -> Any:
                obj = it.call(I, [gm], {})
                if kind == "alias_of_tracked":
                    tracked = it.call(it.getattr(obj, "run_node"), [n0], {})
                    n.meta["__value__"] = tracked
                    # ASSUMED fx.Interpreter.run: env[node] = run_node(node) for every node already executed
                    obj.attrs["env"] = {n0: tracked}
                    n0_metrics = n0.meta.get("metrics")
                    rec.clear()
                    out = it.call(it.getattr(obj, "run_node"), [n], {})
                    n.meta["__producer_metrics__"] = n0_metrics
                    return out, tracked, n, obj
                out = it.call(it.getattr(obj, "run_node"), [n], {})
                return out, v, n, obj

            return it, thunk

        def post(p: PathResult, i: int) -> Any:
            ctx = p.ctx
            cs = f"[{kind}]"
            if p.outcome != "return":
                ctx.oblige(f"{tag}:no_exception{cs}", False, exc=str(p.exc))
                return None
            out, v, n, obj = p.value
            is_float = kind in ("float", "parameter", "alias_of_tracked")
            if is_float:
                ctx.oblige(f"{tag}:float_tensor_is_instrumented_once{cs}", len(rec) == 1 and rec[0][1] is v)
                ctx.oblige(f"{tag}:the_tracked_tensor_is_what_every_consumer_sees(returned value){cs}", isinstance(out, SymTensor) and out.attrs.get("__tracked__") is True)
                if which == "transforms":
                    ctx.oblige(f"{tag}:metrics_are_recorded_in_this_nodes_meta{cs}", len(rec) == 1 and rec[0][2] is n.meta)
                    if kind == "alias_of_tracked":
                        ctx.oblige(f"{tag}:node_has_its_own_metrics_not_the_producers{cs}", n.meta.get("metrics") is not None and n.meta.get("metrics") is not n.meta.get("__producer_metrics__"))
                else:
                    sc = obj.attrs.get("scales", {})
                    ctx.oblige(f"{tag}:scale_pair_registered_under_the_node_name{cs}", len(rec) == 1 and sc.get(n.name) is rec[0][2])
            else:
                ctx.oblige(f"{tag}:non_float_value_is_never_instrumented{cs}", len(rec) == 0 and out is v)
                ctx.oblige(f"{tag}:non_float_value_gets_no_metrics{cs}", "metrics" not in n.meta)
            if which == "transforms":
                ctx.oblige(f"{tag}:outputs_float_tensor_flag{cs}", n.meta.get("outputs_float_tensor") is is_float or (is_float and n.meta.get("outputs_float_tensor") is True))
                ctx.oblige(f"{tag}:requires_grad_flag_only_for_trainable_parameters{cs}", n.meta.get("requires_grad") is (kind == "parameter"))
                ctx.oblige(f"{tag}:existing_meta_kept{cs}", n.meta.get("earlier") == "kept" and n.meta.get("clean_name") == "layer_out")
            return None

        return run_config(mod + "ScaleTrackingInterpreter.run_node", {"which": which, "value": kind}, build, post)

    return run


for _w in ("transforms", "utils"):
    for _k in ("float", "int", "parameter", "non_tensor", "alias_of_tracked"):
        register(Job(f"c18:run_node[{_w},{_k}]", ["C18"], (TS if _w == "transforms" else UT) + "ScaleTrackingInterpreter.run_node", {"which": _w, "value": _k}, _run_node_job(_w, _k)))


def _require_grad_job() -> Record:
    qual = TS + "_make_input_tensors_require_grad"
    tag = "C18:transforms._track_scales._make_input_tensors_require_grad"

    def build(ctx: Ctx) -> Any:
        it = mk_interp(ctx, verifying=[qual, TS + "_is_float_tensor"], hook=_hook)
        calls: List[Any] = []
        mod = ObjVal(TypeTok("Module"))
        mod.cls = type("C", (), {"mro": lambda self=None: [], "name": "Module"})()
        mod.attrs["forward"] = Builtin("old_forward", lambda it_, a, k: calls.append((list(a), dict(k))) or "old-result")
        xf = leaf(ctx, "x_float", Shape([Run(ctx, "a")]))
        xi = leaf(ctx, "x_int", Shape([Run(ctx, "b")]), dtype=DTYPES["int64"], float_dtype=False)
        kf = leaf(ctx, "kw_float", Shape([Run(ctx, "c")]))
        for t in (xf, xi, kf):
            t.requires_grad = False
        other = opaque(ctx, "non_tensor")

        def thunk() -> Any:
            it.call(lookup_fn(it, qual), [mod], {})
            r = it.call(it.getattr(mod, "forward"), [xf, xi, 5], {"k": kf, "o": "s"})
            return r, calls, xf, xi, kf

        return it, thunk

    def post(p: PathResult, i: int) -> Any:
        ctx = p.ctx
        if p.outcome != "return":
            ctx.oblige(f"{tag}:no_exception", False, exc=str(p.exc))
            return None
        r, calls, xf, xi, kf = p.value
        ctx.oblige(f"{tag}:forwards_every_argument_unchanged_and_returns_the_result", r == "old-result" and len(calls) == 1 and calls[0][0][0] is xf and calls[0][0][1] is xi and calls[0][0][2] == 5 and calls[0][1].get("k") is kf and calls[0][1].get("o") == "s")
        ctx.oblige(f"{tag}:float_tensor_arguments_get_requires_grad(documented side effect)", xf.requires_grad is True and kf.requires_grad is True)
        ctx.oblige(f"{tag}:non_float_arguments_untouched", xi.requires_grad is False)
        others = [e for e in ctx.effects if e[0] in ("inplace", "out=")]
        ctx.oblige(f"{tag}:no_value_is_modified", not others, effects=str(others)[:120])
        return None

    return run_config(qual, {}, build, post)


register(Job("c18:_make_input_tensors_require_grad", ["C18"], TS + "_make_input_tensors_require_grad", {}, _require_grad_job))
