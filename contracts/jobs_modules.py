"""C08 (and the wiring part of C07, the tag part of C12): unit_scaling/_modules.py.

Symbolic OBJECT execution of __init__ and forward of every module class with symbolic
constructor arguments.  torch.nn base constructors are assumed contracts (pyvc/nnmodel.py).
unit_scaling.functional ops are seen through a *recording* contract: the call is logged
with its bound arguments (after the _validate guard of the decorator) and an uninterpreted
tensor is returned, so "forward delegates to U.fn with the module's own parameters and the
module's configured options" is an identity check on every bound argument.
"""
from __future__ import annotations

import ast
from fractions import Fraction
from typing import Any, Callable, Dict, List, Optional, Tuple

import z3

from pyvc import nnmodel
from pyvc import tensor as tz
from pyvc import torchmodel
from pyvc.harness import GenericSeq, Record, lookup_fn, run_config
from pyvc.interp import Builtin, ObjVal, PathResult
from pyvc.sym import SB, SV, Ctx, OutOfReach, PyRaise, num_binop, zreal
from pyvc.tensor import Opaque, Run, Shape, SymTensor

from .common import any_real, dim, frame_obligations, leaf, mk_interp, opaque, pos_real
from .jobs_optim import tagged
from .registry import Job, register
from .summaries import SUMMARIES

M = "unit_scaling._modules."
UF = "unit_scaling.functional."
PR = "unit_scaling.parameter."

U_OPS = ["gelu", "silu", "silu_glu", "softmax", "dropout", "matmul", "linear", "linear_readout", "conv1d", "layer_norm", "rms_norm", "add", "residual_split", "residual_add", "residual_apply", "embedding", "scaled_dot_product_attention", "cross_entropy", "mse_loss"]


def _recording(op: str) -> Callable[..., Any]:
    def summary(interp: Any, b: Dict[str, Any]) -> Any:
        ctx = interp.ctx
        log = ctx.__dict__.setdefault("ucalls", [])
        log.append((op, dict(b)))
        first = next((v for v in b.values() if isinstance(v, SymTensor)), None)
        vals = [b[k] for k in b]
        enc = []
        for v in vals:
            try:
                tz.to_V(ctx, v)
                enc.append(v)
            except OutOfReach:
                enc.append(Opaque(z3.Const(ctx.fresh("arg"), tz.V)))
        if op == "residual_split":
            x = b["input"]
            r = torchmodel.op_app(interp, "U.residual_split.residual", enc, x.shape, x.dtype)
            s = torchmodel.op_app(interp, "U.residual_split.skip", enc, x.shape, x.dtype)
            r.attrs["__from_call__"] = s.attrs["__from_call__"] = len(log) - 1
            r.attrs["__role__"], s.attrs["__role__"] = "residual", "skip"
            return (r, s)
        sh = first.shape if first is not None else Shape([])
        dt = first.dtype if first is not None else tz.DTYPES["float32"]
        out = torchmodel.op_app(interp, "U." + op, enc, sh, dt)
        out.attrs["__from_call__"] = len(log) - 1
        return out

    return summary


def s_Parameter(interp: Any, b: Dict[str, Any]) -> Any:
    """contract of unit_scaling.parameter.Parameter (verified against its body in jobs_parameter):
    a NEW nn.Parameter sharing data's storage, tagged, with the copy/pickle hooks installed"""
    p = nnmodel.mk_parameter(interp, [b["data"]], {})
    p.attrs["mup_type"] = b["mup_type"]
    p.attrs["mup_scaling_depth"] = b["mup_scaling_depth"]
    p.attrs["__deepcopy__"] = ("hook", "_parameter_deepcopy", p)
    p.attrs["__reduce_ex__"] = ("hook", "_parameter_reduce_ex", p)
    p.attrs["__made_by_unit_scaling_Parameter__"] = True
    return p


MODULE_CONTRACTS: Dict[str, Any] = {UF + op: _recording(op) for op in U_OPS}
MODULE_CONTRACTS[PR + "Parameter"] = s_Parameter


def mk_minterp(ctx: Ctx, verifying: List[str], extra: Optional[Dict[str, Any]] = None) -> Any:
    contracts = dict(MODULE_CONTRACTS)
    if extra:
        contracts.update(extra)
    return mk_interp(ctx, verifying=verifying, extra_contracts=contracts, hook=nnmodel.hook)


def class_methods(cls: str, names: List[str] = ("__init__", "forward", "reset_parameters")) -> List[str]:
    return [M + cls + "." + n for n in names]


# ---------------------------------------------------------------- leaf modules


class ModSpec:
    cls = ""
    op = ""
    verifying_extra: List[str] = []

    def configs(self) -> List[Dict[str, Any]]:
        return [{}]

    def ctor(self, ctx: Ctx, cfg: Dict[str, Any]) -> Tuple[List[Any], Dict[str, Any]]:
        raise NotImplementedError

    def inputs(self, ctx: Ctx, cfg: Dict[str, Any], kw: Dict[str, Any]) -> List[Any]:
        return [leaf(ctx, "input", Shape([Run(ctx, "a")]))]

    def expect(self, obj: Any, kw: Dict[str, Any], inputs: List[Any], cfg: Dict[str, Any], ctx: Ctx) -> Dict[str, Any]:
        """functional parameter name -> the object it must be bound to"""
        raise NotImplementedError

    def expect_params(self, cfg: Dict[str, Any], kw: Dict[str, Any]) -> Dict[str, Tuple[Any, Any]]:
        """attribute -> (mup_type, initial fill) of every parameter a fresh module must have"""
        return {}

    def rejected(self) -> List[Tuple[str, Any]]:
        """(ctor option, default) pairs that must be rejected when non-default"""
        return []

    def extra(self, p: PathResult, obj: Any, kw: Dict[str, Any], inputs: List[Any], cfg: Dict[str, Any], tag: str) -> None:
        pass


def _same(a: Any, b: Any) -> bool:
    if a is b:
        return True
    if isinstance(a, (int, Fraction, str, bool, type(None))) and isinstance(b, (int, Fraction, str, bool, type(None))):
        return type(a) is type(b) and a == b
    if isinstance(a, (tuple, list)) and isinstance(b, (tuple, list)) and len(a) == len(b):
        return all(_same(x, y) for x, y in zip(a, b))
    if isinstance(a, SV) and isinstance(b, SV):
        return a.z.eq(b.z)
    return False


def module_job(spec: ModSpec, cfg: Dict[str, Any]) -> Callable[[], Record]:
    def run() -> Record:
        tag = f"C08:_modules.{spec.cls}"
        verifying = class_methods(spec.cls) + spec.verifying_extra

        def build(ctx: Ctx) -> Any:
            it = mk_minterp(ctx, verifying)
            C = lookup_fn(it, M + spec.cls)
            ctx.__dict__["training_flag"] = opaque(ctx, "training")
            pos, kw = spec.ctor(ctx, cfg)
            inputs = spec.inputs(ctx, cfg, kw)

            def thunk() -> Any:
                obj = it.call(C, list(pos), dict(kw))
                eff_ctor = list(ctx.effects)
                ctx.__dict__["ucalls"] = []
                out = it.call(obj, list(inputs), {})
                calls = list(ctx.__dict__["ucalls"])
                # rejected options
                rej: Dict[str, str] = {}
                for name, default in spec.rejected():
                    nd = NonDefaultValue(name)
                    try:
                        it.call(C, list(pos), dict(kw, **{name: nd}))
                        rej[name] = "accepted"
                    except PyRaise as e:
                        rej[name] = e.exc
                return obj, out, calls, kw, inputs, rej

            return it, thunk

        def post(p: PathResult, i: int) -> Any:
            ctx = p.ctx
            if p.outcome != "return":
                ctx.oblige(f"{tag}:constructs_and_runs", False, exc=str(p.exc))
                return None
            obj, out, calls, kw, inputs, rej = p.value
            mine = [c for c in calls if c[0] == spec.op]
            ctx.oblige(f"{tag}:forward_is_exactly_one_call_of_U.{spec.op}", len(calls) == 1 and len(mine) == 1, calls=[c[0] for c in calls])
            if len(mine) == 1:
                bound = mine[0][1]
                exp = spec.expect(obj, kw, inputs, cfg, ctx)
                for name, want in exp.items():
                    got = bound.get(name, "<missing>")
                    ctx.oblige(f"{tag}:option_{name}_honoured_in_forward", _same(got, want), got=repr(got)[:80], want=repr(want)[:80])
                ctx.oblige(f"{tag}:forward_returns_the_functional_result", isinstance(out, SymTensor) and out.attrs.get("__from_call__") == 0)
            for name, _ in spec.rejected():
                ctx.oblige(f"{tag}:option_{name}_rejected_at_construction", rej.get(name) == "ValueError", got=rej.get(name))
            # parameters: tags, initial state, all produced by unit_scaling.Parameter
            want_params = spec.expect_params(cfg, kw)
            have = dict(nnmodel.named_parameters_of(p.interp, obj))
            ctx.oblige(f"{tag}:parameter_set", set(have) == set(want_params), have=sorted(have), want=sorted(want_params))
            for name, (mt, init) in want_params.items():
                prm = have.get(name)
                if prm is None:
                    continue
                is_tagged = tagged(prm) or (isinstance(prm.attrs.get("mup_type"), Opaque) and "mup_scaling_depth" in prm.attrs)
                ctx.oblige(f"{tag}:parameter_{name}_is_a_tagged_unit_scaling_Parameter", is_tagged and prm.attrs.get("__made_by_unit_scaling_Parameter__") is True)
                ctx.oblige(f"{tag}:parameter_{name}_mup_type", _same(prm.attrs.get("mup_type"), mt), got=repr(prm.attrs.get("mup_type")), want=repr(mt))
                ctx.oblige(f"{tag}:parameter_{name}_depth_unset", prm.attrs.get("mup_scaling_depth", "<missing>") is None)
                ctx.oblige(f"{tag}:parameter_{name}_initial_state", nnmodel.fill_of(prm) == init, got=repr(nnmodel.fill_of(prm)), want=repr(init))
            spec.extra(p, obj, kw, inputs, cfg, tag)
            return None

        return run_config(M + spec.cls, cfg, build, post)

    return run


class NonDefaultValue:
    def __init__(self, name: str):
        self.name = name

    def pyvc_equals(self, interp: Any, a: Any, b: Any) -> Any:
        return a is b


NORMAL = ("normal", Fraction(0), Fraction(1))


class GELU(ModSpec):
    cls, op = "GELU", "gelu"

    def ctor(self, ctx: Ctx, cfg: Any) -> Any:
        return [], {"mult": pos_real(ctx, "mult"), "constraint": opaque(ctx, "constraint"), "approximate": opaque(ctx, "approximate")}

    def expect(self, obj: Any, kw: Any, inputs: Any, cfg: Any, ctx: Ctx) -> Any:
        return {"input": inputs[0], "mult": kw["mult"], "constraint": kw["constraint"], "approximate": kw["approximate"]}


class SiLU(ModSpec):
    cls, op = "SiLU", "silu"

    def ctor(self, ctx: Ctx, cfg: Any) -> Any:
        return [], {"mult": pos_real(ctx, "mult"), "constraint": opaque(ctx, "constraint")}

    def expect(self, obj: Any, kw: Any, inputs: Any, cfg: Any, ctx: Ctx) -> Any:
        return {"input": inputs[0], "mult": kw["mult"], "constraint": kw["constraint"], "inplace": False}

    def rejected(self) -> Any:
        return [("inplace", False)]


class Softmax(ModSpec):
    cls, op = "Softmax", "softmax"

    def ctor(self, ctx: Ctx, cfg: Any) -> Any:
        d = ctx.fresh_int("dim")
        return [], {"dim": d, "mult": pos_real(ctx, "mult"), "constraint": opaque(ctx, "constraint")}

    def expect(self, obj: Any, kw: Any, inputs: Any, cfg: Any, ctx: Ctx) -> Any:
        return {"input": inputs[0], "dim": kw["dim"], "mult": kw["mult"], "constraint": kw["constraint"]}


class Dropout(ModSpec):
    cls, op = "Dropout", "dropout"

    def ctor(self, ctx: Ctx, cfg: Any) -> Any:
        p = any_real(ctx, "p")
        ctx.assume(z3.And(p.z >= 0, p.z < 1))
        return [], {"p": p}

    def expect(self, obj: Any, kw: Any, inputs: Any, cfg: Any, ctx: Ctx) -> Any:
        return {"input": inputs[0], "p": kw["p"], "training": ctx.__dict__["training_flag"], "inplace": False}

    def rejected(self) -> Any:
        return [("inplace", False)]


class Linear(ModSpec):
    cls, op = "Linear", "linear"

    def configs(self) -> Any:
        return [{"bias": b} for b in (False, True)]

    def ctor(self, ctx: Ctx, cfg: Any) -> Any:
        kw = {"bias": cfg["bias"], "device": opaque(ctx, "device"), "dtype": opaque(ctx, "dtype"), "constraint": opaque(ctx, "constraint"), "weight_mup_type": opaque(ctx, "weight_mup_type")}
        return [dim(ctx, "in_features"), dim(ctx, "out_features")], kw

    def expect(self, obj: Any, kw: Any, inputs: Any, cfg: Any, ctx: Ctx) -> Any:
        return {"input": inputs[0], "weight": obj.attrs["weight"], "bias": obj.attrs["bias"], "constraint": kw["constraint"]}

    def expect_params(self, cfg: Any, kw: Any) -> Any:
        d = {"weight": (kw["weight_mup_type"], NORMAL)}
        if cfg["bias"]:
            d["bias"] = ("bias", "zeros")
        return d

    def extra(self, p: PathResult, obj: Any, kw: Any, inputs: Any, cfg: Any, tag: str) -> None:
        dd = obj.attrs.get("__device_dtype__", (None, None))
        p.ctx.oblige(f"{tag}:device_and_dtype_reach_the_base_constructor", dd[0] is kw["device"] and dd[1] is kw["dtype"])


class LinearReadout(Linear):
    cls, op = "LinearReadout", "linear_readout"
    verifying_extra = class_methods("Linear")


class LinearDefaults(ModSpec):
    """default option values (taken from the real signatures): Linear tags its weight 'weight',
    LinearReadout 'output' with constraint None (C12 relies on this)"""

    def __init__(self, cls: str, op: str, want_type: str):
        self.cls, self.op, self.want_type = cls, op, want_type
        self.verifying_extra = class_methods("Linear")

    def ctor(self, ctx: Ctx, cfg: Any) -> Any:
        return [dim(ctx, "in_features"), dim(ctx, "out_features")], {}

    def expect(self, obj: Any, kw: Any, inputs: Any, cfg: Any, ctx: Ctx) -> Any:
        return {"input": inputs[0], "weight": obj.attrs["weight"], "bias": None, "constraint": "to_output_scale" if self.cls == "Linear" else None}

    def expect_params(self, cfg: Any, kw: Any) -> Any:
        return {"weight": (self.want_type, NORMAL)}


class Conv1d(ModSpec):
    cls, op = "Conv1d", "conv1d"

    def configs(self) -> Any:
        return [{"bias": b, "padding_mode": pm} for b in (False, True) for pm in ("zeros", "circular", "reflect", "replicate")]

    def ctor(self, ctx: Ctx, cfg: Any) -> Any:
        g = dim(ctx, "groups")
        cg = dim(ctx, "in_channels_per_group")
        kw = {
            "stride": dim(ctx, "stride"),
            "padding": dim(ctx, "padding", lo=0),
            "dilation": dim(ctx, "dilation"),
            "groups": g,
            "bias": cfg["bias"],
            "padding_mode": cfg["padding_mode"],
            "constraint": opaque(ctx, "constraint"),
            "weight_mup_type": opaque(ctx, "weight_mup_type"),
        }
        return [SV(cg.z * g.z, "int"), dim(ctx, "out_channels"), dim(ctx, "kernel_size")], kw

    def inputs(self, ctx: Ctx, cfg: Any, kw: Any) -> Any:
        return [leaf(ctx, "input", Shape([dim(ctx, "batch"), dim(ctx, "channels"), dim(ctx, "seq_len")]))]

    def expect(self, obj: Any, kw: Any, inputs: Any, cfg: Any, ctx: Ctx) -> Any:
        e = {"weight": obj.attrs["weight"], "bias": obj.attrs["bias"], "stride": kw["stride"], "dilation": kw["dilation"], "groups": kw["groups"], "constraint": kw["constraint"]}
        if cfg["padding_mode"] == "zeros":
            e["input"] = inputs[0]
            e["padding"] = kw["padding"]
        else:
            # same output length as torch.nn.Conv1d: the explicitly padded input is convolved WITHOUT further padding
            e["padding"] = 0
        return e

    def expect_params(self, cfg: Any, kw: Any) -> Any:
        d = {"weight": (kw["weight_mup_type"], NORMAL)}
        if cfg["bias"]:
            d["bias"] = ("bias", "zeros")
        return d

    def extra(self, p: PathResult, obj: Any, kw: Any, inputs: Any, cfg: Any, tag: str) -> None:
        if cfg["padding_mode"] != "zeros":
            calls = [c for c in p.value[2] if c[0] == "conv1d"]
            if len(calls) == 1:
                x = calls[0][1]["input"]
                base = x.val.terms[0][0] if isinstance(x, SymTensor) and len(x.val.terms) == 1 else None
                ok = base is not None and z3.is_app(base) and base.decl().name() == "op!pad"
                p.ctx.oblige(f"{tag}:non_zero_padding_mode_pads_the_input_with_that_mode", ok, input=str(x)[:160])


class LayerNorm(ModSpec):
    cls, op = "LayerNorm", "layer_norm"

    def configs(self) -> Any:
        return [{"affine": a, "bias": b} for a in (False, True) for b in (False, True)]

    def ctor(self, ctx: Ctx, cfg: Any) -> Any:
        eps = pos_real(ctx, "eps")
        return [(dim(ctx, "norm_dim"),)], {"eps": eps, "elementwise_affine": cfg["affine"], "bias": cfg["bias"]}

    def expect(self, obj: Any, kw: Any, inputs: Any, cfg: Any, ctx: Ctx) -> Any:
        return {"input": inputs[0], "normalized_shape": obj.attrs["normalized_shape"], "weight": obj.attrs["weight"], "bias": obj.attrs["bias"], "eps": kw["eps"]}

    def expect_params(self, cfg: Any, kw: Any) -> Any:
        d = {}
        if cfg["affine"]:
            d["weight"] = ("norm", "ones")
            if cfg["bias"]:
                d["bias"] = ("bias", "zeros")
        return d


class RMSNorm(ModSpec):
    cls, op = "RMSNorm", "rms_norm"

    def configs(self) -> Any:
        return [{"affine": a, "shape": s} for a in (False, True) for s in ("int", "tuple")]

    def ctor(self, ctx: Ctx, cfg: Any) -> Any:
        d = dim(ctx, "norm_dim")
        ns = d if cfg["shape"] == "int" else (d,)
        return [ns], {"eps": pos_real(ctx, "eps"), "elementwise_affine": cfg["affine"]}

    def expect(self, obj: Any, kw: Any, inputs: Any, cfg: Any, ctx: Ctx) -> Any:
        ns = obj.attrs["normalized_shape"]
        return {"input": inputs[0], "normalized_shape": ns, "weight": obj.attrs["weight"], "eps": kw["eps"]}

    def expect_params(self, cfg: Any, kw: Any) -> Any:
        return {"weight": ("norm", "ones")} if cfg["affine"] else {}

    def extra(self, p: PathResult, obj: Any, kw: Any, inputs: Any, cfg: Any, tag: str) -> None:
        ns = obj.attrs["normalized_shape"]
        p.ctx.oblige(f"{tag}:normalized_shape_is_a_tuple", isinstance(ns, tuple) and len(ns) == 1)
        w = obj.attrs.get("weight")
        if w is not None:
            p.ctx.oblige(f"{tag}:gain_shape_is_normalized_shape", w.shape.eq(p.ctx, Shape(list(ns))) is True)


class Embedding(ModSpec):
    cls, op = "Embedding", "embedding"

    def configs(self) -> Any:
        return [{"padding_idx": pi} for pi in ("None", "given")]

    def ctor(self, ctx: Ctx, cfg: Any) -> Any:
        V = dim(ctx, "num_embeddings")
        pi: Any = None
        if cfg["padding_idx"] == "given":
            pi = ctx.fresh_int("padding_idx")
            ctx.assume(z3.And(pi.z >= 0, pi.z < V.z))
        return [V, dim(ctx, "embedding_dim")], {"padding_idx": pi, "max_norm": opaque(ctx, "max_norm"), "norm_type": pos_real(ctx, "norm_type")}

    def inputs(self, ctx: Ctx, cfg: Any, kw: Any) -> Any:
        return [leaf(ctx, "input", Shape([Run(ctx, "idx")]), dtype=tz.DTYPES["int64"], float_dtype=False)]

    def expect(self, obj: Any, kw: Any, inputs: Any, cfg: Any, ctx: Ctx) -> Any:
        return {"input": inputs[0], "weight": obj.attrs["weight"], "padding_idx": kw["padding_idx"], "max_norm": kw["max_norm"], "norm_type": kw["norm_type"], "scale_grad_by_freq": False, "sparse": False}

    def expect_params(self, cfg: Any, kw: Any) -> Any:
        return {"weight": ("weight", NORMAL)}

    def rejected(self) -> Any:
        return [("scale_grad_by_freq", False), ("sparse", False)]


class CrossEntropyLoss(ModSpec):
    cls, op = "CrossEntropyLoss", "cross_entropy"

    def ctor(self, ctx: Ctx, cfg: Any) -> Any:
        return [], {"mult": pos_real(ctx, "mult"), "ignore_index": ctx.fresh_int("ignore_index"), "reduction": opaque(ctx, "reduction")}

    def inputs(self, ctx: Ctx, cfg: Any, kw: Any) -> Any:
        B, V = dim(ctx, "batch"), dim(ctx, "vocab", lo=2)
        return [leaf(ctx, "input", Shape([B, V])), leaf(ctx, "target", Shape([B]), dtype=tz.DTYPES["int64"], float_dtype=False)]

    def expect(self, obj: Any, kw: Any, inputs: Any, cfg: Any, ctx: Ctx) -> Any:
        return {"input": inputs[0], "target": inputs[1], "weight": None, "ignore_index": kw["ignore_index"], "reduction": kw["reduction"], "label_smoothing": Fraction(0), "mult": kw["mult"]}

    def rejected(self) -> Any:
        return [("weight", None), ("size_average", None), ("reduce", None), ("label_smoothing", Fraction(0))]


LEAF_SPECS: List[ModSpec] = [GELU(), SiLU(), Softmax(), Dropout(), Linear(), LinearReadout(), LinearDefaults("Linear", "linear", "weight"), LinearDefaults("LinearReadout", "linear_readout", "output"), Conv1d(), LayerNorm(), RMSNorm(), Embedding(), CrossEntropyLoss()]

for _s in LEAF_SPECS:
    for _c in _s.configs():
        _k = f"mod:{_s.cls}{'(defaults)' if isinstance(_s, LinearDefaults) else ''}[" + ",".join(f"{k}={_c[k]}" for k in sorted(_c)) + "]"
        register(Job(_k, ["C08", "C12"] if _s.cls in ("Linear", "LinearReadout", "Conv1d") else ["C08"], M + _s.cls, _c, module_job(_s, _c)))


# ---------------------------------------------------------------- composite modules

ALL_LEAF_METHODS = class_methods("Linear") + class_methods("LinearReadout", ["__init__", "forward"]) + class_methods("RMSNorm", ["__init__", "forward"]) + class_methods("Embedding", ["__init__", "forward"])


def _calls_of(ctx: Ctx) -> List[Tuple[str, Dict[str, Any]]]:
    return list(ctx.__dict__.get("ucalls", []))


def _from(call_idx: int, v: Any) -> bool:
    return isinstance(v, SymTensor) and v.attrs.get("__from_call__") == call_idx


def _mlp_job() -> Record:
    tag = "C08:_modules.MLP"

    def build(ctx: Ctx) -> Any:
        it = mk_minterp(ctx, class_methods("MLP", ["__init__", "forward"]) + ALL_LEAF_METHODS)
        C = lookup_fn(it, M + "MLP")
        h, ef = dim(ctx, "hidden_size"), dim(ctx, "expansion_factor")
        x = leaf(ctx, "input", Shape([Run(ctx, "a"), h]))

        def thunk() -> Any:
            obj = it.call(C, [h], {"expansion_factor": ef})
            ctx.__dict__["ucalls"] = []
            out = it.call(obj, [x], {})
            return obj, out, _calls_of(ctx), h, ef, x

        return it, thunk

    def post(p: PathResult, i: int) -> Any:
        ctx = p.ctx
        if p.outcome != "return":
            ctx.oblige(f"{tag}:constructs_and_runs", False, exc=str(p.exc))
            return None
        obj, out, calls, h, ef, x = p.value
        inter = z3.simplify(h.z * ef.z)
        l1, lg, l2 = obj.attrs["linear_1"], obj.attrs["linear_gate"], obj.attrs["linear_2"]

        def shp(l: Any) -> Any:
            return [zreal(s) for s in l.attrs["weight"].shape.segs]

        ctx.oblige(f"{tag}:expansion_factor_sets_the_intermediate_width", z3.And(shp(l1)[0] == z3.ToReal(inter), shp(l1)[1] == zreal(h), shp(lg)[0] == z3.ToReal(inter), shp(lg)[1] == zreal(h), shp(l2)[0] == zreal(h), shp(l2)[1] == z3.ToReal(inter)))
        ctx.oblige(f"{tag}:inner_linears_unconstrained", all(l.attrs.get("constraint", "x") is None for l in (l1, lg, l2)))
        names = [c[0] for c in calls]
        ctx.oblige(f"{tag}:forward_is_linear_linear_silu_glu_linear", names == ["linear", "linear", "silu_glu", "linear"], got=names)
        if names == ["linear", "linear", "silu_glu", "linear"]:
            c0, c1, c2, c3 = [c[1] for c in calls]
            ok = c0["input"] is x and c0["weight"] is l1.attrs["weight"] and c1["input"] is x and c1["weight"] is lg.attrs["weight"] and _from(0, c2["input"]) and _from(1, c2["gate"]) and _from(2, c3["input"]) and c3["weight"] is l2.attrs["weight"] and _from(3, out)
            ctx.oblige(f"{tag}:dataflow_input->(linear_1,linear_gate)->silu_glu->linear_2", ok)
        for n, prm in nnmodel.named_parameters_of(p.interp, obj):
            ctx.oblige(f"{tag}:parameter_{n}_tagged_weight_N(0,1)", tagged(prm) and prm.attrs["mup_type"] == "weight" and nnmodel.fill_of(prm) == NORMAL)
        return None

    return run_config(M + "MLP", {}, build, post)


register(Job("mod:MLP", ["C08"], M + "MLP", {}, _mlp_job))


def _mhsa_job() -> Record:
    tag = "C08:_modules.MHSA"

    def build(ctx: Ctx) -> Any:
        it = mk_minterp(ctx, class_methods("MHSA", ["__init__", "forward"]) + ALL_LEAF_METHODS)
        C = lookup_fn(it, M + "MHSA")
        h = dim(ctx, "hidden_size")
        kw = {"heads": dim(ctx, "heads"), "is_causal": opaque(ctx, "is_causal"), "dropout_p": any_real(ctx, "dropout_p"), "mult": pos_real(ctx, "mult")}
        x = leaf(ctx, "input", Shape([dim(ctx, "b"), dim(ctx, "s"), h]))

        def thunk() -> Any:
            obj = it.call(C, [h], dict(kw))
            ctx.__dict__["ucalls"] = []
            out = it.call(obj, [x], {})
            return obj, out, _calls_of(ctx), h, kw, x

        return it, thunk

    def post(p: PathResult, i: int) -> Any:
        ctx = p.ctx
        if p.outcome != "return":
            ctx.oblige(f"{tag}:constructs_and_runs", False, exc=str(p.exc))
            return None
        obj, out, calls, h, kw, x = p.value
        names = [c[0] for c in calls]
        ctx.oblige(f"{tag}:forward_is_linear_attention_linear", names == ["linear", "scaled_dot_product_attention", "linear"], got=names)
        qkv, o = obj.attrs["linear_qkv"], obj.attrs["linear_o"]
        w = [zreal(s) for s in qkv.attrs["weight"].shape.segs]
        ctx.oblige(f"{tag}:qkv_projection_is_hidden_to_3_hidden", z3.And(w[0] == 3 * zreal(h), w[1] == zreal(h)))
        if names == ["linear", "scaled_dot_product_attention", "linear"]:
            a = calls[1][1]
            ctx.oblige(f"{tag}:option_dropout_p_honoured", a["dropout_p"] is kw["dropout_p"])
            ctx.oblige(f"{tag}:option_is_causal_honoured", a["is_causal"] is kw["is_causal"])
            ctx.oblige(f"{tag}:option_mult_honoured", a["mult"] is kw["mult"])
            # heads reaches the head-splitting rearrange of q, k, v
            t = a["query"].val.terms[0][0]
            ctx.oblige(f"{tag}:option_heads_honoured_in_head_split", any(str(c) == "heads" for c in _all_consts(t)), term=str(t)[:200])
            ctx.oblige(f"{tag}:q_k_v_are_the_three_parts_of_the_qkv_projection", all(isinstance(a[n], SymTensor) and "rearrange_part" in str(a[n].val.terms[0][0].decl()) for n in ("query", "key", "value")) and len({str(a[n].val.terms[0][0]) for n in ("query", "key", "value")}) == 3)
            ctx.oblige(f"{tag}:output_projection_applied_last", calls[2][1]["weight"] is o.attrs["weight"] and _from(2, out))
        return None

    return run_config(M + "MHSA", {}, build, post)


def _all_consts(e: z3.ExprRef) -> List[z3.ExprRef]:
    out, seen, stack = [], set(), [e]
    while stack:
        x = stack.pop()
        if x.get_id() in seen:
            continue
        seen.add(x.get_id())
        if z3.is_const(x) and x.decl().kind() == z3.Z3_OP_UNINTERPRETED:
            out.append(x)
        stack.extend(x.children())
    return out


register(Job("mod:MHSA", ["C08"], M + "MHSA", {}, _mhsa_job))

COMPOSITE_METHODS = class_methods("MLP", ["__init__", "forward"]) + class_methods("MHSA", ["__init__", "forward"]) + class_methods("TransformerLayer", ["__init__", "forward"]) + ALL_LEAF_METHODS


def _layer_job() -> Record:
    tag = "C08:_modules.TransformerLayer"

    def build(ctx: Ctx) -> Any:
        it = mk_minterp(ctx, COMPOSITE_METHODS)
        C = lookup_fn(it, M + "TransformerLayer")
        h = dim(ctx, "hidden_size")
        kw = {"heads": dim(ctx, "heads"), "mhsa_tau": pos_real(ctx, "mhsa_tau"), "mlp_tau": pos_real(ctx, "mlp_tau"), "is_causal": opaque(ctx, "is_causal"), "dropout_p": any_real(ctx, "dropout_p")}
        ctx.__dict__["training_flag"] = opaque(ctx, "training")
        x = leaf(ctx, "input", Shape([dim(ctx, "b"), dim(ctx, "s"), h]))

        def thunk() -> Any:
            obj = it.call(C, [h], dict(kw))
            ctx.__dict__["ucalls"] = []
            out = it.call(obj, [x], {})
            return obj, out, _calls_of(ctx), kw, x

        return it, thunk

    def post(p: PathResult, i: int) -> Any:
        ctx = p.ctx
        if p.outcome != "return":
            ctx.oblige(f"{tag}:constructs_and_runs", False, exc=str(p.exc))
            return None
        obj, out, calls, kw, x = p.value
        names = [c[0] for c in calls]
        want = ["residual_split", "rms_norm", "linear", "scaled_dot_product_attention", "linear", "dropout", "residual_add", "residual_split", "rms_norm", "linear", "linear", "silu_glu", "linear", "dropout", "residual_add"]
        ctx.oblige(f"{tag}:forward_is_prenorm_attention_block_then_prenorm_mlp_block", names == want, got=names)
        if names != want:
            return None
        b = [c[1] for c in calls]
        ctx.oblige(f"{tag}:mhsa_tau_used_in_first_split_and_add", b[0]["tau"] is kw["mhsa_tau"] and b[6]["tau"] is kw["mhsa_tau"])
        ctx.oblige(f"{tag}:mlp_tau_used_in_second_split_and_add", b[7]["tau"] is kw["mlp_tau"] and b[14]["tau"] is kw["mlp_tau"])
        ctx.oblige(f"{tag}:first_block_wraps_attention_second_wraps_mlp", names[3] == "scaled_dot_product_attention" and names[11] == "silu_glu")

        def role(v: Any, idx: int, r: str) -> bool:
            return isinstance(v, SymTensor) and v.attrs.get("__from_call__") == idx and v.attrs.get("__role__") == r

        ctx.oblige(f"{tag}:skip_tensors_rejoin_their_own_block", role(b[6]["skip"], 0, "skip") and role(b[14]["skip"], 7, "skip") and role(b[1]["input"], 0, "residual") and role(b[8]["input"], 7, "residual"))
        ctx.oblige(f"{tag}:second_block_starts_from_first_block_output", b[7]["input"].attrs.get("__from_call__") == 6 and _from(14, out))
        for k_ in (5, 13):
            ctx.oblige(f"{tag}:residual_dropout[{k_}]_uses_dropout_p_and_training", b[k_]["p"] is kw["dropout_p"] and b[k_]["training"] is ctx.__dict__["training_flag"])
        ctx.oblige(f"{tag}:attention_options_forwarded", b[3]["is_causal"] is kw["is_causal"] and b[3]["dropout_p"] is kw["dropout_p"])
        ctx.oblige(f"{tag}:heads_forwarded", obj.attrs["mhsa"].attrs["heads"] is kw["heads"])
        for n, prm in nnmodel.named_parameters_of(p.interp, obj):
            ctx.oblige(f"{tag}:parameter_{n}_tagged", tagged(prm))
        return None

    return run_config(M + "TransformerLayer", {}, build, post)


register(Job("mod:TransformerLayer", ["C08", "C07"], M + "TransformerLayer", {}, _layer_job))


class RuleFn:
    """an arbitrary residual scaling rule (index, layers) -> tau"""

    def __init__(self) -> None:
        self.calls: List[Tuple[Any, Any, Any]] = []

    def pyvc_call(self, interp: Any, args: List[Any], kwargs: Dict[str, Any]) -> Any:
        f = z3.Function("residual_scaling", z3.IntSort(), z3.IntSort(), z3.RealSort())
        idx, layers = args
        v = SV(f(tz.zint(idx), tz.zint(layers)), "real")
        interp.ctx.axiom(v.z > 0)
        self.calls.append((idx, layers, v))
        return v


def _stack_job(which: str) -> Callable[[], Record]:
    def run() -> Record:
        cls = "TransformerStack" if which == "stack" else "TransformerDecoder"
        tag = f"C07:_modules.{cls}"

        def build(ctx: Ctx) -> Any:
            it = mk_minterp(ctx, COMPOSITE_METHODS + class_methods("TransformerStack", ["__init__"]) + class_methods("DepthSequential", ["__init__"]) + class_methods("TransformerDecoder", ["__init__"]))
            C = lookup_fn(it, M + cls)
            L = dim(ctx, "layers")
            h = dim(ctx, "hidden_size")
            rule = RuleFn()
            kw = {"hidden_size": h, "heads": dim(ctx, "heads"), "dropout_p": any_real(ctx, "dropout_p")}

            def thunk() -> Any:
                if which == "stack":
                    obj = it.call(C, [], dict(kw, layers=L, residual_scaling=rule, is_causal=opaque(ctx, "is_causal")))
                else:
                    obj = it.call(C, [], dict(kw, layers=L, residual_scaling=rule, vocab_size=dim(ctx, "vocab_size")))
                return obj, L, rule, kw

            return it, thunk

        def post(p: PathResult, i: int) -> Any:
            ctx = p.ctx
            if p.outcome != "return":
                ctx.oblige(f"{tag}:constructs", False, exc=str(p.exc))
                return None
            obj, L, rule, kw = p.value
            stack = obj if which == "stack" else obj.attrs.get("layers")
            gi = ctx.__dict__.get("generic_indices", [])
            ok = len(gi) == 1 and gi[0][1] is L
            ctx.oblige(f"{tag}:one_layer_per_index_in_range(layers)", ok, got=str(gi)[:100])
            if not ok:
                return None
            iv = gi[0][0]
            ctx.oblige(f"{tag}:stack_length_is_layers", nnmodel._container_len(p.interp, [stack], {}) is L or _same(stack.attrs.get("__len__"), L))
            layer = stack.attrs["__items__"][0]
            ctx.oblige(f"{tag}:residual_rule_called_twice_per_layer", len(rule.calls) == 2, n=len(rule.calls))
            if len(rule.calls) == 2:
                (i0, l0, v0), (i1, l1, v1) = rule.calls
                ctx.oblige(f"{tag}:attention_tau_is_rule(2i, 2*layers)", z3.And(tz.zint(i0) == 2 * iv.z, tz.zint(l0) == 2 * L.z))
                ctx.oblige(f"{tag}:mlp_tau_is_rule(2i+1, 2*layers)", z3.And(tz.zint(i1) == 2 * iv.z + 1, tz.zint(l1) == 2 * L.z))
                ctx.oblige(f"{tag}:layer_i_receives_attention_tau_then_mlp_tau", layer.attrs.get("mhsa_tau") is v0 and layer.attrs.get("mlp_tau") is v1)
            ctx.oblige(f"{tag}:layer_options_forwarded", layer.attrs.get("dropout_p") is kw["dropout_p"] and layer.attrs["mhsa"].attrs.get("heads") is kw["heads"])
            # depth container: every parameter of the generic layer records depth == number of layers
            prms = nnmodel.named_parameters_of(p.interp, stack)
            ctx.oblige(f"C08:_modules.{cls}:every_stack_parameter_records_depth=len(stack)", len(prms) > 0 and all(_same(pr.attrs.get("mup_scaling_depth"), L) for _, pr in prms), n=len(prms))
            if which == "decoder":
                emb, proj = obj.attrs["embedding"], obj.attrs["projection"]
                ctx.oblige(f"C08:_modules.TransformerDecoder:embedding_tagged_weight_readout_tagged_output", emb.attrs["weight"].attrs.get("mup_type") == "weight" and proj.attrs["weight"].attrs.get("mup_type") == "output")
                ctx.oblige(f"C08:_modules.TransformerDecoder:attention_is_causal", layer.attrs["mhsa"].attrs.get("is_causal") is True)
            return None

        return run_config(M + cls, {"which": which}, build, post)

    return run


for _w in ("stack", "decoder"):
    register(Job(f"mod:Transformer{_w.capitalize()}", ["C07", "C08"], M + "TransformerStack", {"which": _w}, _stack_job(_w)))


def _depth_container_job(cls: str, kind: str) -> Callable[[], Record]:
    """kind: tagged | untagged | already_has_depth"""

    def run() -> Record:
        tag = f"C08:_modules.{cls}"

        def build(ctx: Ctx) -> Any:
            it = mk_minterp(ctx, class_methods(cls, ["__init__"]))
            C = lookup_fn(it, M + cls)
            n = dim(ctx, "n_modules", lo=0)
            prm = leaf(ctx, "parameter", Shape([Run(ctx, "p")]))
            prm.is_parameter = True
            if kind != "untagged":
                prm.attrs["mup_type"] = "weight"
                prm.attrs["mup_scaling_depth"] = None if kind == "tagged" else dim(ctx, "old_depth")
            state = {"entered": 0}
            seq = GenericSeq((Opaque(z3.Const("name", tz.V)), prm), None, "named_parameters")
            mods = nnmodel.GenericModules(n, seq)

            def thunk() -> Any:
                obj = it.call(C, [mods], {})
                return obj, prm, n, seq

            return it, thunk

        def post(p: PathResult, i: int) -> Any:
            ctx = p.ctx
            want_exc = {"tagged": None, "untagged": "ValueError", "already_has_depth": "AssertionError"}[kind]
            if p.outcome == "raise":
                ctx.oblige(f"{tag}:refuses_{kind}_parameter", p.exc is not None and p.exc.exc == want_exc, got=str(p.exc), want=str(want_exc))
                return None
            if want_exc is not None:
                ctx.oblige(f"{tag}:refuses_{kind}_parameter", False, got="constructed", want=want_exc)
                return None
            obj, prm, n, seq = p.value
            ctx.oblige(f"{tag}:every_parameter_visited(loop over named_parameters)", seq.entered == 1)
            ctx.oblige(f"{tag}:parameter_depth_set_to_len(self)", _same(prm.attrs.get("mup_scaling_depth"), n), got=repr(prm.attrs.get("mup_scaling_depth")))
            ctx.oblige(f"{tag}:mup_type_untouched", prm.attrs.get("mup_type") == "weight")
            return None

        return run_config(M + cls, {"kind": kind}, build, post)

    return run


for _c in ("DepthModuleList", "DepthSequential"):
    for _k in ("tagged", "untagged", "already_has_depth"):
        register(Job(f"mod:{_c}[{_k}]", ["C08", "C12"], M + _c, {"kind": _k}, _depth_container_job(_c, _k), shared=True))
