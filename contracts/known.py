"""Known findings (genuine defects recorded, not repaired): the list lives in
/verif/known_findings.json (committed; never written at run time).  This module installs,
per finding, the NEGATED witness class as an extra hypothesis: an obligation that still
fails under it is a different violation and is reported."""
from __future__ import annotations

import json
import os
from typing import Any, Callable, Dict, Optional

import z3

from pyvc import harness
from pyvc import tensor as tz
from pyvc.sym import Ctx, Obligation

ROOT = os.path.dirname(os.path.dirname(os.path.abspath(__file__)))
_data = json.load(open(os.path.join(ROOT, "known_findings.json")))
FINDINGS: Dict[str, Dict[str, Any]] = {f["id"]: f for f in _data.get("findings", [])}


def _find_apps(e: z3.ExprRef, name: str) -> list:
    out, seen, stack = [], set(), [e]
    while stack:
        x = stack.pop()
        if x.get_id() in seen:
            continue
        seen.add(x.get_id())
        if z3.is_app(x) and x.decl().name() == name:
            out.append(x)
        stack.extend(x.children())
    return out


def _no_ignored_targets(ctx: Ctx, ob: Obligation) -> Optional[z3.BoolRef]:
    """negated witness class of F6: no target equals ignore_index, i.e. n_valid == batch"""
    apps = []
    for h in list(ctx.axioms) + [ob.goal]:
        apps += _find_apps(h, "n_valid")
    bs = ctx.inputs.get("batch_size")
    if not apps or bs is None:
        return z3.BoolVal(True)
    return z3.And(*[a == bs.z for a in apps])


RESTRICTIONS: Dict[str, Callable[[Ctx, Obligation], Any]] = {
    "F6-cross_entropy-mean-ignore_index": _no_ignored_targets,
}

harness.KNOWN_RESTRICTIONS.clear()
harness.KNOWN_MATCH.clear()
for fid, f in FINDINGS.items():
    if fid in RESTRICTIONS:
        harness.KNOWN_RESTRICTIONS[fid] = RESTRICTIONS[fid]
    else:
        harness.KNOWN_RESTRICTIONS[fid] = lambda ctx, ob: None
    for m in f.get("match", []):
        harness.KNOWN_MATCH.append((fid, m["job"], m["obligation"]))
