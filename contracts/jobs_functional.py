"""Property-level contracts of the public ops of unit_scaling.functional
(C01 value/shape/dtype/frame, C02 gradients, C03 exact unit scale, C05 constraints).

Each postcondition is taken from the property statement:
  C01  result.val == k * ref.val, k > 0, k data-independent (k == 1 for losses, norms,
       embedding); same shape and dtype as the reference; no input tensor written.
  C02  for every differentiable input i: grad_i == b_i * grad_ref_i, b_i > 0,
       data- and gradient-independent.
  C03  with constraint None: scale^2 * terms == 1, `terms` being the term-count spec
       functions of the reference torch op (trusted catalogue, validated by measurement
       on all-ones tensors in trusted/validate_torch.py).
  C05  with a constraint name c: k == b_i == rule_c(k_None, b_None...) for the constrained
       inputs; the other gradient scales equal their unconstrained values.
The reference expressions are evaluated by the same executor against the torch catalogue.
"""
from __future__ import annotations

from fractions import Fraction
from typing import Any, Callable, Dict, List, Optional, Sequence, Tuple

import z3

from pyvc import tensor as tz
from pyvc import torchmodel
from pyvc.harness import Record, data_independent_goal, eval_expr, lc_ratio, lookup_fn, mentions, run_config, shape_eq_goal
from pyvc.interp import PathResult
from pyvc.sym import SB, SV, Ctx, PyRaise, num_binop, zint, zreal
from pyvc.tensor import DTYPES, LinComb, Run, Shape, SymTensor

from .common import any_real, dim, frame_obligations, grad_for, grads_of, leaf, mk_interp, opaque, pos_real
from .registry import Job, register
from .refs import REFS
from .summaries import UF, spec_rule

BINARY = [None, "", "gmean", "hmean", "amean", "to_output_scale", "to_grad_input_scale"]
TERNARY = [None, "", "gmean", "hmean", "amean", "to_output_scale", "to_left_grad_scale", "to_right_grad_scale"]
UNKNOWN = "<fresh-unbound-name>"


class OpSpec:
    name = ""
    ref = ""  # reference expression (value)
    ref_grad: Optional[str] = None  # reference for gradients (sum-reduced loss), default = ref
    diff: Sequence[str] = ()
    constrained: Sequence[str] = ()  # inputs whose gradient scale takes part in the constraint
    fixed_constraint = False  # op ties k and the constrained b_i itself (silu_glu, sdpa)
    k_is_one = False
    constraints: Optional[List[Any]] = None
    out_param: Optional[str] = None

    def __init__(self) -> None:
        r = REFS[self.name]
        self.ref = r["ref"]
        self.ref_grad = r.get("ref_grad")
        self.diff = r["diff"]
        self.constrained = r["constrained"]

    def configs(self) -> List[Dict[str, Any]]:
        return [{}]

    def make(self, ctx: Ctx, cfg: Dict[str, Any]) -> Tuple[Dict[str, Any], Dict[str, Any]]:
        raise NotImplementedError

    def terms(self, ctx: Ctx, cfg: Dict[str, Any], args: Dict[str, Any], meta: Dict[str, Any]) -> Optional[Dict[str, Any]]:
        return None

    def exact_when(self, cfg: Dict[str, Any]) -> bool:
        return True

    def extra(self, p: PathResult, cfg: Dict[str, Any], args: Dict[str, Any], meta: Dict[str, Any], res: Any, k: Any, bs: Dict[str, Any]) -> None:
        pass


def _call(it: Any, f: Any, args: Dict[str, Any], override: Optional[Dict[str, Any]] = None) -> Any:
    kw = dict(args)
    if override:
        kw.update(override)
    return it.call(f, [], kw)


def op_job(spec: OpSpec, cfg: Dict[str, Any]) -> Callable[[], Record]:
    qual = UF + spec.name
    con = cfg.get("constraint", "<n/a>")
    has_con = spec.constraints is not None

    def run() -> Record:
        def build(ctx: Ctx) -> Any:
            it = mk_interp(ctx, verifying=[qual])
            args, meta = spec.make(ctx, cfg)
            if has_con:
                args["constraint"] = con
            # precondition (property quantifier): all floating tensor arguments share one dtype
            fl = [v for v in args.values() if isinstance(v, SymTensor) and z3.is_const(v.dtype) and v.dtype.decl().kind() == z3.Z3_OP_UNINTERPRETED]
            for v in fl[1:]:
                ctx.assume(v.dtype == fl[0].dtype)
            f = lookup_fn(it, qual)
            for v in args.values():
                if isinstance(v, (list, dict)):
                    ctx.protected[id(v)] = "argument container"

            def thunk() -> Any:
                res = _call(it, f, args)
                eff = list(ctx.effects)
                res_none = None
                if has_con and con not in (None, "", UNKNOWN):
                    res_none = _call(it, f, args, {"constraint": None})
                ref = eval_expr(it, spec.ref, args)
                refg = eval_expr(it, spec.ref_grad, args) if spec.ref_grad else ref
                ctx.effects[:] = eff
                return res, res_none, ref, refg, args, meta

            return it, thunk

        def post(p: PathResult, i: int) -> Any:
            ctx = p.ctx
            pre = f"{spec.name}"
            wit = {k: v.z for k, v in ctx.inputs.items() if isinstance(v, SV)}
            for r in [x for x in ctx.__dict__.get("_runs", [])]:
                wit[r.name + ".n"], wit[r.name + ".P"] = r.n, r.P
            if con == UNKNOWN:
                ok = p.outcome == "raise" and p.exc is not None and p.exc.exc == "ValueError"
                ctx.oblige(f"C05:functional.{pre}:unknown_constraint_raises_ValueError", ok, outcome=str(p.exc or "returned"))
                return wit
            if p.outcome != "return":
                ctx.oblige(f"C01:functional.{pre}:no_exception_under_precondition", False, exc=str(p.exc))
                return wit
            res, res_none, ref, refg, args, meta = p.value
            it = p.interp
            if not isinstance(res, SymTensor):
                ctx.oblige(f"C01:functional.{pre}:returns_tensor", False, got=repr(res)[:80])
                return wit
            # ---- C01
            k, goal = lc_ratio(ctx, res.val, ref.val)
            ctx.oblige(f"C01:functional.{pre}:value_is_k_times_reference", goal, result=str(res.val)[:300], reference=str(ref.val)[:300])
            if k is not None:
                ctx.oblige(f"C01:functional.{pre}:k_positive", k > 0, k=str(k)[:200])
                ctx.oblige(f"C01:functional.{pre}:k_data_independent", data_independent_goal(k, ctx), k=str(k)[:200])
                if spec.k_is_one:
                    ctx.oblige(f"C01:functional.{pre}:k_equals_1", k == 1, k=str(k)[:200])
                wit["k"] = k
            ctx.oblige(f"C01:functional.{pre}:shape_equals_reference", shape_eq_goal(ctx, res.shape, ref.shape), result=str(res.shape), reference=str(ref.shape))
            ctx.oblige(f"C01:functional.{pre}:dtype_equals_reference", res.dtype == ref.dtype)
            allow = [args[spec.out_param]] if spec.out_param and isinstance(args.get(spec.out_param), SymTensor) else []
            frame_obligations(ctx, f"C01:functional.{pre}:frame_no_input_written", allow_out=allow)
            # ---- C02
            g, gr = grads_of(ctx, it, res)
            _, gq = grads_of(ctx, it, refg)
            bs: Dict[str, Any] = {}
            for name in spec.diff:
                t = args.get(name)
                if not isinstance(t, SymTensor):
                    continue
                b, bgoal = lc_ratio(ctx, grad_for(gr, t), grad_for(gq, t))
                ctx.oblige(f"C02:functional.{pre}:grad[{name}]_is_b_times_reference", bgoal, grad=str(grad_for(gr, t))[:300], reference=str(grad_for(gq, t))[:300])
                if b is not None:
                    ctx.oblige(f"C02:functional.{pre}:b[{name}]_positive", b > 0, b=str(b)[:200])
                    ctx.oblige(f"C02:functional.{pre}:b[{name}]_data_and_gradient_independent", data_independent_goal(b, ctx), b=str(b)[:200])
                    bs[name] = b
                    wit[f"b[{name}]"] = b
            # ---- C03 (no constraint, default scale powers)
            if con in (None, "", "<n/a>") and k is not None and spec.exact_when(cfg):
                tm = spec.terms(ctx, cfg, args, meta)
                if tm is not None:
                    for key, n_terms in tm.items():
                        s = k if key == "out" else bs.get(key)
                        if s is None:
                            continue
                        lbl = "output" if key == "out" else f"grad[{key}]"
                        ctx.oblige(f"C03:functional.{pre}:{lbl}_scale_is_rsqrt_of_terms", s * s * zreal(n_terms) == 1, scale=str(s)[:200], terms=str(n_terms)[:200])
            # ---- C05
            if spec.fixed_constraint and k is not None:
                for name in spec.constrained:
                    if name in bs:
                        ctx.oblige(f"C05:functional.{pre}:fixed_constraint_k_equals_b[{name}]", k == bs[name])
            if res_none is not None and k is not None:
                k0, g0 = lc_ratio(ctx, res_none.val, ref.val)
                _, gr0 = grads_of(ctx, it, res_none)
                b0: Dict[str, Any] = {}
                ok0 = [g0]
                for name in spec.diff:
                    t = args.get(name)
                    if isinstance(t, SymTensor):
                        bb, gg = lc_ratio(ctx, grad_for(gr0, t), grad_for(gq, t))
                        ok0.append(gg)
                        if bb is not None:
                            b0[name] = bb
                if k0 is not None and all(n in b0 for n in spec.constrained if isinstance(args.get(n), SymTensor)):
                    group = [SV(k0, "real")] + [SV(b0[n], "real") for n in spec.constrained if n in b0]
                    try:
                        rule = zreal(spec_rule(ctx, con, group))
                    except PyRaise as e:
                        ctx.oblige(f"C05:functional.{pre}:rule_arity", False, exc=str(e))
                        return wit
                    ctx.oblige(f"C05:functional.{pre}:output_scale_equals_rule_of_unconstrained", k == rule, k=str(k)[:200], rule=str(rule)[:200])
                    for name in spec.constrained:
                        if name in bs:
                            ctx.oblige(f"C05:functional.{pre}:grad_scale[{name}]_equals_rule_of_unconstrained", bs[name] == rule)
                    for name in bs:
                        if name not in spec.constrained and name in b0:
                            ctx.oblige(f"C05:functional.{pre}:grad_scale[{name}]_unaffected_by_constraint", bs[name] == b0[name])
                else:
                    ctx.oblige(f"C05:functional.{pre}:unconstrained_run_comparable", False)
            spec.extra(p, cfg, args, meta, res, k, bs)
            return wit

        return run_config(qual, cfg, build, post)

    return run


def _between(ctx: Ctx, name: str, v: Any, lo: Any, hi: Any) -> None:
    """C04: an empirical scale lies between its flat and sharp limit (both limits given as
    (square numerator, square denominator) to stay in exact arithmetic)"""
    a2, b2 = lo, hi
    v2 = v * v
    ctx.oblige(name, z3.And(v > 0, z3.Or(z3.And(v2 >= a2, v2 <= b2), z3.And(v2 >= b2, v2 <= a2))), value=str(v)[:160])


def _run(ctx: Ctx, name: str, **kw: Any) -> Run:
    r = Run(ctx, name, **kw)
    ctx.__dict__.setdefault("_runs", []).append(r)
    return r


def _with_constraints(base: List[Dict[str, Any]], cons: List[Any]) -> List[Dict[str, Any]]:
    return [dict(c, constraint=x) for c in base for x in cons + [UNKNOWN]]


# ------------------------------------------------------------------ the 16 ops


class Gelu(OpSpec):
    name = "gelu"
    constraints = BINARY

    def configs(self) -> List[Dict[str, Any]]:
        return _with_constraints([{}], BINARY)

    def make(self, ctx: Ctx, cfg: Dict[str, Any]) -> Any:
        return {"input": leaf(ctx, "input", Shape([_run(ctx, "a")])), "mult": pos_real(ctx, "mult"), "approximate": opaque(ctx, "approximate")}, {}

    def extra(self, p: PathResult, cfg: Any, args: Any, meta: Any, res: Any, k: Any, bs: Any) -> None:
        if cfg.get("constraint") is None and k is not None:
            from pyvc.sym import PI

            # output scale between 2 (flat limit) and sqrt(2/(1-1/pi)) (sharp limit); gradient scale between 2 and sqrt(2)
            _between(p.ctx, "C04:functional.gelu:output_scale_between_flat_and_sharp_limit", k, z3.RealVal(4), 2 / (1 - 1 / PI))
            if "input" in bs:
                _between(p.ctx, "C04:functional.gelu:grad_scale_between_flat_and_sharp_limit", bs["input"], z3.RealVal(4), z3.RealVal(2))


class Silu(OpSpec):
    name = "silu"
    constraints = BINARY

    def configs(self) -> List[Dict[str, Any]]:
        return _with_constraints([{}], BINARY)

    def make(self, ctx: Ctx, cfg: Dict[str, Any]) -> Any:
        return {"input": leaf(ctx, "input", Shape([_run(ctx, "a")])), "mult": pos_real(ctx, "mult"), "inplace": False}, {}

    def extra(self, p: PathResult, cfg: Any, args: Any, meta: Any, res: Any, k: Any, bs: Any) -> None:
        if cfg.get("constraint") is None and k is not None:
            from pyvc.sym import PI

            _between(p.ctx, "C04:functional.silu:output_scale_between_flat_and_sharp_limit", k, z3.RealVal(4), 2 / (1 - 1 / PI))
            if "input" in bs:
                _between(p.ctx, "C04:functional.silu:grad_scale_between_flat_and_sharp_limit", bs["input"], z3.RealVal(4), z3.RealVal(2))


class SiluGlu(OpSpec):
    name = "silu_glu"
    fixed_constraint = True

    def make(self, ctx: Ctx, cfg: Dict[str, Any]) -> Any:
        sh = Shape([_run(ctx, "a")])
        return {"input": leaf(ctx, "input", sh), "gate": leaf(ctx, "gate", sh), "mult": pos_real(ctx, "mult")}, {}

    def extra(self, p: PathResult, cfg: Any, args: Any, meta: Any, res: Any, k: Any, bs: Any) -> None:
        if k is not None:
            _between(p.ctx, "C04:functional.silu_glu:scale_between_flat_and_sharp_limit", k, z3.RealVal(4), z3.RealVal(2))


class Softmax(OpSpec):
    name = "softmax"
    constraints = BINARY

    def configs(self) -> List[Dict[str, Any]]:
        return _with_constraints([{"dtype": "None"}, {"dtype": "given"}], BINARY)

    def make(self, ctx: Ctx, cfg: Dict[str, Any]) -> Any:
        r = _run(ctx, "a", min_len=1)
        x = leaf(ctx, "input", Shape([r]))
        d = ctx.fresh_int("dim")
        ctx.assume(z3.And(d.z >= -r.n, d.z < r.n))
        ctx.inputs["dim"] = d
        dt: Any = None
        if cfg["dtype"] == "given":
            dt = z3.Const("dtype_arg", tz.DT)
            ctx.assume(torchmodel.is_float_dtype(dt))
        return {"input": x, "dim": d, "dtype": dt, "mult": pos_real(ctx, "mult")}, {"x": x}

    def extra(self, p: PathResult, cfg: Any, args: Any, meta: Any, res: Any, k: Any, bs: Any) -> None:
        if cfg.get("constraint") is None and k is not None:
            # between the flat limit n and the one-hot limit sqrt(n), n = size of the softmax dimension >= 1
            n = zreal(args["input"].shape.getitem(p.ctx, args["dim"]))
            _between(p.ctx, "C04:functional.softmax:output_scale_between_flat_and_one_hot_limit", k, n * n, n)
            if "input" in bs:
                m = args["mult"].z
                _between(p.ctx, "C04:functional.softmax:grad_scale_between_flat_and_one_hot_limit", bs["input"], (n / m) * (n / m), n / m)


class Dropout(OpSpec):
    name = "dropout"
    fixed_constraint = True

    def make(self, ctx: Ctx, cfg: Dict[str, Any]) -> Any:
        p = any_real(ctx, "p")
        ctx.assume(z3.And(p.z >= 0, p.z < 1))
        return {"input": leaf(ctx, "input", Shape([_run(ctx, "a")])), "p": p, "training": opaque(ctx, "training"), "inplace": False}, {}

    def terms(self, ctx: Ctx, cfg: Any, args: Any, meta: Any) -> Any:
        # second moment of the inverted-dropout mask: 1/(1-p)
        sm = num_binop(ctx, "/", 1, num_binop(ctx, "-", 1, args["p"]))
        return {"out": sm, "input": sm}


class Matmul(OpSpec):
    name = "matmul"
    constraints = TERNARY

    def configs(self) -> List[Dict[str, Any]]:
        return _with_constraints([{}], TERNARY)

    def make(self, ctx: Ctx, cfg: Dict[str, Any]) -> Any:
        r = _run(ctx, "batch")
        m, k, n = dim(ctx, "left_size"), dim(ctx, "inner_size"), dim(ctx, "right_size")
        return {"left": leaf(ctx, "left", Shape([r, m, k])), "right": leaf(ctx, "right", Shape([r, k, n]))}, {"m": m, "k": k, "n": n}

    def terms(self, ctx: Ctx, cfg: Any, args: Any, meta: Any) -> Any:
        return {"out": meta["k"], "left": meta["n"], "right": meta["m"]}


def _linear_args(ctx: Ctx, cfg: Dict[str, Any]) -> Any:
    fi, fo = dim(ctx, "fan_in"), dim(ctx, "fan_out")
    r = _run(ctx, "batch")
    args = {
        "input": leaf(ctx, "input", Shape([r, fi])),
        "weight": leaf(ctx, "weight", Shape([fo, fi])),
        "bias": leaf(ctx, "bias", Shape([fo])) if cfg.get("bias") else None,
    }
    return args, {"fan_in": fi, "fan_out": fo, "batch": SV(r.P, "int")}


class Linear(OpSpec):
    name = "linear"
    constraints = BINARY

    def configs(self) -> List[Dict[str, Any]]:
        base = [{"bias": b, "scale_power": sp} for b in (False, True) for sp in ("default", "symbolic")]
        return _with_constraints(base, BINARY)

    def make(self, ctx: Ctx, cfg: Dict[str, Any]) -> Any:
        args, meta = _linear_args(ctx, cfg)
        if cfg["scale_power"] == "symbolic":
            args["scale_power"] = tuple(any_real(ctx, f"scale_power{i}") for i in range(3))
        return args, meta

    def exact_when(self, cfg: Dict[str, Any]) -> bool:
        return cfg["scale_power"] == "default"

    def terms(self, ctx: Ctx, cfg: Any, args: Any, meta: Any) -> Any:
        return {"out": meta["fan_in"], "input": meta["fan_out"], "weight": meta["batch"], "bias": meta["batch"]}


class LinearReadout(OpSpec):
    name = "linear_readout"
    constraints = BINARY

    def configs(self) -> List[Dict[str, Any]]:
        return _with_constraints([{"bias": b} for b in (False, True)], BINARY)

    def make(self, ctx: Ctx, cfg: Dict[str, Any]) -> Any:
        return _linear_args(ctx, cfg)

    def terms(self, ctx: Ctx, cfg: Any, args: Any, meta: Any) -> Any:
        return {"input": meta["fan_out"], "weight": meta["batch"], "bias": meta["batch"]}

    def extra(self, p: PathResult, cfg: Any, args: Any, meta: Any, res: Any, k: Any, bs: Any) -> None:
        if cfg.get("constraint") in (None, "") and k is not None:
            # "linear_readout deliberately uses 1/fan_in for its output"
            p.ctx.oblige("C03:functional.linear_readout:output_scale_is_1_over_fan_in", k * zreal(meta["fan_in"]) == 1)


class Conv1d(OpSpec):
    name = "conv1d"
    constraints = BINARY

    def configs(self) -> List[Dict[str, Any]]:
        base = [{"bias": b, "batched": bt} for b in (False, True) for bt in (False, True)]
        return _with_constraints(base, BINARY)

    def make(self, ctx: Ctx, cfg: Dict[str, Any]) -> Any:
        cg, og, groups, K = dim(ctx, "in_channels_per_group"), dim(ctx, "out_channels_per_group"), dim(ctx, "groups"), dim(ctx, "kernel_size")
        L, stride, dilation = dim(ctx, "seq_len"), dim(ctx, "stride"), dim(ctx, "dilation")
        padding = dim(ctx, "padding", lo=0)
        c_in = SV(cg.z * groups.z, "int")
        c_out = SV(og.z * groups.z, "int")
        lead: List[Any] = [dim(ctx, "batch")] if cfg["batched"] else []
        x = leaf(ctx, "input", Shape(lead + [c_in, L]))
        w = leaf(ctx, "weight", Shape([c_out, cg, K]))
        b = leaf(ctx, "bias", Shape([c_out])) if cfg["bias"] else None
        out_len = torchmodel.conv_out_len(ctx, L, K, stride, padding, dilation)
        ctx.assume(zint(out_len) >= 1)
        args = {"input": x, "weight": w, "bias": b, "stride": stride, "padding": padding, "dilation": dilation, "groups": groups}
        batch = lead[0] if lead else 1
        return args, {"cg": cg, "og": og, "K": K, "stride": stride, "groups": groups, "c_out": c_out, "rows": num_binop(ctx, "*", out_len, batch), "padding": padding}

    def terms(self, ctx: Ctx, cfg: Any, args: Any, meta: Any) -> Any:
        # out: (C_in/groups)*K terms ; weight/bias grads: L_out*batch (exact without padding) ;
        # input grad (mean over interior positions): (C_out/groups)*K/stride
        gin = num_binop(ctx, "/", num_binop(ctx, "*", meta["og"], meta["K"]), meta["stride"])
        return {"out": num_binop(ctx, "*", meta["cg"], meta["K"]), "weight": meta["rows"], "bias": meta["rows"], "input": gin}


def _norm_args(ctx: Ctx, cfg: Dict[str, Any], with_bias: bool) -> Any:
    k = cfg["norm_rank"]
    ns = [dim(ctx, f"norm_dim{i}") for i in range(k)]
    r = _run(ctx, "rows")
    x = leaf(ctx, "input", Shape([r] + ns))
    args: Dict[str, Any] = {"input": x, "normalized_shape": tuple(ns)}
    args["weight"] = leaf(ctx, "weight", Shape(list(ns))) if cfg["weight"] else None
    if with_bias:
        args["bias"] = leaf(ctx, "bias", Shape(list(ns))) if cfg["bias"] else None
    eps = any_real(ctx, "eps")
    ctx.assume(eps.z >= 0)
    args["eps"] = eps
    return args, {"rows": SV(r.P, "int")}


class LayerNorm(OpSpec):
    name = "layer_norm"
    k_is_one = True

    def configs(self) -> List[Dict[str, Any]]:
        return [{"norm_rank": k, "weight": w, "bias": b} for k in (1, 2, 3) for w in (False, True) for b in (False, True)]

    def make(self, ctx: Ctx, cfg: Dict[str, Any]) -> Any:
        return _norm_args(ctx, cfg, True)

    def terms(self, ctx: Ctx, cfg: Any, args: Any, meta: Any) -> Any:
        return {"weight": meta["rows"], "bias": meta["rows"]}

    def extra(self, p: PathResult, cfg: Any, args: Any, meta: Any, res: Any, k: Any, bs: Any) -> None:
        if "input" in bs:
            p.ctx.oblige("C02:functional.layer_norm:b[input]_equals_1", bs["input"] == 1)


class RmsNorm(OpSpec):
    name = "rms_norm"
    k_is_one = True

    def configs(self) -> List[Dict[str, Any]]:
        return [{"norm_rank": k, "weight": w} for k in (1, 2, 3) for w in (False, True)]

    def make(self, ctx: Ctx, cfg: Dict[str, Any]) -> Any:
        return _norm_args(ctx, cfg, False)

    def terms(self, ctx: Ctx, cfg: Any, args: Any, meta: Any) -> Any:
        return {"weight": meta["rows"]}


class Add(OpSpec):
    name = "add"
    constraints = TERNARY
    out_param = "out"

    def configs(self) -> List[Dict[str, Any]]:
        base = [
            {"kind": "tensors", "out": False},
            {"kind": "tensors", "out": True},
            {"kind": "same_shape", "out": False},
            {"kind": "single_element", "out": False},
        ]
        cfgs = _with_constraints(base, TERNARY)
        for kind in ("tensor+float", "int+tensor"):
            cfgs += [{"kind": kind, "out": False, "constraint": c} for c in (None, "to_output_scale")]
        return cfgs

    def make(self, ctx: Ctx, cfg: Dict[str, Any]) -> Any:
        kind = cfg["kind"]
        if kind == "tensor+float":
            return {"input": leaf(ctx, "input", Shape([_run(ctx, "a")])), "other": any_real(ctx, "other")}, {"scalar": True}
        if kind == "int+tensor":
            v = ctx.fresh_int("input")
            ctx.inputs["input"] = v
            return {"input": v, "other": leaf(ctx, "other", Shape([_run(ctx, "b")]))}, {"scalar": True}
        ra = _run(ctx, "a")
        rb = ra if kind == "same_shape" else _run(ctx, "b")
        a = leaf(ctx, "input", Shape([ra]))
        b = leaf(ctx, "other", Shape([rb]))
        if kind == "single_element":
            ctx.assume(z3.Or(ra.P == 1, rb.P == 1))
        else:
            ctx.assume(z3.And(ra.P > 1, rb.P > 1))
        args: Dict[str, Any] = {"input": a, "other": b}
        if cfg["out"]:
            args["out"] = leaf(ctx, "out", Shape([_run(ctx, "o")]))
        out_shape = torchmodel.broadcast_shape(ctx, [a.shape, b.shape])
        return args, {"out_numel": out_shape.numel(ctx), "a": SV(ra.P, "int"), "b": SV(rb.P, "int")}

    def exact_when(self, cfg: Dict[str, Any]) -> bool:
        return cfg["kind"] in ("tensors", "same_shape") and not cfg["out"]

    def terms(self, ctx: Ctx, cfg: Any, args: Any, meta: Any) -> Any:
        n = meta["out_numel"]
        return {"out": 2, "input": num_binop(ctx, "/", n, meta["a"]), "other": num_binop(ctx, "/", n, meta["b"])}

    def extra(self, p: PathResult, cfg: Any, args: Any, meta: Any, res: Any, k: Any, bs: Any) -> None:
        if cfg["kind"] == "single_element" and cfg.get("constraint") in (None, "") and k is not None:
            # single-element operands shift the mean, not the spread: output left unscaled
            p.ctx.oblige("C03:functional.add:single_element_operand_output_unscaled", k == 1)
        if meta.get("scalar") and k is not None:
            p.ctx.oblige("C01:functional.add:python_scalar_operand_k_equals_1", k == 1)


class Embedding(OpSpec):
    name = "embedding"
    k_is_one = True

    def configs(self) -> List[Dict[str, Any]]:
        return [{"max_norm": m, "padding_idx": pi} for m in ("None", "given") for pi in ("None", "given")]

    def make(self, ctx: Ctx, cfg: Dict[str, Any]) -> Any:
        vocab, d = dim(ctx, "vocab"), dim(ctx, "embedding_dim")
        r = _run(ctx, "idx")
        idx = leaf(ctx, "input", Shape([r]), dtype=DTYPES["int64"], float_dtype=False)
        w = leaf(ctx, "weight", Shape([vocab, d]))
        mn = pos_real(ctx, "max_norm") if cfg["max_norm"] == "given" else None
        pi: Any = None
        if cfg["padding_idx"] == "given":
            pi = ctx.fresh_int("padding_idx")
            ctx.assume(z3.And(pi.z >= -vocab.z, pi.z < vocab.z))
            ctx.inputs["padding_idx"] = pi
        return {"input": idx, "weight": w, "padding_idx": pi, "max_norm": mn, "norm_type": pos_real(ctx, "norm_type"), "scale_grad_by_freq": False, "sparse": False}, {
            "vocab": vocab,
            "n_idx": SV(r.P, "int"),
        }

    def terms(self, ctx: Ctx, cfg: Any, args: Any, meta: Any) -> Any:
        # expected number of look-ups of one row (indices not hitting padding_idx)
        return {"weight": num_binop(ctx, "/", meta["n_idx"], meta["vocab"])}


class Sdpa(OpSpec):
    name = "scaled_dot_product_attention"
    fixed_constraint = True

    def configs(self) -> List[Dict[str, Any]]:
        return [{"is_causal": c} for c in (False, True)]

    def make(self, ctx: Ctx, cfg: Dict[str, Any]) -> Any:
        r = _run(ctx, "batch_heads")
        sq, s, d = dim(ctx, "seq_q"), dim(ctx, "seq_len"), dim(ctx, "d_head")
        if cfg["is_causal"]:
            ctx.assume(s.z >= 2)
        p = any_real(ctx, "dropout_p")
        ctx.assume(z3.And(p.z >= 0, p.z < 1))
        return {
            "query": leaf(ctx, "query", Shape([r, sq, d])),
            "key": leaf(ctx, "key", Shape([r, s, d])),
            "value": leaf(ctx, "value", Shape([r, s, d])),
            "attn_mask": opaque(ctx, "attn_mask"),
            "dropout_p": p,
            "is_causal": cfg["is_causal"],
            "mult": pos_real(ctx, "mult"),
        }, {"s": s, "p": p}

    def extra(self, p: PathResult, cfg: Any, args: Any, meta: Any, res: Any, k: Any, bs: Any) -> None:
        if k is not None:
            # C04: the empirical output scale lies between its sharp limit sqrt(1-p) (one key attended to)
            # and its flat limit sqrt((1-p) * s / L), L = log(s) for causal attention, 1 otherwise
            from pyvc.sym import num_log

            s_, p_ = zreal(meta["s"]), zreal(meta["p"])
            L = zreal(num_log(p.ctx, meta["s"])) if cfg["is_causal"] else z3.RealVal(1)
            _between(p.ctx, "C04:functional.scaled_dot_product_attention:output_scale_between_sharp_and_flat_limit", k, 1 - p_, (1 - p_) * s_ / L)


class CrossEntropy(OpSpec):
    name = "cross_entropy"
    k_is_one = True

    def configs(self) -> List[Dict[str, Any]]:
        return [{"rank": r, "reduction": red} for r in (1, 2) for red in ("mean", "sum")]

    def make(self, ctx: Ctx, cfg: Dict[str, Any]) -> Any:
        V = dim(ctx, "vocab_size", lo=2)
        if cfg["rank"] == 2:
            B = dim(ctx, "batch_size")
            x = leaf(ctx, "input", Shape([B, V]))
            t = leaf(ctx, "target", Shape([B]), dtype=DTYPES["int64"], float_dtype=False)
        else:
            x = leaf(ctx, "input", Shape([V]))
            t = leaf(ctx, "target", Shape([]), dtype=DTYPES["int64"], float_dtype=False)
        ii = ctx.fresh_int("ignore_index")
        ctx.inputs["ignore_index"] = ii
        return {
            "input": x,
            "target": t,
            "weight": None,
            "size_average": None,
            "ignore_index": ii,
            "reduce": None,
            "reduction": cfg["reduction"],
            "label_smoothing": Fraction(0),
            "mult": pos_real(ctx, "mult"),
        }, {"V": V}

    def extra(self, p: PathResult, cfg: Any, args: Any, meta: Any, res: Any, k: Any, bs: Any) -> None:
        if "input" in bs:
            V = zreal(meta["V"])
            m = args["mult"].z
            b = bs["input"]
            # documented logit-gradient scale V/sqrt(V-1) relative to the reference (which contains *mult)
            p.ctx.oblige("C04:functional.cross_entropy:logit_grad_scale_squared_is_V2_over_V-1", b * b * m * m * (V - 1) == V * V, b=str(b)[:200])
            # RMS exactly 1 for uniform logits: d CE_sum/dz = softmax(z) - onehot  (assumed torch fact)
            # mean square over one row of V entries: ((V-1)*(1/V)^2 + (1-1/V)^2)/V
            ms = ((V - 1) * (1 / V) * (1 / V) + (1 - 1 / V) * (1 - 1 / V)) / V
            p.ctx.oblige("C04:functional.cross_entropy:uniform_logits_grad_rms_exactly_1", (b * m) * (b * m) * ms == 1)


class MseLoss(OpSpec):
    name = "mse_loss"
    k_is_one = True

    def configs(self) -> List[Dict[str, Any]]:
        return [{"reduction": red} for red in ("mean", "sum")]

    def make(self, ctx: Ctx, cfg: Dict[str, Any]) -> Any:
        sh = Shape([_run(ctx, "a")])
        return {"input": leaf(ctx, "input", sh), "target": leaf(ctx, "target", sh), "size_average": None, "reduce": None, "reduction": cfg["reduction"]}, {}

    def terms(self, ctx: Ctx, cfg: Any, args: Any, meta: Any) -> Any:
        # variance of d/dx sum (x-t)^2 = 2(x-t) for unit-variance x, t: 4*2 = 8
        return {"input": 8, "target": 8}


OPS: List[OpSpec] = [Gelu(), Silu(), SiluGlu(), Softmax(), Dropout(), Matmul(), Linear(), LinearReadout(), Conv1d(), LayerNorm(), RmsNorm(), Add(), Embedding(), Sdpa(), CrossEntropy(), MseLoss()]
OPS_BY_NAME = {o.name: o for o in OPS}


def _key(spec: OpSpec, cfg: Dict[str, Any]) -> str:
    return f"op:{spec.name}[" + ",".join(f"{k}={cfg[k]}" for k in sorted(cfg)) + "]"


for _spec in OPS:
    for _cfg in _spec.configs():
        register(Job(_key(_spec, _cfg), ["C01", "C02", "C03", "C05"] + (["C04"] if _spec.name in ("cross_entropy", "gelu", "silu", "silu_glu", "softmax", "layer_norm", "rms_norm", "scaled_dot_product_attention") else []), UF + _spec.name, _cfg, op_job(_spec, _cfg)))


# ------------------------------------------------------------------ C01: argument guard


def _unsupported_of(fv: Any) -> List[str]:
    import ast

    out: List[str] = []
    for d in fv.decorators:
        if isinstance(d, ast.Call):
            for kw in d.keywords:
                if kw.arg == "unsupported_args" and isinstance(kw.value, (ast.List, ast.Tuple)):
                    out += [e.value for e in kw.value.elts if isinstance(e, ast.Constant)]
    return out


def _all_exprs(ctx: Ctx, it: Any, res: SymTensor, args: Dict[str, Any], diff: Sequence[str]) -> List[z3.ExprRef]:
    ex: List[z3.ExprRef] = []
    for t, c in res.val.terms:
        ex += [t, c]
    for sgm in res.shape.segs:
        if isinstance(sgm, SV):
            ex.append(sgm.z)
        elif isinstance(sgm, Run):
            ex += [sgm.n, sgm.P]
    if z3.is_expr(res.dtype):
        ex.append(res.dtype)
    _, gr = grads_of(ctx, it, res)
    for name in diff:
        t = args.get(name)
        if isinstance(t, SymTensor):
            for tt, cc in grad_for(gr, t).terms:
                ex += [tt, cc]
    return ex


def _names_of(v: Any) -> List[str]:
    if isinstance(v, SV):
        return [str(c) for c in _consts(v.z)]
    if isinstance(v, tz.Opaque):
        return [str(v.z)]
    if isinstance(v, SymTensor):
        return [str(c) for t, _ in v.val.terms for c in _consts(t)] + ([str(v.dtype)] if z3.is_const(v.dtype) else [])
    if isinstance(v, (tuple, list)):
        return [n for x in v for n in _names_of(x)]
    if z3.is_expr(v):
        return [str(c) for c in _consts(v)]
    return []


def _consts(e: z3.ExprRef) -> List[z3.ExprRef]:
    out, seen, stack = [], set(), [e]
    while stack:
        x = stack.pop()
        if x.get_id() in seen:
            continue
        seen.add(x.get_id())
        if z3.is_const(x) and x.decl().kind() == z3.Z3_OP_UNINTERPRETED:
            out.append(x)
        stack.extend(x.children())
    return out


def guard_job(spec: OpSpec) -> Callable[[], Record]:
    """every parameter of the public op is either used (the result depends on it) or
    rejected (listed as unsupported: a non-default value raises ValueError)"""
    qual = UF + spec.name
    cfg = dict(spec.configs()[0])
    # prefer the richest configuration (all optional tensors present)
    for c in spec.configs():
        if c.get("constraint", None) in (None,) and all(v is not False and v != "None" for k, v in c.items() if k != "constraint"):
            cfg = dict(c)
            break

    def run() -> Record:
        def build(ctx: Ctx) -> Any:
            it = mk_interp(ctx, verifying=[qual])
            args, meta = spec.make(ctx, cfg)
            if spec.constraints is not None:
                args["constraint"] = None
            f = lookup_fn(it, qual)
            a = f.node.args
            params = [x.arg for x in a.posonlyargs + a.args + a.kwonlyargs]
            unsupported = _unsupported_of(f)

            def thunk() -> Any:
                res = _call(it, f, args)
                rejected: Dict[str, str] = {}
                for u in unsupported:
                    sym = opaque(ctx, "nondefault_" + u)
                    nd = len(a.defaults)
                    pos = [x.arg for x in a.posonlyargs + a.args]
                    default = it.eval(a.defaults[pos.index(u) - (len(pos) - nd)], f.env)
                    ctx.assume(z3.Not(tz.to_V(ctx, sym) == tz.to_V(ctx, default)))
                    try:
                        _call(it, f, args, {u: sym})
                        rejected[u] = "accepted"
                    except PyRaise as e:
                        rejected[u] = e.exc
                return res, args, params, unsupported, rejected

            return it, thunk

        def post(p: PathResult, i: int) -> Any:
            ctx = p.ctx
            tag = f"C01:functional.{spec.name}"
            if p.outcome != "return":
                ctx.oblige(f"{tag}:guard_harness", False, exc=str(p.exc))
                return None
            res, args, params, unsupported, rejected = p.value
            for u in unsupported:
                ctx.oblige(f"{tag}:unsupported_argument_{u}_rejected_with_ValueError", rejected.get(u) == "ValueError", got=rejected.get(u))
            exprs = _all_exprs(ctx, p.interp, res, args, spec.diff)
            for name in params:
                if name in unsupported or name in ("constraint", "out"):
                    continue  # constraint: C05 obligations; out: designated output (frame clause)
                if name not in args:
                    ctx.oblige(f"{tag}:parameter_{name}_covered_by_contract", name == "scale_power", note="parameter not exercised by the contract")
                    continue
                v = args[name]
                names = _names_of(v)
                if v is None or not names:
                    continue  # concrete configuration value (enumerated elsewhere)
                used = any(mentions(e, names) for e in exprs)
                ctx.oblige(f"{tag}:parameter_{name}_used_or_rejected", used, symbols=names[:4])
            return None

        return run_config(qual, dict(cfg, guard=True), build, post)

    return run


for _spec in OPS:
    register(Job(f"guard:{_spec.name}", ["C01"], UF + _spec.name, {"guard": True}, guard_job(_spec)))
