"""C15: format simulation = straight-through quantisation exactly at matmul boundaries.
Function-level contracts (proved); the FX graph rewrite under the assumed fx contracts of
pyvc/fxmodel.py; what TorchDynamo presents as call_function nodes is assumed (A5)."""
from __future__ import annotations

import itertools
from fractions import Fraction
from typing import Any, Callable, Dict, List, Optional, Tuple

import z3

from pyvc import fxmodel
from pyvc import tensor as tz
from pyvc import torchmodel
from pyvc.fxmodel import FxGraph, FxNode
from pyvc.harness import Record, compare_tensors, lc_equal_goal, lookup_fn, run_config
from pyvc.interp import FuncVal, ObjVal, PathResult
from pyvc.sym import SV, Ctx, OutOfReach, PyRaise
from pyvc.tensor import LinComb, Node, Opaque, Run, Shape, SymTensor

from .common import dim, frame_obligations, leaf, mk_interp, opaque
from .registry import Job, register

FM = "unit_scaling.formats."
SF = "unit_scaling.transforms._simulate_format."
TU = "unit_scaling.transforms.utils."


def fmt_fields(f: Any) -> List[Any]:
    return [f.attrs["exponent_bits"], f.attrs["mantissa_bits"], f.attrs["rounding"], f.attrs["srbits"]]


def s_quantise(interp: Any, b: Dict[str, Any]) -> Any:
    """contract of FPFormat.quantise in the value algebra: an uninterpreted function Q of the
    tensor and of the four fields of the format (its bit-level meaning: C13/C14); same shape
    and dtype; a new tensor; not differentiable"""
    f, x = b["self"], b["x"]
    r = torchmodel.op_app(interp, "quantise", [x] + fmt_fields(f), x.shape, x.dtype)
    r.node = None
    return r


class QNode(Node):
    """spec of the straight-through estimators"""

    def __init__(self, inp: Optional[Node], fmt: Any, mode: str, interp: Any, shape: Any, dtype: Any):
        super().__init__([inp])
        self.fmt, self.mode, self.interp, self.shape, self.dtype = fmt, mode, interp, shape, dtype

    def vjp(self, ctx: Ctx, g: LinComb, interp: Any) -> List[Optional[LinComb]]:
        if self.mode == "fwd":
            return [g]
        G = SymTensor(self.shape, self.dtype, g, None)
        return [s_quantise(interp, {"self": self.fmt, "x": G}).val]


def spec_quantise_fwd(interp: Any, fmt: Any, x: SymTensor) -> SymTensor:
    q = s_quantise(interp, {"self": fmt, "x": x})
    return SymTensor(x.shape, x.dtype, q.val, QNode(x.node, fmt, "fwd", interp, x.shape, x.dtype))


def spec_quantise_bwd(interp: Any, fmt: Any, x: SymTensor) -> SymTensor:
    return SymTensor(x.shape, x.dtype, x.val, QNode(x.node, fmt, "bwd", interp, x.shape, x.dtype))


FMT_CONTRACTS = {
    FM + "FPFormat.quantise": s_quantise,
    FM + "FPFormat.quantise_fwd": lambda it, b: spec_quantise_fwd(it, b["self"], b["x"]),
    FM + "FPFormat.quantise_bwd": lambda it, b: spec_quantise_bwd(it, b["self"], b["x"]),
}


def mk_sym_format(it: Any, ctx: Ctx, name: str, rounding: str, srbits_given: bool) -> Any:
    cls = lookup_fn(it, FM + "FPFormat")
    E, M = dim(ctx, name + "_E", lo=2), dim(ctx, name + "_M", lo=0)
    ctx.assume(M.z <= 23)
    kw: Dict[str, Any] = {"rounding": rounding}
    if srbits_given:
        s = dim(ctx, name + "_srbits", lo=1)
        kw["srbits"] = s
    return it.call(cls, [E, M], kw)


def _ste_job(which: str, rounding: str, srbits_given: bool, after_other: bool = False) -> Callable[[], Record]:
    def run() -> Record:
        qual = FM + "FPFormat." + which
        tag = f"C15:formats.FPFormat.{which}"

        def build(ctx: Ctx) -> Any:
            it = mk_interp(ctx, verifying=[qual], extra_inline=[FM + "FPFormat.__post_init__"], extra_contracts={FM + "FPFormat.quantise": s_quantise})
            fmt = mk_sym_format(it, ctx, "fmt", rounding, srbits_given)
            x = leaf(ctx, "x", Shape([Run(ctx, "a")]))

            def thunk() -> Any:
                if rounding == "stochastic":
                    # an earlier use, in the same process, of ANOTHER format with the same exponent /
                    # mantissa bits and rounding mode but a different number of random bits
                    other = it.call(lookup_fn(it, FM + "FPFormat"), [fmt.attrs["exponent_bits"], fmt.attrs["mantissa_bits"]], {"rounding": rounding, "srbits": 1})
                    x0 = leaf(ctx, "x_earlier", Shape([Run(ctx, "a0")]))
                    it.call(it.getattr(other, which), [x0], {})
                if after_other:
                    # HISTORY: the SAME format object was used earlier for the other direction (equal forward
                    # and backward formats share one object when formats are interned); seeded change C15-7
                    xo = leaf(ctx, "x_other_direction", Shape([Run(ctx, "ao")]))
                    it.call(it.getattr(fmt, "quantise_bwd" if which == "quantise_fwd" else "quantise_fwd"), [xo], {})
                body = it.call(it.getattr(fmt, which), [x], {})
                spec = (spec_quantise_fwd if which == "quantise_fwd" else spec_quantise_bwd)(it, fmt, x)
                return body, spec, x

            return it, thunk

        def post(p: PathResult, i: int) -> Any:
            ctx = p.ctx
            if p.outcome != "return":
                ctx.oblige(f"{tag}:no_exception", False, exc=str(p.exc))
                return None
            body, spec, x = p.value
            compare_tensors(ctx, p.interp, f"{tag}:body==straight_through_contract", body, spec, [x], {})
            frame_obligations(ctx, f"{tag}:frame")
            return None

        return run_config(qual, dict({"rounding": rounding, "srbits_given": srbits_given}, **({"after_other_direction_on_same_object": True} if after_other else {})), build, post)

    return run


for _w in ("quantise_fwd", "quantise_bwd"):
    register(Job(f"c15:{_w}[nearest,after_other_direction_on_same_object]", ["C15"], FM + "FPFormat." + _w, {"rounding": "nearest", "after_other_direction_on_same_object": True}, _ste_job(_w, "nearest", False, True), shared=True))
for _w in ("quantise_fwd", "quantise_bwd"):
    for _r, _s in (("nearest", False), ("stochastic", False), ("stochastic", True)):
        register(Job(f"c15:{_w}[{_r},srbits_given={_s}]", ["C15", "C14"] if _r == "stochastic" else ["C15"], FM + "FPFormat." + _w, {"rounding": _r, "srbits_given": _s}, _ste_job(_w, _r, _s), shared=True))


def _roundtrip_job(rounding: str, srbits_given: bool) -> Callable[[], Record]:
    def run() -> Record:
        tag = "C15:formats.format_to_tuple/tuple_to_format"

        def build(ctx: Ctx) -> Any:
            it = mk_interp(ctx, verifying=[FM + "format_to_tuple", FM + "tuple_to_format"], extra_inline=[FM + "FPFormat.__post_init__"])
            fmt = mk_sym_format(it, ctx, "fmt", rounding, srbits_given)

            def thunk() -> Any:
                t = it.call(lookup_fn(it, FM + "format_to_tuple"), [fmt], {})
                back = it.call(lookup_fn(it, FM + "tuple_to_format"), [t], {})
                return fmt, t, back

            return it, thunk

        def post(p: PathResult, i: int) -> Any:
            ctx = p.ctx
            if p.outcome != "return":
                ctx.oblige(f"{tag}:no_exception", False, exc=str(p.exc))
                return None
            fmt, t, back = p.value
            from pyvc.harness import compare_values

            for name, a, b in zip(("exponent_bits", "mantissa_bits", "rounding", "srbits"), fmt_fields(fmt), fmt_fields(back)):
                compare_values(ctx, p.interp, f"{tag}:round_trip_preserves_{name}", b, a)
            ctx.oblige(f"{tag}:tuple_is_plain_data(ints_and_strings)", isinstance(t, tuple) and all(isinstance(v, (int, str, SV, Fraction)) for v in t), got=repr(t)[:80])
            return {k: v.z for k, v in ctx.inputs.items() if isinstance(v, SV)}

        return run_config(FM + "format_to_tuple", {"rounding": rounding, "srbits_given": srbits_given}, build, post)

    return run


for _r, _s in (("nearest", False), ("stochastic", False), ("stochastic", True)):
    register(Job(f"c15:format_tuple_roundtrip[{_r},srbits_given={_s}]", ["C15"], FM + "format_to_tuple", {"rounding": _r, "srbits_given": _s}, _roundtrip_job(_r, _s)))


# ---------------------------------------------------------------- the four quantised wrappers

WRAPPERS = {
    "_quantised_linear": dict(op="F.linear", tensors=["input", "weight"], others=["bias"], ref="F.linear(input, weight, bias)"),
    "_quantised_u_linear": dict(op="U.linear", tensors=["input", "weight"], others=["bias", "constraint"], ref="U.linear(input, weight, bias, constraint)"),
    "_quantised_scaled_dot_product_attention": dict(op="F.sdpa", tensors=["query", "key", "value"], others=["attn_mask", "dropout_p", "is_causal"], ref="F.scaled_dot_product_attention(query, key, value, attn_mask=attn_mask, dropout_p=dropout_p, is_causal=is_causal)"),
    "_quantised_u_scaled_dot_product_attention": dict(op="U.sdpa", tensors=["query", "key", "value"], others=["attn_mask", "dropout_p", "is_causal", "mult"], ref="U.scaled_dot_product_attention(query, key, value, attn_mask=attn_mask, dropout_p=dropout_p, is_causal=is_causal, mult=mult)"),
}


def _u_recording(op: str) -> Callable[..., Any]:
    def summary(interp: Any, b: Dict[str, Any]) -> Any:
        vals = [b[k] for k in b]
        first = next(v for v in vals if isinstance(v, SymTensor))
        return torchmodel.op_app(interp, "U." + op, vals, first.shape, first.dtype)

    return summary


def _wrapper_job(name: str) -> Callable[[], Record]:
    def run() -> Record:
        qual = SF + name
        tag = f"C15:transforms._simulate_format.{name}"
        w = WRAPPERS[name]

        def build(ctx: Ctx) -> Any:
            contracts = dict(FMT_CONTRACTS)
            contracts["unit_scaling.functional.linear"] = _u_recording("linear")
            contracts["unit_scaling.functional.scaled_dot_product_attention"] = _u_recording("scaled_dot_product_attention")
            it = mk_interp(ctx, verifying=[qual, FM + "tuple_to_format", FM + "format_to_tuple"], extra_inline=[FM + "FPFormat.__post_init__"], extra_contracts=contracts, hook=fxmodel.hook)
            fwd = mk_sym_format(it, ctx, "fwd", "nearest", False)
            bwd = mk_sym_format(it, ctx, "bwd", "stochastic", True)
            f2t = lookup_fn(it, FM + "format_to_tuple")
            sh = Shape([Run(ctx, "a"), dim(ctx, "d")])
            args: Dict[str, Any] = {}
            for t in w["tensors"]:
                args[t] = leaf(ctx, t, sh if t != "weight" else Shape([dim(ctx, "o"), sh.segs[-1]]))
            for o in w["others"]:
                args[o] = leaf(ctx, "bias", Shape([dim(ctx, "o2")])) if o == "bias" else opaque(ctx, o)

            def thunk() -> Any:
                ft, bt = it.call(f2t, [fwd], {}), it.call(f2t, [bwd], {})
                kw = dict(args)
                kw["fwd_format_tuple"], kw["bwd_format_tuple"] = ft, bt
                body = it.call(lookup_fn(it, qual), [], kw)
                # specification: OP applied to the forward-quantised tensor operands (other arguments
                # unchanged), the gradient flowing into OP's output quantised to bwd
                env = dict(args)
                for t in w["tensors"]:
                    env[t] = spec_quantise_fwd(it, fwd, args[t])
                from pyvc.harness import eval_expr

                env["U"] = it.get_module("unit_scaling.functional")
                ref = eval_expr(it, w["ref"], env)
                spec = spec_quantise_bwd(it, bwd, ref)
                return body, spec, [v for v in args.values() if isinstance(v, SymTensor)]

            return it, thunk

        def post(p: PathResult, i: int) -> Any:
            ctx = p.ctx
            if p.outcome != "return":
                ctx.oblige(f"{tag}:no_exception", False, exc=str(p.exc))
                return None
            body, spec, leaves = p.value
            compare_tensors(ctx, p.interp, f"{tag}:equals_op_on_fwd_quantised_operands_with_bwd_quantised_output_gradient(caller's formats)", body, spec, leaves, {})
            frame_obligations(ctx, f"{tag}:frame")
            return None

        return run_config(qual, {}, build, post)

    return run


for _n in WRAPPERS:
    register(Job(f"c15:wrapper[{_n}]", ["C15"], SF + _n, {}, _wrapper_job(_n)))


# ---------------------------------------------------------------- argument splice (every call shape)

TARGET_SIGS = {
    "F.linear": (["input", "weight", "bias"], ["bias"], "_quantised_linear"),
    "U.linear": (["input", "weight", "bias", "constraint", "scale_power"], ["constraint", "scale_power"], "_quantised_u_linear"),
    "F.scaled_dot_product_attention": (["query", "key", "value", "attn_mask", "dropout_p", "is_causal", "scale"], ["attn_mask", "dropout_p", "is_causal", "scale"], "_quantised_scaled_dot_product_attention"),
    "U.scaled_dot_product_attention": (["query", "key", "value", "attn_mask", "dropout_p", "is_causal", "mult"], ["attn_mask", "dropout_p", "is_causal", "mult"], "_quantised_u_scaled_dot_product_attention"),
}


def call_shapes(params: List[str], optional: List[str]) -> List[Tuple[List[str], List[str]]]:
    """(positional names, keyword names): positional is a prefix; the rest by keyword or (if optional) omitted"""
    out = []
    for k in range(len(params) + 1):
        rest = params[k:]
        choices = [(0, 1) if r in optional else (1,) for r in rest]
        for mask in itertools.product(*choices):
            out.append((params[:k], [r for r, m in zip(rest, mask) if m]))
    return out


def _target_obj(it: Any, key: str) -> Any:
    if key.startswith("F."):
        return it.getattr(it.get_module("torch.nn.functional"), key[2:])
    return it.getattr(it.get_module("unit_scaling.functional"), key[2:])


def _splice_job(key: str) -> Callable[[], Record]:
    def run() -> Record:
        qual = SF + "_replace_with_quantised"
        tag = f"C15:transforms._simulate_format._replace_with_quantised[{key}]"
        params, optional, wrapper_name = TARGET_SIGS[key]

        def build(ctx: Ctx) -> Any:
            it = mk_interp(ctx, verifying=[qual, TU + "replace_node_with_function", FM + "format_to_tuple", FM + "tuple_to_format"], extra_inline=[FM + "FPFormat.__post_init__"], hook=fxmodel.hook)
            fwd = mk_sym_format(it, ctx, "fwd", "nearest", False)
            bwd = mk_sym_format(it, ctx, "bwd", "stochastic", False)
            target = _target_obj(it, key)
            wrapper = lookup_fn(it, SF + wrapper_name)
            f2t = lookup_fn(it, FM + "format_to_tuple")
            rep = lookup_fn(it, qual)

            def thunk() -> Any:
                results = []
                ft, bt = it.call(f2t, [fwd], {}), it.call(f2t, [bwd], {})
                for pos, kws in call_shapes(params, optional):
                    g = FxGraph()
                    vals = {p_: g.add("placeholder", p_, name=p_) for p_ in params}
                    node = g.add("call_function", target, tuple(vals[p_] for p_ in pos), {k: vals[k] for k in kws}, name="call")
                    user = g.add("call_function", "consumer", (node,), {}, name="consumer")
                    g.add("output", "output", ((user,),), {}, name="output")
                    try:
                        it.call(rep, [g, node, fwd, bwd], {})
                        new = [n for n in g.nodes if n.op == "call_function" and n.target is wrapper]
                        if len(new) != 1:
                            results.append((pos, kws, "no-single-wrapper-node", None))
                            continue
                        nn_ = new[0]
                        try:
                            bound = it.bind(wrapper, list(nn_._args), dict(nn_._kwargs))
                        except PyRaise as e:
                            results.append((pos, kws, f"TypeError at call time: {e.msg}", None))
                            continue
                        flat = dict(bound)
                        extra = flat.pop("kwargs", {}) if "kwargs" in flat and isinstance(flat.get("kwargs"), dict) else {}
                        flat.update(extra)
                        ok = True
                        why = ""
                        for p_ in pos + kws:
                            if flat.get(p_, "<missing>") is not vals[p_]:
                                ok, why = False, f"parameter {p_} bound to {flat.get(p_, '<missing>')!r}"
                        for p_ in params[:3]:
                            if p_ not in pos + kws and p_ in optional and flat.get(p_, None) is not None:
                                ok, why = False, f"omitted {p_} bound to {flat.get(p_)!r}"
                        if not (flat.get("fwd_format_tuple") is ft or flat.get("fwd_format_tuple") == ft) or not (flat.get("bwd_format_tuple") is bt or flat.get("bwd_format_tuple") == bt):
                            ok, why = False, "format tuples not bound to the format parameters"
                        users_ok = user._args[0] is nn_ and node.erased and not any(n is node for n in g.nodes)
                        order_ok = [n.name for n in g.nodes if n.op != "placeholder"][0] == nn_.name
                        results.append((pos, kws, "ok" if ok and users_ok and order_ok else (why or "graph surgery wrong"), None))
                    except PyRaise as e:
                        results.append((pos, kws, f"{e.exc} during rewrite", None))
                return results

            return it, thunk

        def post(p: PathResult, i: int) -> Any:
            ctx = p.ctx
            if p.outcome != "return":
                ctx.oblige(f"{tag}:harness", False, exc=str(p.exc))
                return None
            results = p.value
            for pos, kws, verdict, _ in results:
                shape = f"positional={pos},keyword={kws}"
                ctx.oblige(f"{tag}:callshape[{shape}]", verdict == "ok", verdict=verdict, call_shape=shape)
            ctx.oblige(f"{tag}:call_shapes_enumerated", len(results) > 0, n=len(results))
            return None

        return run_config(qual, {"target": key}, build, post, max_paths=4)

    return run


for _k in TARGET_SIGS:
    register(Job(f"c15:splice[{_k}]", ["C15"], SF + "_replace_with_quantised", {"target": _k}, _splice_job(_k)))


# ---------------------------------------------------------------- backend loop, simulate_fp8


def _backend_job(kind: str) -> Callable[[], Record]:
    """kind: 'match:<target>' | 'other' -- one generic node between an arbitrary earlier and later part"""

    def run() -> Record:
        qual = SF + "_quantisation_backend"
        tag = "C15:transforms._simulate_format._quantisation_backend"

        def build(ctx: Ctx) -> Any:
            it = mk_interp(ctx, verifying=[qual, SF + "_replace_with_quantised", TU + "replace_node_with_function", FM + "format_to_tuple", FM + "tuple_to_format"], extra_inline=[FM + "FPFormat.__post_init__"], hook=fxmodel.hook)
            fwd = mk_sym_format(it, ctx, "fwd", "nearest", False)
            bwd = mk_sym_format(it, ctx, "bwd", "stochastic", False)
            g = FxGraph()
            x, w = g.add("placeholder", "x", name="x"), g.add("placeholder", "w", name="w")
            third = g.add("placeholder", "third", name="third")
            before = g.add("call_function", "earlier_op", (x,), {}, name="earlier")
            if kind == "other":
                target: Any = "some_other_function"
                node = g.add("call_function", target, (before, w), {}, name="call")
            elif kind == "method":
                target = _target_obj(it, "F.linear")
                node = g.add("call_method", target, (before, w), {}, name="call")
            else:
                target = _target_obj(it, kind.split(":", 1)[1])
                node = g.add("call_function", target, (before, w, third), {}, name="call")
            after = g.add("call_function", "later_op", (node,), {"k": node}, name="later")
            g.add("output", "output", ((after,),), {}, name="output")
            sig0 = g.signature()
            gm = fxmodel.GraphModuleModel(opaque(ctx, "root"), g)

            def thunk() -> Any:
                backend = it.call(lookup_fn(it, qual), [fwd, bwd], {})
                out = it.call(backend, [gm, []], {})
                return out, g, sig0, node, before, after, target

            return it, thunk

        def post(p: PathResult, i: int) -> Any:
            ctx = p.ctx
            if p.outcome != "return":
                ctx.oblige(f"{tag}:no_exception[{kind}]", False, exc=str(p.exc))
                return None
            out, g, sig0, node, before, after, target = p.value
            ctx.oblige(f"{tag}:returns_graph_module_over_the_same_graph[{kind}]", isinstance(out, fxmodel.GraphModuleModel) and out.graph is g)
            names = [n.name for n in g.nodes]
            if kind in ("other", "method"):
                ctx.oblige(f"{tag}:non_matching_node_and_everything_else_untouched[{kind}]", g.signature() == sig0, got=str(names))
                return None
            new = [n for n in g.nodes if n.op == "call_function" and isinstance(n.target, FuncVal) and n.target.qualname.startswith("_quantised")]
            ok = len(new) == 1
            ctx.oblige(f"{tag}:matching_node_replaced_by_its_wrapper[{kind}]", ok and node.erased, names=str(names))
            if ok:
                n = new[0]
                i_new = names.index(n.name)
                ctx.oblige(f"{tag}:replacement_sits_where_the_node_was(order_preserved)[{kind}]", names[i_new - 1] == before.name and names[i_new + 1] == after.name)
                ctx.oblige(f"{tag}:all_users_rewired_positional_and_keyword[{kind}]", after._args[0] is n and after._kwargs["k"] is n)
                others0 = [s for s in sig0 if s[0] not in ("call", "later")]
                others1 = [s for s in g.signature() if s[0] not in (n.name, "later")]
                ctx.oblige(f"{tag}:all_other_nodes_unchanged[{kind}]", others0 == others1)
            return None

        return run_config(qual, {"node": kind}, build, post)

    return run


for _k in ["other", "method"] + ["match:" + k for k in TARGET_SIGS]:
    register(Job(f"c15:backend[{_k}]", ["C15"], SF + "_quantisation_backend", {"node": _k}, _backend_job(_k)))


def _fp8_job() -> Record:
    tag = "C15:transforms._simulate_format.simulate_fp8"

    def build(ctx: Ctx) -> Any:
        rec: List[Any] = []

        def s_apply_transform(interp: Any, b: Dict[str, Any]) -> Any:
            rec.append(("apply_transform", b))
            return ("transformed", b["module"])

        def s_backend(interp: Any, b: Dict[str, Any]) -> Any:
            rec.append(("backend", b))
            return ("backend", b["fwd_format"], b["bwd_format"])

        it = mk_interp(ctx, verifying=[SF + "simulate_fp8", SF + "simulate_format"], extra_inline=[FM + "FPFormat.__post_init__"], extra_contracts={TU + "apply_transform": s_apply_transform, SF + "_quantisation_backend": s_backend}, hook=fxmodel.hook)
        mod = opaque(ctx, "module")
        return it, lambda: (it.call(lookup_fn(it, SF + "simulate_fp8"), [mod], {}), rec, mod)

    def post(p: PathResult, i: int) -> Any:
        ctx = p.ctx
        if p.outcome != "return":
            ctx.oblige(f"{tag}:no_exception", False, exc=str(p.exc))
            return None
        out, rec, mod = p.value
        be = [r for r in rec if r[0] == "backend"]
        at = [r for r in rec if r[0] == "apply_transform"]
        ok = len(be) == 1 and len(at) == 1
        ctx.oblige(f"{tag}:one_quantisation_backend_applied_once", ok)
        if ok:
            f, b = be[0][1]["fwd_format"], be[0][1]["bwd_format"]
            ctx.oblige(f"{tag}:forward_format_is_E4M3", fmt_fields(f)[:2] == [4, 3], got=str(fmt_fields(f)))
            ctx.oblige(f"{tag}:backward_format_is_E5M2", fmt_fields(b)[:2] == [5, 2], got=str(fmt_fields(b)))
            ctx.oblige(f"{tag}:transform_applied_to_the_callers_module_with_that_backend", at[0][1]["module"] is mod and at[0][1]["backend"] == ("backend", f, b))
        return None

    return run_config(SF + "simulate_fp8", {}, build, post)


register(Job("c15:simulate_fp8", ["C15"], SF + "simulate_fp8", {}, _fp8_job))
