"""C16: unit_scale() equals the User-Guide recipe.

Contracts on the graph passes of unit_scaling/transforms/_unit_scale.py (the real source is
executed symbolically over the assumed torch.fx contracts of pyvc/fxmodel.py):

  per-node contracts (arbitrary graph around the node: the earlier / later parts are opaque)
    _is_add(n)            <=> n is a call_function of a C builtin named add / iadd
    _unconstrain_node(n)  the call stays well-formed, `constraint` is bound to None exactly
                          when the target has such a parameter, nothing else changes
    _is_self_attention    <=> the residual branch contains softmax / attention
    _unit_scale_residual  the local rewrite  skip -> split -> (branch, skip') -> residual_add
    backend loop bodies   one generic node between an opaque earlier and later part, for
                          every class of target the code distinguishes (R1 / R3 / R4 / R5)
    dependency metadata   meta['dependencies'] == ancestors, and still valid for the graph
                          the residual analysis reads it on (no node replaced in between)
  composition (BOUNDED: every graph of a stated family up to a stated size)
    unit_scaling_backend()(gm) == recipe(gm)   (contracts/refs_c16.py, canonical form)

How TorchDynamo turns a module into the fx graph, how fx executes a graph, and the name-based
torch_map are outside the VC generator: assumed, the last one validated on every run.
"""
from __future__ import annotations

import ast
import itertools
from typing import Any, Callable, Dict, List, Optional, Sequence, Tuple

from pyvc import fxmodel
from pyvc.fxmodel import FxGraph, FxNode, map_arg, nodes_in
from pyvc.harness import Record, lookup_fn, run_config
from pyvc.interp import Builtin, FuncVal, PathResult, TypeTok
from pyvc.sym import Ctx, OutOfReach, PyRaise

from . import refs_c16 as R
from .common import mk_interp, opaque
from .registry import Job, register

US = "unit_scaling.transforms._unit_scale."
TU = "unit_scaling.transforms.utils."
UF = "unit_scaling.functional."
VERIFYING = [US + n for n in ("unit_scaling_backend", "_add_dependency_meta", "_is_add", "_is_self_attention", "_unit_scale_residual", "_unconstrain_node", "_supported_kwargs")] + [TU + "replace_node_with_function"]

# parameters of the Python-level torch functions of the vocabulary (ASSUMED; none has a
# `constraint` parameter; validated by replay_c16.py torch_map)
USER_SRC = {
    "user.fn": "def user_fn(x, constraint='to_output_scale'):\n    return x\n",
    "user.scaled": "def user_scaled(x, constraint='to_output_scale'):\n    return x\n",
    "user.gelu": "def user_gelu(input, mult=1.0, constraint='to_output_scale', approximate='none'):\n    return input\n",
    "user.positional": "def user_positional(x, constraint, mult=1.0):\n    return x\n",
    "user.plain": "def user_plain(x, y=None):\n    return x\n",
    "user.private": "def user_private(x, _cache=None, constraint=None):\n    return x\n",
}


class ExtFn:
    """an external function the repo code only inspects (never calls)"""

    def __init__(self, key: str, c_builtin: bool, params: Optional[List[str]] = None):
        self.key, self.c_builtin, self.params = key, c_builtin, params

    def pyvc_types(self) -> Any:
        return {"BuiltinFunctionType", "Callable"} if self.c_builtin else {"function", "FunctionType", "Callable"}

    def pyvc_getattr(self, interp: Any, name: str) -> Any:
        if name in ("__name__", "__qualname__"):
            return self.key.rsplit(".", 1)[-1]
        raise PyRaise("AttributeError", name)

    def pyvc_call(self, interp: Any, args: List[Any], kwargs: Dict[str, Any]) -> Any:
        raise OutOfReach(f"call of external function {self.key}")

    def pyvc_equals(self, interp: Any, a: Any, b: Any) -> Any:
        return a is b

    def __repr__(self) -> str:
        return f"<{self.key}>"


class SigModel:
    """ASSUMED inspect.signature(f).parameters: an ordered mapping keyed by parameter name"""

    def __init__(self, params: List[str]):
        self.params = params

    def pyvc_getattr(self, interp: Any, name: str) -> Any:
        if name == "parameters":
            return {p: ("param", p) for p in self.params}
        raise PyRaise("AttributeError", name)


def params_of(f: Any) -> Optional[List[str]]:
    if isinstance(f, FuncVal):
        a = f.node.args
        return [x.arg for x in a.posonlyargs + a.args + a.kwonlyargs]
    if isinstance(f, ExtFn) and not f.c_builtin:
        return list(f.params or [])
    if isinstance(f, Builtin) and not getattr(f, "c_builtin", False):
        return list(R.PY_PARAMS.get(f.name, ["input"]))
    return None


def m_signature(it: Any, a: List[Any], k: Dict[str, Any]) -> Any:
    p = params_of(a[0])
    if p is None:
        raise PyRaise("ValueError", f"no signature found for builtin {a[0]!r}")
    return SigModel(p)


def _op_builtin(name: str) -> Builtin:
    def call(it: Any, a: List[Any], k: Dict[str, Any]) -> Any:
        raise OutOfReach(f"call of operator.{name}")

    b = Builtin(f"operator.{name}", call)
    b.c_builtin = True  # type: ignore[attr-defined]
    return b


def s_torch_map(interp: Any, b: Dict[str, Any]) -> Any:
    """CONTRACT of functional._gen_torch_function_map (module-level, name-based; executed by
    CPython at import over dir(torch) / dir(F)): assumed equal to refs_c16.TORCH_MAP --
    checked against the real object by the `torch_map` component on every run"""
    return {target(interp, k): target(interp, v) for k, v in R.TORCH_MAP.items()}


def _hook(interp: Any, name: str) -> Any:
    r = fxmodel.hook(interp, name)
    if name == "types":
        return {"BuiltinFunctionType": TypeTok("BuiltinFunctionType")}
    if name == "operator":
        cache = interp.__dict__.setdefault("c16_operator", {n: _op_builtin(n) for n in ("add", "iadd", "mul", "getitem", "sub")})
        return dict(cache)
    if name == "inspect":
        return {"signature": Builtin("inspect.signature", m_signature)}
    return r


def mk(ctx: Ctx) -> Any:
    it = mk_interp(ctx, verifying=VERIFYING, extra_contracts={UF + "_gen_torch_function_map": s_torch_map}, hook=_hook)
    return it


def target(it: Any, key: str) -> Any:
    cache = it.__dict__.setdefault("c16_targets", {})
    if key in cache:
        return cache[key]
    mod, name = key.split(".", 1)
    v: Any
    if mod == "user":
        fdef = ast.parse(USER_SRC[key]).body[0]
        m = it.get_module("unit_scaling.transforms.utils")
        v = FuncVal(fdef, m.env, m, fdef.name)  # type: ignore[attr-defined]
    elif mod == "U":
        v = it.getattr(it.get_module("unit_scaling.functional"), name)
    elif mod == "operator":
        v = it.getattr(it.get_module("operator"), name)
    else:
        m = it.get_module("torch.nn.functional" if mod == "F" else "torch")
        if name in m.env.vars and isinstance(m.env.vars[name], Builtin):
            v = m.env.vars[name]
            if key in R.C_BUILTINS:
                v.c_builtin = True  # type: ignore[attr-defined]
        else:
            v = ExtFn(key, key in R.C_BUILTINS, R.PY_PARAMS.get(key))
    cache[key] = v
    it.__dict__.setdefault("c16_keys", {})[id(v)] = key
    return v


def key_of(it: Any, obj: Any) -> str:
    if isinstance(obj, str):
        return obj
    k = it.__dict__.get("c16_keys", {}).get(id(obj))
    if k is not None:
        return k
    if isinstance(obj, FuncVal):
        if obj.module.name == "unit_scaling.functional":
            return "U." + obj.name
        return "?" + obj.qualname
    if isinstance(obj, Builtin):
        return obj.name
    return f"?{obj!r}"


def sigs_for(it: Any) -> Callable[[str], Optional[List[str]]]:
    def sigs(key: str) -> Optional[List[str]]:
        if key.startswith("U.") or key.startswith("user."):
            return params_of(target(it, key))
        return None

    return sigs


def to_model(it: Any, desc: List[R.Node]) -> Tuple[FxGraph, Dict[str, FxNode]]:
    g = FxGraph()
    by: Dict[str, FxNode] = {}
    conv = lambda a: R.deep_map(a, lambda n: by[n])
    for n in desc:
        if n["op"] == "call_function":
            by[n["name"]] = g.add("call_function", target(it, n["target"]), tuple(conv(tuple(n["args"]))), dict(conv(n["kwargs"])), name=n["name"])
        else:
            by[n["name"]] = g.add(n["op"], n["target"], tuple(conv(tuple(n["args"]))), dict(conv(n["kwargs"])), name=n["name"])
    return g, by


def from_model(it: Any, g: FxGraph) -> List[R.Node]:
    conv = lambda a: map_arg(a, lambda n: ("ref", n.name))
    return [R.node(n.name, n.op, key_of(it, n.target), list(conv(n._args)), dict(conv(n._kwargs))) for n in g.nodes]


def run_backend(it: Any, g: FxGraph, replace: Dict[str, str]) -> Any:
    gm = fxmodel.GraphModuleModel(opaque(it.ctx, "root"), g)
    rep = {target(it, k): target(it, v) for k, v in replace.items()}
    backend = it.call(lookup_fn(it, US + "unit_scaling_backend"), [rep] if replace else [], {})
    return it.call(backend, [gm, []], {})


def check_graph(it: Any, desc: List[R.Node], replace: Dict[str, str]) -> Tuple[str, str]:
    """the same decision procedure as replay/replay_c16.py run_one, on the model graph the
    symbolic executor produces from the real source"""
    sigs = sigs_for(it)
    has_constraint = lambda key: "constraint" in (sigs(key) or [])
    if not R.well_nested(desc):
        return "outside-precondition", ""
    want = R.canon(R.spec_rewrite(desc, replace, has_constraint, sigs), sigs)
    g, _ = to_model(it, desc)
    tmap = it.getattr(it.get_module("unit_scaling.functional"), "torch_map")
    tmap0 = list(tmap.items()) if isinstance(tmap, dict) else None
    try:
        out = run_backend(it, g, replace)
    except PyRaise as e:
        return "raises", f"{e.exc}: {e.msg}" if hasattr(e, "exc") else str(e)
    # frame: the module-level map of built-in replacements is read, never written (a user's `replace`
    # must not leak into later calls)
    tmap1 = it.getattr(it.get_module("unit_scaling.functional"), "torch_map")
    if tmap0 is not None and (tmap1 is not tmap or len(tmap1) != len(tmap0) or any(k1 is not k0 or v1 is not v0 for (k0, v0), (k1, v1) in zip(tmap0, tmap1.items()))):
        return "deviates", "frame: unit_scaling.functional.torch_map was modified by the backend (entries of the user's replace map written into the built-in map)"
    got_desc = from_model(it, out.graph)
    bad = R.lint(got_desc)
    if bad:
        return "deviates", "ill-formed graph: " + bad
    try:
        got = R.canon(got_desc, sigs)
    except R.IllFormed as e:
        return "deviates", f"ill-formed call (TypeError when the module runs): {e}"
    if got != want:
        return "deviates", f"got {got} want {want}"
    return "ok", ""


# ----------------------------------------------------------------------------------
# bounded composition


families = R.families


def _composition_job(tier: str, chunk: int, nchunks: int) -> Callable[[], Record]:
    def run() -> Record:
        tag = "C16:transforms._unit_scale.unit_scaling_backend"
        fam = families(tier)[chunk::nchunks]

        def build(ctx: Ctx) -> Any:
            it = mk(ctx)

            def thunk() -> Any:
                return [(label, desc, rep) + check_graph(it, desc, rep) for label, desc, rep in fam]

            return it, thunk

        def post(p: PathResult, i: int) -> Any:
            ctx = p.ctx
            if p.outcome != "return":
                ctx.oblige(f"{tag}:no_exception", False, exc=str(p.exc))
                return None
            n_ok = n_bad = 0
            for label, desc, rep, verdict, detail in p.value:
                if verdict == "outside-precondition":
                    continue
                if verdict == "ok":
                    n_ok += 1
                    continue
                n_bad += 1
                if n_bad <= 2:  # the first deviating graphs are reported (and replayed) individually
                    ctx.oblige(f"{tag}:{'runs_without_error' if verdict == 'raises' else 'equals_the_recipe'}[{label}]", False, detail=detail[:1500], graph=_json(desc), replace=rep)
            ctx.oblige(f"{tag}:equals_the_recipe_on_every_graph_of_the_family[{tier},chunk {chunk}/{nchunks}:{n_ok} graphs]", n_ok > 0 and all(v[3] in ("ok", "outside-precondition") for v in p.value))
            return None

        return run_config(US + "unit_scaling_backend", {"bounded": tier, "chunk": chunk, "graphs": len(fam)}, build, post)

    return run


def _json(desc: List[R.Node]) -> Any:
    return [{**n, "args": R.deep_map(n["args"], lambda x: ["ref", x]), "kwargs": R.deep_map(n["kwargs"], lambda x: ["ref", x])} for n in desc]


for _c in range(16):
    register(Job(f"c16:composition[quick,{_c}]", ["C16"], US + "unit_scaling_backend", {"bounded": "quick", "chunk": _c}, _composition_job("quick", _c, 16)))
for _c in range(64):
    register(Job(f"c16:composition[thorough,{_c}]", ["C16"], US + "unit_scaling_backend", {"bounded": "thorough", "chunk": _c}, _composition_job("thorough", _c, 64), tier="thorough"))


# ----------------------------------------------------------------------------------
# per-function contracts


NODE_TARGETS = ["operator.add", "operator.iadd", "torch.add", "operator.mul", "torch.tanh", "U.add", "U.gelu", "F.softmax", "user.plain", "str:add", "str:iadd"]
NODE_OPS = ["call_function", "call_method", "call_module", "get_attr", "placeholder", "output"]


def _mk_node(it: Any, g: FxGraph, op: str, tkey: str, args: Tuple[Any, ...], kwargs: Dict[str, Any], name: str = "n") -> FxNode:
    t = tkey[4:] if tkey.startswith("str:") else target(it, tkey)
    return g.add(op, t, args, kwargs, name=name)


def _is_add_job() -> Record:
    tag = "C16:transforms._unit_scale._is_add"

    def build(ctx: Ctx) -> Any:
        it = mk(ctx)
        fn = lookup_fn(it, US + "_is_add")

        def thunk() -> Any:
            out = []
            for op, tk in itertools.product(NODE_OPS, NODE_TARGETS):
                g = FxGraph()
                x = g.add("placeholder", "x", name="x")
                n = _mk_node(it, g, op, tk, (x, x), {})
                sig0 = g.signature()
                out.append((op, tk, it.call(fn, [n], {}), g.signature() == sig0))
            return out

        return it, thunk

    def post(p: PathResult, i: int) -> Any:
        ctx = p.ctx
        if p.outcome != "return":
            ctx.oblige(f"{tag}:no_exception", False, exc=str(p.exc))
            return None
        for op, tk, got, pure in p.value:
            want = op == "call_function" and tk in R.ADD_KEYS
            ctx.oblige(f"{tag}:iff_call_function_of_a_builtin_named_add_or_iadd[{op},{tk}]", got is want, got=str(got))
            ctx.oblige(f"{tag}:pure[{op},{tk}]", pure)
        return None

    return run_config(US + "_is_add", {}, build, post)


register(Job("c16:_is_add", ["C16"], US + "_is_add", {}, _is_add_job))


# (target, positional args after the tensor, kwargs): every way `constraint` can be passed
UNCONSTRAIN_CALLS: List[Tuple[str, Tuple[Any, ...], Dict[str, Any]]] = [
    ("U.gelu", (), {}),
    ("U.gelu", (2.0,), {}),
    ("U.gelu", (2.0, "to_output_scale"), {}),
    ("U.gelu", (2.0, "to_output_scale", "tanh"), {}),
    ("U.gelu", (), {"constraint": "to_grad_input_scale"}),
    ("U.gelu", (), {"mult": 2.0, "approximate": "tanh"}),
    ("U.add", ("other",), {}),
    ("U.add", ("other", None), {}),
    ("U.add", ("other", "to_output_scale"), {"alpha": 2}),
    ("U.add", ("other",), {"constraint": None}),
    ("U.linear", ("other", None), {}),
    ("U.linear", ("other", None, "to_output_scale"), {}),
    ("U.linear", ("other",), {"bias": None, "constraint": "gmean"}),
    ("U.layer_norm", ((8,),), {}),
    ("U.residual_add", ("other", 0.5), {}),
    ("user.positional", ("to_output_scale",), {}),
    ("user.positional", (), {"constraint": "to_output_scale"}),
    ("user.scaled", (), {}),
    ("user.plain", (), {}),
    ("F.softmax", (-1,), {}),
    ("F.gelu", (), {}),
    ("operator.add", ("other",), {}),
    ("torch.tanh", (), {}),
    ("str:add", ("other",), {}),
]


def _unconstrain_job() -> Record:
    tag = "C16:transforms._unit_scale._unconstrain_node"

    def build(ctx: Ctx) -> Any:
        it = mk(ctx)
        fn = lookup_fn(it, US + "_unconstrain_node")

        def thunk() -> Any:
            out = []
            for (tk, extra, kw), op in itertools.product(UNCONSTRAIN_CALLS, ["call_function", "call_method", "call_module"]):
                g = FxGraph()
                x = g.add("placeholder", "x", name="x")
                y = g.add("placeholder", "y", name="y")
                before = g.add("call_function", target(it, "user.plain"), (x,), {}, name="before")
                args = (before,) + tuple(y if a == "other" else a for a in extra)
                n = _mk_node(it, g, op, tk, args, dict(kw))
                after = g.add("call_function", target(it, "user.plain"), (n,), {"y": n}, name="after")
                g.add("output", "output", ((after,),), {}, name="output")
                sig0 = g.signature()
                a0, k0 = n._args, dict(n._kwargs)
                try:
                    it.call(fn, [n], {})
                    exc = None
                except PyRaise as e:
                    exc = str(e)
                out.append((tk, extra, kw, op, n, a0, k0, sig0, g, exc))
            return out

        return it, thunk

    def post(p: PathResult, i: int) -> Any:
        ctx = p.ctx
        it = p.interp
        if p.outcome != "return":
            ctx.oblige(f"{tag}:no_exception", False, exc=str(p.exc))
            return None
        for tk, extra, kw, op, n, a0, k0, sig0, g, exc in p.value:
            cfg = f"[{op},{tk},args={extra},kwargs={kw}]"
            desc = _json(from_model(it, g))
            if exc is not None:
                ctx.oblige(f"{tag}:never_raises{cfg}", False, exc=exc, graph=desc)
                continue
            params = None if tk.startswith("str:") else params_of(target(it, tk))
            applies = op == "call_function" and params is not None and "constraint" in params
            others0 = [s for s in sig0 if s[0] != n.name]
            others1 = [s for s in g.signature() if s[0] != n.name]
            ctx.oblige(f"{tag}:frame_no_other_node_changed{cfg}", others0 == others1 and n.op == op)
            if not applies:
                ctx.oblige(f"{tag}:node_without_a_constraint_parameter_untouched{cfg}", n._args == a0 and n._kwargs == k0, graph=desc)
                continue
            try:
                b0 = R.bind(tk, params, list(a0), k0)
                b1 = R.bind(tk, params, list(n._args), dict(n._kwargs))
            except R.IllFormed as e:
                ctx.oblige(f"{tag}:call_stays_well_formed{cfg}", False, exc=str(e), graph=desc)
                continue
            ctx.oblige(f"{tag}:call_stays_well_formed{cfg}", True)
            ctx.oblige(f"{tag}:constraint_bound_to_None{cfg}", "constraint" in b1 and b1["constraint"] is None, got=str(b1.get("constraint", "<unbound>")), graph=desc)
            same = all(_same(b1.get(k), v) for k, v in b0.items() if k != "constraint") and set(b1) - {"constraint"} == set(b0) - {"constraint"}
            ctx.oblige(f"{tag}:every_other_argument_unchanged{cfg}", same, graph=desc)
        return None

    return run_config(US + "_unconstrain_node", {}, build, post)


def _same(a: Any, b: Any) -> bool:
    if isinstance(a, FxNode) or isinstance(b, FxNode):
        return a is b
    if isinstance(a, (tuple, list)) and isinstance(b, (tuple, list)):
        return len(a) == len(b) and all(_same(x, y) for x, y in zip(a, b))
    return type(a) is type(b) and a == b


register(Job("c16:_unconstrain_node", ["C16"], US + "_unconstrain_node", {}, _unconstrain_job))


def _dag_shapes(n: int) -> List[List[Tuple[int, ...]]]:
    """all DAGs over n nodes in topological order: node i reads a subset of nodes < i"""
    out: List[List[Tuple[int, ...]]] = [[]]
    for i in range(n):
        subsets = [c for r in range(0, min(i, 3) + 1) for c in itertools.combinations(range(i), r)]
        out = [g + [s] for g in out for s in subsets]
    return out


def _deps_job(n: int) -> Callable[[], Record]:
    def run() -> Record:
        tag = "C16:transforms._unit_scale._add_dependency_meta"

        def build(ctx: Ctx) -> Any:
            it = mk(ctx)
            fn = lookup_fn(it, US + "_add_dependency_meta")

            def thunk() -> Any:
                bad: List[Any] = []
                count = 0
                for shape in _dag_shapes(n):
                    for mode in ("fresh", "recalculate_stale", "memo_valid"):
                        g = FxGraph()
                        nodes: List[FxNode] = []
                        for i, ins in enumerate(shape):
                            # arguments nested in tuples / kwargs as fx allows
                            args: Tuple[Any, ...] = tuple(nodes[j] for j in ins[:1]) + ((tuple(nodes[j] for j in ins[1:2]),) if len(ins) > 1 else ())
                            kwargs = {"k": [nodes[j] for j in ins[2:]]} if len(ins) > 2 else {}
                            nodes.append(g.add("placeholder" if not ins else "call_function", f"t{i}", args, kwargs, name=f"n{i}"))
                        unread = [m for m in nodes if not m.users_list()]
                        out = g.add("output", "output", (tuple(unread),), {}, name="output")
                        anc: Dict[int, List[FxNode]] = {}
                        for m in list(nodes) + [out]:
                            s: List[FxNode] = []
                            for q in m.input_nodes():
                                for z in [q] + anc[id(q)]:
                                    if not any(z is w for w in s):
                                        s.append(z)
                            anc[id(m)] = s
                        if mode == "recalculate_stale":
                            for m in nodes:
                                m.meta["dependencies"] = {nodes[0]} if m is not nodes[0] else {nodes[-1]}
                        if mode == "memo_valid":
                            for m in nodes[: len(nodes) // 2]:
                                m.meta["dependencies"] = set(anc[id(m)])
                        sig0 = g.signature()
                        it.call(fn, [g] + ([True] if mode == "recalculate_stale" else []), {})
                        count += 1
                        for m in list(nodes) + [out]:
                            d = m.meta.get("dependencies")
                            ok = isinstance(d, set) and len(d) == len(anc[id(m)]) and all(any(z is w for w in d) for z in anc[id(m)])
                            if not ok:
                                bad.append((shape, mode, m.name, str(d), str(anc[id(m)])))
                        if g.signature() != sig0:
                            bad.append((shape, mode, "graph structure changed", "", ""))
                return count, bad

            return it, thunk

        def post(p: PathResult, i: int) -> Any:
            ctx = p.ctx
            if p.outcome != "return":
                ctx.oblige(f"{tag}:no_exception", False, exc=str(p.exc))
                return None
            count, bad = p.value
            for shape, mode, name, d, a in bad[:5]:
                ctx.oblige(f"{tag}:dependencies==ancestors[dag={shape},{mode},node={name}]", False, got=d, want=a)
            ctx.oblige(f"{tag}:dependencies==ancestors_for_every_node_of_every_dag[<= {n} nodes, {count} graphs x modes]", count > 0 and not bad)
            return None

        return run_config(US + "_add_dependency_meta", {"bounded_nodes": n}, build, post)

    return run


register(Job("c16:_add_dependency_meta[<=4]", ["C16"], US + "_add_dependency_meta", {"bounded_nodes": 4}, _deps_job(4)))
register(Job("c16:_add_dependency_meta[<=5]", ["C16"], US + "_add_dependency_meta", {"bounded_nodes": 5}, _deps_job(5), tier="thorough"))


def _recurse_inductive_job() -> Record:
    """UNBOUNDED: the memoised recursion of _add_dependency_meta against its contract, for every
    well-founded DAG, every memo state satisfying the invariant and every number of inputs
    (pyvc/setvc.py: heap model of Python sets, recursion contract, inductive loop invariant)."""
    import time as _time

    from pyvc import setvc
    from pyvc.harness import CURRENT_JOB
    from pyvc.interp import Repo

    tag = "C16:transforms._unit_scale._add_dependency_meta.recurse"
    rec = Record(US + "_add_dependency_meta", {"inductive": "all DAGs"})
    rec.job_key = CURRENT_JOB[0]  # type: ignore[attr-defined]
    t0 = _time.time()
    try:
        _, tree = Repo().load("unit_scaling.transforms._unit_scale")
        vc, ex = setvc.generate(tree)
        pre = vc.obs[0][1] if vc.obs else []
        rec.cover = "sat" if setvc.vacuity(vc, [h for _, hs, _ in vc.obs for h in hs][:0] + list(pre)) == "sat" else "no-satisfiable-path"
        # the hypotheses of every path (contract of the callee + invariant) must be satisfiable too
        for name, hyps, _ in vc.obs:
            if name.startswith("path"):
                v = setvc.vacuity(vc, hyps)
                if v == "unsat":
                    rec.cover = "no-satisfiable-path"
        res = setvc.discharge(vc)
        rec.paths = len([1 for n_, _, _ in vc.obs if n_.endswith(":frame")])
        for r in res:
            rec.obligations.append({"name": f"{tag}:{r['name']}", "path": 0, "status": r["status"], "solver": r["solver"], "time_s": r["time_s"], "info": {"backend": "setvc (inductive, unbounded)"}, **({"model": {"z3": r["model"]}} if r["status"] == "violated" else {})})
        if ex.ncalls == 0:
            rec.obligations.append({"name": f"{tag}:recursion_present", "path": 0, "status": "undecided", "solver": "-", "time_s": 0.0, "info": {"note": "no recursive call found: contract not exercised"}})
        rec.notes.append(f"recursive calls under contract: {ex.ncalls}; loops under invariant: {ex.nloops}")
    except setvc.Unsupported as e:
        rec.obligations.append({"name": f"{tag}:body_within_the_verified_subset", "path": 0, "status": "undecided", "solver": "-", "time_s": 0.0, "info": {"reason": str(e), "note": "the bounded job c16:_add_dependency_meta[<=4] still decides the function on small DAGs"}})
        rec.cover = "sat"
    except Exception as e:  # machinery error
        import traceback as _tb

        rec.error, rec.error_kind = f"{type(e).__name__}: {e}\n{_tb.format_exc()}", "crash"
    rec.wall_s = round(_time.time() - t0, 3)
    return rec


register(Job("c16:_add_dependency_meta.recurse[inductive]", ["C16"], US + "_add_dependency_meta", {"inductive": "all DAGs"}, _recurse_inductive_job))


def _branch_graphs() -> List[Tuple[str, List[R.Node], str, str]]:
    """(label, graph, skip, residual): residual branches of 0-3 ops, the softmax-class op at
    every position / absent / only upstream of the skip / only on a side input"""
    out: List[Tuple[str, List[R.Node], str, str]] = []
    sa = ["F.softmax", "U.softmax", "F.scaled_dot_product_attention", "U.scaled_dot_product_attention"]
    plain = ["user.plain", "U.gelu", "torch.softmax", "F.relu"]
    for depth in range(0, 4):
        for pos in list(range(depth)) + [None]:
            for sa_t in (sa if pos is not None else [None]):
                for upstream, side in itertools.product([False, True], [None, "plain", "softmax"]):
                    g = [R.node("x", "placeholder", "x"), R.node("w", "placeholder", "w")]
                    pre = "x"
                    if upstream:
                        g.append(R.node("up", "call_function", "F.softmax", [R.ref("x")], {"dim": -1}))
                        pre = "up"
                    g.append(R.node("skip", "call_function", "user.plain", [R.ref(pre)]))
                    cur = "skip"
                    if side is not None:
                        g.append(R.node("side", "call_function", "F.softmax" if side == "softmax" else "user.plain", [R.ref("w")]))
                    for d in range(depth):
                        t = sa_t if d == pos else plain[d % len(plain)]
                        extra = [R.ref("side")] if (side is not None and d == 0) else []
                        g.append(R.node(f"b{d}", "call_function", t, [R.ref(cur)] + extra, {"k": [R.ref("skip")]} if d == depth - 1 and depth > 1 else {}))
                        cur = f"b{d}"
                    if depth == 0:
                        continue
                    g.append(R.node("output", "output", "output", [(R.ref(cur),)]))
                    out.append((f"depth={depth},softmax_at={pos},{sa_t},upstream={upstream},side={side}", g, "skip", cur))
    return out


def _self_attention_job() -> Record:
    tag = "C16:transforms._unit_scale._is_self_attention"

    def build(ctx: Ctx) -> Any:
        it = mk(ctx)
        fn = lookup_fn(it, US + "_is_self_attention")

        def thunk() -> Any:
            out = []
            for label, desc, skip, res in _branch_graphs():
                g, by = to_model(it, desc)
                sig0 = g.signature()
                got = it.call(fn, [by[skip], by[res]], {})
                branch: List[str] = []
                todo = [res]
                byd = {n["name"]: n for n in desc}
                while todo:
                    q = todo.pop()
                    if q == skip or q in branch:
                        continue
                    branch.append(q)
                    todo += R.inputs_of(byd[q])
                want = any(byd[q]["target"] in R.SELF_ATTENTION for q in branch)
                out.append((label, got, want, g.signature() == sig0, desc))
            return out

        return it, thunk

    def post(p: PathResult, i: int) -> Any:
        ctx = p.ctx
        if p.outcome != "return":
            ctx.oblige(f"{tag}:no_exception", False, exc=str(p.exc))
            return None
        n = 0
        for label, got, want, pure, desc in p.value:
            n += 1
            if got is not want or not pure:
                ctx.oblige(f"{tag}:iff_the_residual_branch_contains_softmax_or_attention[{label}]", False, got=str(got), want=str(want), graph=_json(desc))
        ctx.oblige(f"{tag}:iff_the_residual_branch_contains_softmax_or_attention[all {n} branch shapes up to depth 3]", n > 0 and all(g is w and pu for _, g, w, pu, _ in p.value))
        return None

    return run_config(US + "_is_self_attention", {"bounded_depth": 3}, build, post)


register(Job("c16:_is_self_attention", ["C16"], US + "_is_self_attention", {"bounded_depth": 3}, _self_attention_job))


GENERIC_NODES = R.GENERIC_NODES
generic_graph = R.generic_graph


def _generic_node_job(kind: str) -> Callable[[], Record]:
    def run() -> Record:
        tag = "C16:transforms._unit_scale.unit_scaling_backend"

        def build(ctx: Ctx) -> Any:
            it = mk(ctx)

            def thunk() -> Any:
                out = []
                for later_residual, skip_source in itertools.product([False, True], ["opaque", "plain_sum", "residual_output"]):
                    desc, rep = generic_graph(kind, later_residual, skip_source)
                    out.append((later_residual, skip_source, desc, rep) + check_graph(it, desc, rep))
                return out

            return it, thunk

        def post(p: PathResult, i: int) -> Any:
            ctx = p.ctx
            if p.outcome != "return":
                ctx.oblige(f"{tag}:no_exception[{kind}]", False, exc=str(p.exc))
                return None
            for later_residual, skip_source, desc, rep, verdict, detail in p.value:
                cfg = f"[node={kind},later_residual_add={later_residual},earlier_part_ends_in={skip_source}]"
                ctx.oblige(f"{tag}:precondition_reachable{cfg}", verdict != "outside-precondition")
                ctx.oblige(f"{tag}:runs_without_error{cfg}", verdict != "raises", detail=detail[:1500], graph=_json(desc), replace=rep)
                ctx.oblige(f"{tag}:node_rewritten_as_the_recipe_prescribes_everything_else_untouched{cfg}", verdict != "deviates", detail=detail[:1500], graph=_json(desc), replace=rep)
            return None

        return run_config(US + "unit_scaling_backend", {"generic_node": kind}, build, post)

    return run


for _k in GENERIC_NODES:
    register(Job(f"c16:node[{_k}]", ["C16"], US + "unit_scaling_backend", {"generic_node": _k}, _generic_node_job(_k)))


def _supported_kwargs_job() -> Record:
    """_supported_kwargs(node, f) == the node's keyword arguments minus the private ones (leading
    underscore) that f has no parameter for; pure"""
    tag = "C16:transforms._unit_scale._supported_kwargs"
    cases = [
        ("U.softmax", {"dim": -1, "_stacklevel": 5, "dtype": None}),
        ("U.softmax", {"dim": -1}),
        ("U.softmax", {"dim": -1, "an_option_the_library_does_not_implement": 1}),  # kept: rejected when the module runs, not silently ignored
        ("U.gelu", {"approximate": "tanh", "_internal": 1}),
        ("user.private", {"_cache": 3, "_other": 4, "constraint": None}),
        ("U.linear", {}),
    ]

    def build(ctx: Ctx) -> Any:
        it = mk(ctx)
        fn = lookup_fn(it, US + "_supported_kwargs")

        def thunk() -> Any:
            out = []
            for tk, kw in cases:
                g = FxGraph()
                x = g.add("placeholder", "x", name="x")
                n = g.add("call_function", target(it, "F.softmax"), (x,), dict(kw), name="n")
                sig0 = g.signature()
                got = it.call(fn, [n, target(it, tk)], {})
                out.append((tk, kw, got, g.signature() == sig0 and n._kwargs == kw))
            return out

        return it, thunk

    def post(p: PathResult, i: int) -> Any:
        ctx = p.ctx
        if p.outcome != "return":
            ctx.oblige(f"{tag}:no_exception", False, exc=str(p.exc))
            return None
        for tk, kw, got, pure in p.value:
            params = params_of(target(p.interp, tk)) or []
            want = {k: v for k, v in kw.items() if not k.startswith("_") or k in params}
            ctx.oblige(f"{tag}:keeps_every_argument_except_private_ones_the_function_lacks[{tk},{sorted(kw)}]", isinstance(got, dict) and got == want, got=str(got), want=str(want))
            ctx.oblige(f"{tag}:pure[{tk},{sorted(kw)}]", pure)
        return None

    return run_config(US + "_supported_kwargs", {}, build, post)


register(Job("c16:_supported_kwargs", ["C16"], US + "_supported_kwargs", {}, _supported_kwargs_job))

