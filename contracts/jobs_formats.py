"""C13 / C14 (and the format parts of C15): unit_scaling/formats.py, bit-precise.

`FPFormat.quantise` is executed from the real source by the same AST executor, with the
bit-precise torch catalogue (pyvc/bitmodel.py): the result element is an SMT term over
the IEEE-754 float32 pattern of the input element (theories FP + BV).  The value set of a
format is specified independently of the algorithm (`bitmodel.repr_pred`).
"""
from __future__ import annotations

from fractions import Fraction
from typing import Any, Callable, Dict, List, Optional, Tuple

import z3

from pyvc import bitmodel as bm
from pyvc import tensor as tz
from pyvc.bitmodel import BitTensor, W, fmt_consts, int_of_fraction, repr_pred, scaled_int, signed_scaled
from pyvc.harness import Record, lookup_fn, run_config
from pyvc.interp import Interp, PathResult
from pyvc.sym import Ctx, PyRaise
from pyvc.tensor import Run, Shape, Storage

from .common import dim, frame_obligations
from .registry import Job, register
from .summaries import SUMMARIES

FM = "unit_scaling.formats."
QUICK_FORMATS = [(4, 3), (5, 2), (2, 1), (3, 0), (5, 10), (8, 23), (8, 7), (4, 23), (8, 0)]
ALL_FORMATS = [(E, M) for E in range(2, 9) for M in range(0, 24)]


def s_max_absolute_value(interp: Any, b: Dict[str, Any]) -> Any:
    """ensures result == 2^(2^(E-1)-1) * (2 - 2^-M): the largest value of the format"""
    f = b["self"]
    return fmt_consts(f.attrs["exponent_bits"], f.attrs["mantissa_bits"])["max"]


# max_absolute_value is INLINED into quantise (not summarised): whether it returns a Python int or
# a float matters to its caller (torch.clip converts an int bound to a C int64: E8M0), and the
# annotation `-> float` is not enforced by Python.  Its own contract is checked by the range jobs.
BIT_SUMMARIES: Dict[str, Any] = {}


def mk_bit_interp(ctx: Ctx, verifying: List[str]) -> Interp:
    return Interp(ctx, contracts=dict(BIT_SUMMARIES), inline=[FM + "FPFormat.__post_init__", FM + "FPFormat.max_absolute_value"], verifying=verifying, externals=bm.externals)


def mk_format(it: Interp, E: int, M: int, rounding: str, srbits: int = 0) -> Any:
    cls = lookup_fn(it, FM + "FPFormat")
    return it.call(cls, [E, M], {"rounding": rounding, "srbits": srbits})


def fp32(name: str) -> z3.FPRef:
    return z3.FP(name, z3.Float32())


def preconditions(ctx: Ctx, E: int, x: z3.FPRef) -> None:
    ctx.assume(z3.Not(z3.fpIsNaN(x)))
    if E == 8:
        ctx.assume(z3.fpLT(z3.fpAbs(x), z3.FPVal(2.0**126, z3.Float32())))


def spec_clamp(x: z3.FPRef, maxv: Fraction) -> z3.FPRef:
    mx = z3.fpRealToFP(z3.RNE(), z3.RealVal(maxv), z3.Float32())
    return z3.If(z3.fpLT(x, z3.fpNeg(mx)), z3.fpNeg(mx), z3.If(z3.fpGT(x, mx), mx, x))


def _abs_diff(a: z3.BitVecRef, b: z3.BitVecRef) -> z3.BitVecRef:
    return z3.If(a >= b, a - b, b - a)


def _nearest_job(E: int, M: int, group: str) -> Callable[[], Record]:
    """group: 'core' (single-variable clauses) | 'neighbour' | 'nearest' | 'monotone'"""

    def run() -> Record:
        qual = FM + "FPFormat.quantise"
        tag = f"C13:formats.FPFormat.quantise[E{E}M{M}]"
        c = fmt_consts(E, M)

        def build(ctx: Ctx) -> Any:
            it = mk_bit_interp(ctx, [qual])
            fmt = mk_format(it, E, M, "nearest")
            x = fp32("x")
            preconditions(ctx, E, x)
            xt = BitTensor(Shape([Run(ctx, "a")]), "float32", x, Storage("input:x"), "x")
            q = lookup_fn(it, qual)

            def thunk() -> Any:
                r = it.call(q, [fmt, xt], {})
                eff = list(ctx.effects)
                r2 = None
                if group == "monotone":
                    y = fp32("y")
                    preconditions(ctx, E, y)
                    r2 = (y, it.call(q, [fmt, BitTensor(xt.shape, "float32", y, Storage("input:y"), "y")], {}))
                elif group == "core":
                    nx = z3.fpNeg(x)
                    r2 = (nx, it.call(q, [fmt, BitTensor(xt.shape, "float32", nx, Storage("input:negx"), "negx")], {}))
                ctx.effects[:] = eff
                return r, r2, xt

            return it, thunk

        def post(p: PathResult, i: int) -> Any:
            ctx = p.ctx
            x = fp32("x")
            xb = z3.fpToIEEEBV(x)
            wit = {"x_bits": xb}
            if p.outcome != "return":
                ctx.oblige(f"{tag}:no_exception", False, exc=str(p.exc))
                return wit
            r, r2, xt = p.value
            ok_t = isinstance(r, BitTensor) and r.dtype == "float32" and not r.garbled
            if group == "core":
                ctx.oblige(f"{tag}:dtype_preserved", isinstance(r, BitTensor) and r.dtype == xt.dtype)
                ctx.oblige(f"{tag}:shape_preserved", isinstance(r, BitTensor) and r.shape.eq(ctx, xt.shape) is True)
                ctx.oblige(f"{tag}:elementwise_value_defined(no reinterpretation across element sizes)", ok_t)
                frame_obligations(ctx, f"{tag}:argument_not_modified")
                ctx.oblige(f"{tag}:result_is_new_tensor", isinstance(r, BitTensor) and r.storage is not xt.storage)
            if not ok_t:
                return wit
            code = r.elem
            cb = z3.fpToIEEEBV(code)
            wit["code_bits"] = cb
            cx = spec_clamp(x, c["max"])
            cxb = z3.fpToIEEEBV(cx)
            mx = z3.fpRealToFP(z3.RNE(), z3.RealVal(c["max"]), z3.Float32())
            if group == "core":
                ctx.oblige(f"{tag}:representable", repr_pred(E, M, cb), timeout_ms=600000, bit_precise=True)
                ctx.oblige(f"{tag}:sign_preserved", z3.Extract(31, 31, cb) == z3.Extract(31, 31, xb))
                ctx.oblige(f"{tag}:saturates_to_max", z3.Implies(z3.fpGEQ(z3.fpAbs(x), mx), z3.fpEQ(z3.fpAbs(code), mx)))
                ctx.oblige(f"{tag}:representable_input_unchanged", z3.Implies(repr_pred(E, M, xb), cb == xb), timeout_ms=600000, bit_precise=True)
                # idempotent: consequence of the two clauses above (both for all inputs)
                nx, rn = r2
                nb = z3.fpToIEEEBV(rn.elem)
                ctx.oblige(f"{tag}:odd_symmetric", nb == (cb ^ z3.BitVecVal(0x80000000, 32)), timeout_ms=600000, bit_precise=True)
            elif group in ("neighbour", "nearest"):
                zb = z3.BitVec("z_bits", 32)
                wit["z_bits"] = zb
                Ic, Ix, Iz = signed_scaled(cb), signed_scaled(cxb), signed_scaled(zb)
                rz = repr_pred(E, M, zb)
                if group == "neighbour":
                    between = z3.Or(z3.And(Ix < Iz, Iz < Ic), z3.And(Ic < Iz, Iz < Ix))
                    ctx.oblige(f"{tag}:is_a_neighbour(no representable value strictly between input and result)", z3.Not(z3.And(rz, between)), timeout_ms=600000, bit_precise=True)
                else:
                    # slack 2^(M-23) * spacing only where the pre-scaling lands in float32 subnormals (|x| < 2^emin)
                    below = z3.ULT(scaled_int(cxb), int_of_fraction(c["min_normal"]))
                    sl_exp = c["emin"] - 23 + 149
                    slack = z3.If(below, z3.BitVecVal(2**sl_exp if sl_exp >= 0 else 0, W), z3.BitVecVal(0, W))
                    ctx.oblige(f"{tag}:nearest(no representable value closer, up to the stated slack below 2^emin)", z3.Implies(rz, z3.ULE(_abs_diff(Ic, Ix), _abs_diff(Iz, Ix) + slack)), timeout_ms=900000, bit_precise=True)
            elif group == "monotone":
                y, ry = r2
                ctx.oblige(f"{tag}:monotone_non_decreasing", z3.Implies(z3.fpLEQ(x, y), z3.fpLEQ(code, ry.elem)), timeout_ms=600000, bit_precise=True)
                wit["y_bits"] = z3.fpToIEEEBV(y)
            return wit

        return run_config(qual, {"E": E, "M": M, "rounding": "nearest", "group": group}, build, post)

    return run


for _E, _M in ALL_FORMATS:
    for _g in ("core", "neighbour", "nearest", "monotone"):
        register(Job(f"c13:quantise[E{_E}M{_M},{_g}]", ["C13"], FM + "FPFormat.quantise", {"E": _E, "M": _M, "group": _g}, _nearest_job(_E, _M, _g), tier="quick" if (_E, _M) in QUICK_FORMATS else "thorough"))


# ---------------------------------------------------------------- other input dtypes


def _fits(E: int, M: int, dtype: str) -> bool:
    """is every value of the format exactly a value of dtype?"""
    c = fmt_consts(E, M)
    sb, emin_d, emax_d = {"bfloat16": (8, -126, 127), "float16": (11, -14, 15), "float64": (53, -1022, 1023), "float32": (24, -126, 127)}[dtype]
    return M + 1 <= sb and c["emax"] <= emax_d and c["emin"] - M >= emin_d - (sb - 1)


def _dtype_job(E: int, M: int, dtype: str, rank: int) -> Callable[[], Record]:
    def run() -> Record:
        qual = FM + "FPFormat.quantise"
        tag = f"C13:formats.FPFormat.quantise[E{E}M{M},{dtype}]"
        c = fmt_consts(E, M)

        def build(ctx: Ctx) -> Any:
            it = mk_bit_interp(ctx, [qual])
            fmt = mk_format(it, E, M, "nearest")
            x = z3.FP("x", bm.FP_SORTS[dtype])
            ctx.assume(z3.Not(z3.fpIsNaN(x)))
            if E == 8:
                ctx.assume(z3.fpLT(z3.fpAbs(x), z3.fpRealToFP(z3.RNE(), z3.RealVal(2**126), bm.FP_SORTS[dtype])))
            sh = Shape([dim(ctx, f"n{i}") for i in range(rank)])
            xt = BitTensor(sh, dtype, x, Storage("input:x"), "x")
            q = lookup_fn(it, qual)

            def thunk() -> Any:
                r = it.call(q, [fmt, xt], {})
                eff = list(ctx.effects)
                # the float32 path on the same element, for comparison
                x32 = z3.fpFPToFP(z3.RNE(), x, z3.Float32())
                r32 = it.call(q, [fmt, BitTensor(sh, "float32", x32, Storage("input:x32"), "x32")], {})
                ctx.effects[:] = eff
                return r, r32, xt

            return it, thunk

        def post(p: PathResult, i: int) -> Any:
            ctx = p.ctx
            if p.outcome != "return":
                ctx.oblige(f"{tag}:no_exception[rank={rank}]", False, exc=str(p.exc))
                return None
            r, r32, xt = p.value
            ctx.oblige(f"{tag}:dtype_preserved[rank={rank}]", isinstance(r, BitTensor) and r.dtype == dtype)
            ctx.oblige(f"{tag}:shape_preserved[rank={rank}]", isinstance(r, BitTensor) and r.shape.eq(ctx, xt.shape) is True, result=str(getattr(r, "shape", None)), input=str(xt.shape))
            ok = isinstance(r, BitTensor) and not r.garbled and r.dtype == dtype
            ctx.oblige(f"{tag}:elementwise_value_defined(no reinterpretation across element sizes)[rank={rank}]", ok)
            frame_obligations(ctx, f"{tag}:argument_not_modified[rank={rank}]")
            if ok and rank == 1:
                # result == convert(quantise_float32(convert(x))): every float32 clause carries over
                back = z3.fpFPToFP(z3.RNE(), r32.elem, bm.FP_SORTS[dtype])
                ctx.oblige(f"{tag}:equals_float32_path_composed_with_conversions", z3.fpToIEEEBV(r.elem) == z3.fpToIEEEBV(back))
                if _fits(E, M, dtype):
                    # the conversion back is exact: the result is the format value itself
                    again = z3.fpFPToFP(z3.RNE(), r.elem, z3.Float32())
                    ctx.oblige(f"{tag}:result_is_exactly_the_format_value", z3.fpToIEEEBV(again) == z3.fpToIEEEBV(r32.elem))
            from pyvc.sym import SV

            return {k: v.z for k, v in ctx.inputs.items() if isinstance(v, SV)}

        return run_config(qual, {"E": E, "M": M, "dtype": dtype, "rank": rank}, build, post)

    return run


for _E, _M in ALL_FORMATS:
    for _dt in ("float64", "bfloat16", "float16", "float32"):
        if _dt not in ("float64", "float32") and not _fits(_E, _M, _dt):
            continue
        for _rank in (0, 1, 2):
            register(Job(f"c13:quantise-dtype[E{_E}M{_M},{_dt},rank={_rank}]", ["C13"], FM + "FPFormat.quantise", {"E": _E, "M": _M, "dtype": _dt, "rank": _rank}, _dtype_job(_E, _M, _dt, _rank), tier="quick" if (_E, _M) in QUICK_FORMATS[:3] else "thorough"))


# ---------------------------------------------------------------- range properties


def _range_job(E: int, M: int) -> Callable[[], Record]:
    def run() -> Record:
        tag = f"C13:formats.FPFormat[E{E}M{M}]"
        c = fmt_consts(E, M)
        props = ("max_absolute_value", "min_absolute_normal", "min_absolute_subnormal")

        def build(ctx: Ctx) -> Any:
            it = mk_bit_interp(ctx, [FM + "FPFormat." + p for p in props])
            fmt = mk_format(it, E, M, "nearest")
            return it, lambda: [it.getattr(fmt, p) for p in props]

        def post(p: PathResult, i: int) -> Any:
            ctx = p.ctx
            if p.outcome != "return":
                ctx.oblige(f"{tag}:range_properties_no_exception", False, exc=str(p.exc))
                return None
            mx, mn, ms = p.value
            ctx.oblige(f"{tag}:max_absolute_value_is_largest_value", isinstance(mx, (int, Fraction)) and Fraction(mx) == c["max"], got=str(mx), want=str(c["max"]))
            ctx.oblige(f"{tag}:min_absolute_normal_is_2^emin", isinstance(mn, (int, Fraction)) and Fraction(mn) == c["min_normal"], got=str(mn))
            ctx.oblige(f"{tag}:min_absolute_subnormal_is_2^(emin-M)", isinstance(ms, (int, Fraction)) and Fraction(ms) == c["min_sub"], got=str(ms))
            # the three constants are the extremes of the value set `repr`
            zb = z3.BitVec("z_bits", 32)
            rz = repr_pred(E, M, zb)
            mag = scaled_int(zb)
            ctx.oblige(f"{tag}:value_set_max", z3.Implies(rz, z3.ULE(mag, int_of_fraction(c["max"]))))
            mxb = z3.fpToIEEEBV(z3.fpRealToFP(z3.RNE(), z3.RealVal(c["max"]), z3.Float32()))
            ctx.oblige(f"{tag}:value_set_contains_max", repr_pred(E, M, mxb))
            if c["min_sub"] * 2**149 >= 1:
                ctx.oblige(f"{tag}:value_set_min_positive", z3.Implies(z3.And(rz, mag != 0), z3.UGE(mag, int_of_fraction(c["min_sub"]))))
                msb = z3.fpToIEEEBV(z3.fpRealToFP(z3.RNE(), z3.RealVal(c["min_sub"]), z3.Float32()))
                ctx.oblige(f"{tag}:value_set_contains_min_subnormal", repr_pred(E, M, msb))
            # below min_normal the spacing is constant (subnormal), at and above it the precision is M bits
            mnb = z3.fpToIEEEBV(z3.fpRealToFP(z3.RNE(), z3.RealVal(c["min_normal"]), z3.Float32()))
            ctx.oblige(f"{tag}:value_set_contains_min_normal", repr_pred(E, M, mnb))
            return {"z_bits": zb}

        return run_config(FM + "FPFormat.max_absolute_value", {"E": E, "M": M}, build, post)

    return run


def _reuse_job(E0: int, M0: int, E: int, M: int) -> Callable[[], Record]:
    """History: FPFormat is a mutable dataclass.  An object used as E0/M0 (range properties read,
    one quantisation) whose fields are then reassigned to E/M must behave as a fresh E/M format."""

    def run() -> Record:
        tag = f"C13:formats.FPFormat[E{E0}M{M0}->E{E}M{M}]"
        c = fmt_consts(E, M)
        props = ("max_absolute_value", "min_absolute_normal", "min_absolute_subnormal")

        def build(ctx: Ctx) -> Any:
            it = mk_bit_interp(ctx, [FM + "FPFormat." + p for p in props] + [FM + "FPFormat.quantise"])
            x = fp32("x")
            preconditions(ctx, E, x)

            def thunk() -> Any:
                fmt = mk_format(it, E0, M0, "nearest")
                first = [it.getattr(fmt, p) for p in props]
                q = lookup_fn(it, FM + "FPFormat.quantise")
                it.call(q, [fmt, BitTensor(Shape([Run(ctx, "a")]), "float32", x, Storage("input:x0"), "x0")], {})
                it.setattr(fmt, "exponent_bits", E)
                it.setattr(fmt, "mantissa_bits", M)
                again = [it.getattr(fmt, p) for p in props]
                r = it.call(q, [fmt, BitTensor(Shape([Run(ctx, "a")]), "float32", x, Storage("input:x1"), "x1")], {})
                fresh = it.call(q, [mk_format(it, E, M, "nearest"), BitTensor(Shape([Run(ctx, "a")]), "float32", x, Storage("input:x2"), "x2")], {})
                return first, again, r, fresh

            return it, thunk

        def post(p: PathResult, i: int) -> Any:
            ctx = p.ctx
            if p.outcome != "return":
                ctx.oblige(f"{tag}:no_exception", False, exc=str(p.exc))
                return None
            first, again, r, fresh = p.value
            for name, got, want in zip(props, again, (c["max"], c["min_normal"], c["min_sub"])):
                ctx.oblige(f"{tag}:{name}_follows_the_current_fields", isinstance(got, (int, Fraction)) and Fraction(got) == want, got=str(got), want=str(want))
            ctx.oblige(f"{tag}:quantise_equals_a_fresh_format_of_the_current_fields", z3.fpToIEEEBV(r.elem) == z3.fpToIEEEBV(fresh.elem))
            return {"x": z3.fpToIEEEBV(z3.FP("x", z3.Float32()))}

        return run_config(FM + "FPFormat.quantise", {"E0": E0, "M0": M0, "E": E, "M": M, "history": "fields reassigned after use"}, build, post)

    return run


def _rounding_reassigned_job(E: int, M: int) -> Callable[[], Record]:
    """History: an object constructed with the default (stochastic) rounding -- __post_init__ then
    stores srbits = 23 - M on it -- whose `rounding` field is set to "nearest" afterwards must
    quantise as a fresh nearest-rounding format does."""

    def run() -> Record:
        tag = f"C13:formats.FPFormat[E{E}M{M},stochastic->nearest]"

        def build(ctx: Ctx) -> Any:
            it = mk_bit_interp(ctx, [FM + "FPFormat.quantise"])
            x = fp32("x")
            preconditions(ctx, E, x)

            def thunk() -> Any:
                q = lookup_fn(it, FM + "FPFormat.quantise")
                fmt = mk_format(it, E, M, "stochastic")
                it.setattr(fmt, "rounding", "nearest")
                r = it.call(q, [fmt, BitTensor(Shape([Run(ctx, "a")]), "float32", x, Storage("input:x1"), "x1")], {})
                fresh = it.call(q, [mk_format(it, E, M, "nearest"), BitTensor(Shape([Run(ctx, "a")]), "float32", x, Storage("input:x2"), "x2")], {})
                return r, fresh

            return it, thunk

        def post(p: PathResult, i: int) -> Any:
            ctx = p.ctx
            if p.outcome != "return":
                ctx.oblige(f"{tag}:no_exception", False, exc=str(p.exc))
                return None
            r, fresh = p.value
            ctx.oblige(f"{tag}:quantise_equals_a_fresh_nearest_format", z3.fpToIEEEBV(r.elem) == z3.fpToIEEEBV(fresh.elem), bit_precise=True)
            return {"x_bits": z3.fpToIEEEBV(z3.FP("x", z3.Float32()))}

        return run_config(FM + "FPFormat.quantise", {"E": E, "M": M, "history": "rounding reassigned after construction"}, build, post)

    return run


for _E, _M in ((2, 0), (4, 3), (5, 2)):
    register(Job(f"c13:reuse[E{_E}M{_M},stochastic->nearest]", ["C13"], FM + "FPFormat.quantise", {"E": _E, "M": _M, "history": "rounding"}, _rounding_reassigned_job(_E, _M)))


for (_E0, _M0), (_E, _M) in (((5, 2), (4, 3)), ((4, 3), (5, 2)), ((8, 23), (2, 1))):
    register(Job(f"c13:reuse[E{_E0}M{_M0}->E{_E}M{_M}]", ["C13"], FM + "FPFormat.quantise", {"E0": _E0, "M0": _M0, "E": _E, "M": _M}, _reuse_job(_E0, _M0, _E, _M)))


for _E, _M in ALL_FORMATS:
    register(Job(f"c13:range[E{_E}M{_M}]", ["C13"], FM + "FPFormat.max_absolute_value", {"E": _E, "M": _M}, _range_job(_E, _M), tier="quick" if _M in (0, 2, 3, 23) else "thorough"))


# ---------------------------------------------------------------- C14: stochastic rounding

SR_QUICK = [(4, 3, 0), (4, 3, 4), (5, 2, 0), (5, 2, 1), (5, 2, 12), (2, 1, 0), (2, 1, 8), (3, 0, 0), (7, 10, 0), (7, 10, 3)]
SR_ALL = [(E, M, s) for E in range(2, 8) for M in range(0, 11) for s in list(range(1, 13)) + [0]]


def _rnd_threshold(d: z3.BitVecRef, D: int, s: int) -> z3.BitVecRef:
    """rnd(d / 2^(D-s)), round half up, as a 64-bit integer (== d when s == D)"""
    sb = D - s
    d64 = z3.ZeroExt(32, d)
    if sb == 0:
        return d64
    return z3.LShR(d64 + z3.BitVecVal(1 << (sb - 1), 64), z3.BitVecVal(sb, 64))


def _sr_job(E: int, M: int, srbits: int, group: str) -> Callable[[], Record]:
    """group: core | neighbour | threshold_normal | threshold_subnormal | spec_lemmas"""

    def run() -> Record:
        qual = FM + "FPFormat.quantise"
        D = 23 - M
        s = srbits if srbits else D
        tag = f"C14:formats.FPFormat.quantise[E{E}M{M},sr={s}]"
        c = fmt_consts(E, M)
        k = c["emin_b"] - 1  # downscale = 2^k

        def build(ctx: Ctx) -> Any:
            it = mk_bit_interp(ctx, [qual])
            fmt = mk_format(it, E, M, "stochastic", srbits)
            x = fp32("x")
            ctx.assume(z3.Not(z3.fpIsNaN(x)))
            ctx.assume(z3.Not(z3.fpIsInf(x)))
            xt = BitTensor(Shape([Run(ctx, "a")]), "float32", x, Storage("input:x"), "x")
            q = lookup_fn(it, qual)
            return it, lambda: (it.call(q, [fmt, xt], {}), xt, fmt)

        def post(p: PathResult, i: int) -> Any:
            ctx = p.ctx
            x = fp32("x")
            xb = z3.fpToIEEEBV(x)
            wit: Dict[str, Any] = {"x_bits": xb}
            if group == "spec_lemmas":
                _sr_spec_lemmas(ctx, tag, E, M, s)
                return wit
            if p.outcome != "return":
                ctx.oblige(f"{tag}:no_exception", False, exc=str(p.exc))
                return wit
            r, xt, fmt = p.value
            calls = ctx.__dict__.get("randint_calls", [])
            ok_t = isinstance(r, BitTensor) and r.dtype == "float32" and not r.garbled
            if group == "core":
                ctx.oblige(f"{tag}:srbits_resolved", fmt.attrs.get("srbits") == s, got=str(fmt.attrs.get("srbits")))
                ctx.oblige(f"{tag}:one_random_draw_per_call", len(calls) == 1, n=len(calls))
                if len(calls) == 1:
                    cl = calls[0]
                    ctx.oblige(f"{tag}:independent_draw_per_element(size_is_input_shape)", isinstance(cl["size"], Shape) and cl["size"].eq(ctx, xt.shape) is True)
                    ctx.oblige(f"{tag}:draw_is_uniform_on_[0,2^srbits)", cl["low"] == 0 and cl["high"] == 2**s, got=f"[{cl['low']},{cl['high']}) {cl['dtype']}")
                ctx.oblige(f"{tag}:dtype_and_shape_preserved", ok_t and r.shape.eq(ctx, xt.shape) is True)
                frame_obligations(ctx, f"{tag}:argument_not_modified")
            if not ok_t or len(calls) != 1:
                return wit
            R = calls[0]["R"]  # the draw, whatever integer dtype the code asked for, as a 32-bit integer in [0, 2^srbits)
            if R.size() < 32:
                R = z3.ZeroExt(32 - R.size(), R)
            elif R.size() > 32:
                R = z3.Extract(31, 0, R)
            wit["R"] = R
            code = r.elem
            cb = z3.fpToIEEEBV(code)
            wit["code_bits"] = cb
            cx = spec_clamp(x, c["max"])
            cxb = z3.fpToIEEEBV(cx)
            opts = dict(timeout_ms=900000, bit_precise=True)
            if group == "core":
                ctx.oblige(f"{tag}:representable", repr_pred(E, M, cb), **opts)
                ctx.oblige(f"{tag}:representable_input_never_moved", z3.Implies(repr_pred(E, M, xb), cb == xb), **opts)
                ctx.oblige(f"{tag}:sign_preserved", z3.Extract(31, 31, cb) == z3.Extract(31, 31, xb), **opts)
            elif group == "neighbour":
                zb = z3.BitVec("z_bits", 32)
                wit["z_bits"] = zb
                Ic, Ix, Iz = signed_scaled(cb), signed_scaled(cxb), signed_scaled(zb)
                between = z3.Or(z3.And(Ix < Iz, Iz < Ic), z3.And(Ic < Iz, Iz < Ix))
                ctx.oblige(f"{tag}:is_one_of_the_two_neighbours", z3.Not(z3.And(repr_pred(E, M, zb), between)), **opts)
            elif group in ("threshold_normal", "threshold_subnormal"):
                mask = z3.BitVecVal((1 << D) - 1, 32)
                sgn = xb & z3.BitVecVal(0x80000000, 32)
                mag_b = cxb & z3.BitVecVal(0x7FFFFFFF, 32)
                R64 = z3.ZeroExt(32, R)
                two_s = z3.BitVecVal(1 << s, 64)
                if group == "threshold_normal":
                    # |cx| >= 2^emin: the scaling is exact; in pattern space lo = pattern with the D
                    # discarded bits cleared, hi = lo + 2^D, d = discarded bits
                    normal = z3.UGE(scaled_int(cxb), int_of_fraction(c["min_normal"]))
                    d = mag_b & mask
                    lo_b = mag_b & ~mask
                    away = z3.UGE(R64 + _rnd_threshold(d, D, s), two_s)
                    expect = z3.If(away, lo_b + z3.BitVecVal(1 << D, 32), lo_b) | sgn
                    ctx.oblige(f"{tag}:rounds_away_iff_R>=2^s-rnd(d/2^(D-s))[normal range]", z3.Implies(normal, cb == expect), **opts)
                    wit["d"] = d
                else:
                    # |cx| < 2^emin: q = RNE(|cx| / 2^k) is a float32 subnormal pattern m_q
                    sub = z3.ULT(scaled_int(cxb), int_of_fraction(c["min_normal"]))
                    I = scaled_int(cxb)
                    if k > 0:
                        q0 = z3.LShR(I, z3.BitVecVal(k, W))
                        rem = I & z3.BitVecVal((1 << k) - 1, W)
                        half = z3.BitVecVal(1 << (k - 1), W)
                        up = z3.Or(z3.UGT(rem, half), z3.And(rem == half, z3.Extract(0, 0, q0) == 1))
                        mq = q0 + z3.If(up, z3.BitVecVal(1, W), z3.BitVecVal(0, W))
                    else:
                        mq = I
                    maskW = z3.BitVecVal((1 << D) - 1, W)
                    dq = mq & maskW
                    d32 = z3.Extract(31, 0, dq)
                    away = z3.UGE(R64 + _rnd_threshold(d32, D, s), two_s)
                    grid = (mq & ~maskW) + z3.If(away, z3.BitVecVal(1 << D, W), z3.BitVecVal(0, W))
                    expect_I = grid << z3.BitVecVal(k, W)
                    ctx.oblige(f"{tag}:rounds_away_iff_R>=2^s-rnd(d/2^(D-s))[subnormal range, d from the RNE-scaled value]", z3.Implies(sub, z3.And(scaled_int(cb) == expect_I, z3.Extract(31, 31, cb) == z3.Extract(31, 31, xb))), **opts)
                    # the rounded scaled value is within half a float32 ulp of the exact one: position error <= 2^-(D+1)
                    if k > 0:
                        err = _abs_diff(mq << z3.BitVecVal(k, W), I)
                        ctx.oblige(f"{tag}:scaled_position_error_at_most_2^-(D+1)_of_spacing[subnormal range]", z3.Implies(sub, z3.ULE(err, z3.BitVecVal(1 << (k - 1), W))), **opts)
            return wit

        return run_config(qual, {"E": E, "M": M, "srbits": s, "rounding": "stochastic", "group": group}, build, post)

    return run


def _sr_spec_lemmas(ctx: Ctx, tag: str, E: int, M: int, s: int) -> None:
    """Pure facts about the value set and about counting (no repo code involved): they turn
    the threshold form into the probability statement of the property."""
    D = 23 - M
    c = fmt_consts(E, M)
    opts = dict(timeout_ms=900000, bit_precise=True)
    _sr_count_lemmas(ctx, tag, D, s)
    if s != D:
        return  # the value-set lemmas do not depend on srbits: proved once, with the default srbits
    yb = z3.BitVec("y_bits", 32)
    zb = z3.BitVec("z_bits", 32)
    mag_b = yb & z3.BitVecVal(0x7FFFFFFF, 32)
    mask = z3.BitVecVal((1 << D) - 1, 32)
    finite = z3.Extract(30, 23, yb) != 255
    inrange = z3.And(finite, z3.ULE(scaled_int(yb), int_of_fraction(c["max"])), z3.UGE(scaled_int(yb), int_of_fraction(c["min_normal"])))
    lo_b = mag_b & ~mask
    hi_b = lo_b + z3.BitVecVal(1 << D, 32)
    d = mag_b & mask
    Ilo, Ihi, Iy, Iz = scaled_int(lo_b), scaled_int(hi_b), scaled_int(mag_b), scaled_int(zb & z3.BitVecVal(0x7FFFFFFF, 32))
    hi_ok = z3.ULE(Ihi, int_of_fraction(c["max"]))
    ctx.oblige(f"{tag}:spec:lo_is_representable[normal range]", z3.Implies(inrange, repr_pred(E, M, lo_b)), **opts)
    ctx.oblige(f"{tag}:spec:hi_is_representable_or_beyond_max[normal range]", z3.Implies(z3.And(inrange, hi_ok), repr_pred(E, M, hi_b)), **opts)
    ctx.oblige(f"{tag}:spec:lo<=x<hi[normal range]", z3.Implies(inrange, z3.And(z3.ULE(Ilo, Iy), z3.ULT(Iy, Ihi))), **opts)
    ctx.oblige(f"{tag}:spec:nothing_representable_strictly_between_lo_and_hi[normal range]", z3.Implies(z3.And(inrange, repr_pred(E, M, zb)), z3.Not(z3.And(z3.ULT(Ilo, Iz), z3.ULT(Iz, Ihi)))), **opts)
    # fractional position of x between lo and hi is d / 2^D:  x - lo == d * u  and  hi - lo == 2^D * u
    # with u = 2^(e-1) the float32 ulp (scaled) of the binade of x
    e8 = z3.Extract(30, 23, mag_b)
    sh = z3.ZeroExt(W - 8, e8) - 1
    ctx.oblige(f"{tag}:spec:x_minus_lo_is_d_ulps[normal range]", z3.Implies(inrange, Iy - Ilo == z3.ZeroExt(W - 32, d) << sh), **opts)
    ctx.oblige(f"{tag}:spec:hi_minus_lo_is_2^D_ulps[normal range]", z3.Implies(inrange, Ihi - Ilo == z3.BitVecVal(1 << D, W) << sh), **opts)


def _sr_count_lemmas(ctx: Ctx, tag: str, D: int, s: int) -> None:
    # counting: #{R in [0,2^s) : R >= 2^s - t} == t for 0 <= t <= 2^s, t = rnd(d/2^(D-s)); |t/2^s - d/2^D| <= 2^-(s+1)
    di = z3.Int("d")
    sb = D - s
    t = di if sb == 0 else (di + 2 ** (sb - 1)) / (2**sb)
    rng = z3.And(di >= 0, di < 2**D)
    ob1 = z3.Implies(rng, z3.And(t >= 0, t <= 2**s))
    # 2^(D) * t - 2^s * d within 2^(D-1)  <=>  |t/2^s - d/2^D| <= 2^-(s+1)
    ob2 = z3.Implies(rng, z3.And(2**D * t - 2**s * di <= 2 ** (D - 1), 2**s * di - 2**D * t <= 2 ** (D - 1)))
    ctx.lemma(f"{tag}:spec:count_of_draws_rounding_away_is_rnd(d/2^(D-s))_in_[0,2^s]", [], ob1)
    ctx.lemma(f"{tag}:spec:probability_within_2^-(s+1)_of_fractional_position", [], ob2)
    if sb == 0:
        ctx.lemma(f"{tag}:spec:probability_exact_when_all_discarded_bits_are_used", [], z3.Implies(rng, t == di))


for _E, _M, _s in SR_ALL:
    _tier = "quick" if (_E, _M, _s) in SR_QUICK else "thorough"
    for _g in ("core", "neighbour", "threshold_normal", "threshold_subnormal", "spec_lemmas"):
        register(Job(f"c14:quantise[E{_E}M{_M},sr={_s},{_g}]", ["C14"], FM + "FPFormat.quantise", {"E": _E, "M": _M, "srbits": _s, "group": _g}, _sr_job(_E, _M, _s, _g), tier=_tier))


# ---------------------------------------------------------------- C15: a lossless format is the identity


def _lossless_job(rounding: str) -> Callable[[], Record]:
    def run() -> Record:
        qual = FM + "FPFormat.quantise"
        tag = f"C15:formats.FPFormat.quantise[E8M23,{rounding}]"

        def build(ctx: Ctx) -> Any:
            it = mk_bit_interp(ctx, [qual])
            fmt = mk_format(it, 8, 23, rounding)
            x = fp32("x")
            preconditions(ctx, 8, x)
            xt = BitTensor(Shape([Run(ctx, "a")]), "float32", x, Storage("input:x"), "x")
            return it, lambda: it.call(lookup_fn(it, qual), [fmt, xt], {})

        def post(p: PathResult, i: int) -> Any:
            ctx = p.ctx
            x = fp32("x")
            if p.outcome != "return" or not isinstance(p.value, BitTensor):
                ctx.oblige(f"{tag}:no_exception", False, exc=str(p.exc))
                return None
            ctx.oblige(f"{tag}:lossless_format_is_the_identity_bit_for_bit(|x|<2^126, every random draw)", z3.fpToIEEEBV(p.value.elem) == z3.fpToIEEEBV(x), timeout_ms=600000, bit_precise=True)
            return {"x_bits": z3.fpToIEEEBV(x)}

        return run_config(qual, {"E": 8, "M": 23, "rounding": rounding}, build, post)

    return run


for _r in ("nearest", "stochastic"):
    register(Job(f"c15:lossless[E8M23,{_r}]", ["C15"], FM + "FPFormat.quantise", {"rounding": _r}, _lossless_job(_r)))
