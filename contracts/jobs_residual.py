"""C06: residual_split / residual_add / residual_apply with an arbitrary (uninterpreted)
branch function f and tau > 0.  Postconditions taken from the property statement."""
from __future__ import annotations

from fractions import Fraction
from typing import Any, Callable, Dict, List

import z3

from pyvc import tensor as tz
from pyvc.harness import Record, lookup_fn, run_config
from pyvc.interp import PathResult
from pyvc.sym import Ctx, PyRaise, num_binop, num_pow, zreal
from pyvc.tensor import LinComb, Run, Shape, SymTensor

from .common import frame_obligations, leaf, mk_interp, pos_real
from .jobs_core import UFun
from .registry import Job, register
from .summaries import UF


class ProbeFun(UFun):
    """uninterpreted branch function that remembers its input and output tensors"""

    def __init__(self, name: str):
        super().__init__(name)
        self.seen: List[Any] = []

    def pyvc_call(self, interp: Any, args: List[Any], kwargs: Dict[str, Any]) -> Any:
        out = super().pyvc_call(interp, args, kwargs)
        self.seen.append((args[0], out))
        return out


def _residual_job(mode: str) -> Callable[[], Record]:
    """mode: 'apply' (residual_apply body, callee contracts) | 'sequence' (real bodies of
    split and add around f) | 'nested' (a residual layer whose branch is itself a residual layer)"""

    def run() -> Record:
        verifying = {"apply": [UF + "residual_apply"], "sequence": [UF + "residual_split", UF + "residual_add"], "nested": [UF + "residual_apply"]}[mode]
        tag = f"C06:functional.residual_{mode}"

        def build(ctx: Ctx) -> Any:
            it = mk_interp(ctx, verifying=verifying)
            x = leaf(ctx, "x", Shape([Run(ctx, "a")]))
            tau = pos_real(ctx, "tau")
            f = ProbeFun("f")
            U = it.get_module("unit_scaling.functional")

            def thunk() -> Any:
                if mode == "sequence":
                    res, skip = it.call(it.getattr(U, "residual_split"), [x], {"tau": tau})
                    y = it.call(f, [res], {})
                    out = it.call(it.getattr(U, "residual_add"), [y, skip], {"tau": tau})
                else:
                    out = it.call(it.getattr(U, "residual_apply"), [f, x], {"tau": tau})
                return out, x, tau, f

            return it, thunk

        def post(p: PathResult, i: int) -> Any:
            ctx = p.ctx
            if p.outcome != "return":
                ctx.oblige(f"{tag}:no_exception", False, exc=str(p.exc))
                return None
            out, x, tau, f = p.value
            t = tau.z
            d2 = 1 + t * t
            fin, fout = f.seen[0]
            xt = x.val.terms[0][0]
            ft = fout.val.terms[0][0]
            coef = {str(term): c for term, c in out.val.terms}
            cx = next((c for term, c in out.val.terms if term.eq(xt)), None)
            cf = next((c for term, c in out.val.terms if term.eq(ft)), None)
            ok_struct = cx is not None and cf is not None and len(out.val.terms) == 2
            ctx.oblige(f"{tag}:value_is_combination_of_x_and_f(x)", ok_struct, value=str(out.val)[:300])
            if not ok_struct:
                return {"tau": t}
            # the branch sees x itself: f is applied to a tensor whose value is x
            ctx.oblige(f"{tag}:branch_input_value_is_x", z3.And(len(fin.val.terms) == 1, fin.val.terms[0][0].eq(xt), fin.val.terms[0][1] == 1) if len(fin.val.terms) == 1 else False)
            # (x + tau f(x)) / sqrt(1+tau^2)
            ctx.oblige(f"{tag}:skip_weight_is_1_over_sqrt(1+tau^2)", z3.And(cx > 0, cx * cx * d2 == 1), cx=str(cx))
            ctx.oblige(f"{tag}:residual_weight_is_tau_over_sqrt(1+tau^2)", z3.And(cf > 0, cf * cf * d2 == t * t), cf=str(cf))
            ctx.oblige(f"{tag}:mixing_weights_squares_sum_to_1", cx * cx + cf * cf == 1)
            # gradient arriving at x is the derivative of that expression:
            #   g/sqrt(1+tau^2) + tau/sqrt(1+tau^2) * vjp_f(x; g)
            g = z3.Const("g", tz.T)
            grads = tz.backward(ctx, out, LinComb.of(g), p.interp, all_nodes=True)
            gx = grads.get(x.node.id, (None, LinComb()))[1]
            cg = next((c for term, c in gx.terms if term.eq(g)), None)
            others = [(term, c) for term, c in gx.terms if not term.eq(g)]
            ok_g = cg is not None and len(others) == 1
            ctx.oblige(f"{tag}:grad_x_is_direct_plus_branch_term", ok_g, grad=str(gx)[:300])
            if ok_g:
                vt, cv = others[0]
                expect_v = tz.backward(ctx, fout, LinComb.of(g), p.interp)  # vjp_f(x; g) w.r.t. f's input leaf
                # f's own VJP term for upstream g
                fnode_grads = fout.node.vjp(ctx, LinComb.of(g), p.interp)
                vref = fnode_grads[0].terms[0][0]
                ctx.oblige(f"{tag}:grad_x_direct_coefficient_equals_skip_weight", cg == cx)
                ctx.oblige(f"{tag}:grad_x_branch_term_is_vjp_f_of_g", vt == vref)
                ctx.oblige(f"{tag}:grad_x_branch_coefficient_equals_residual_weight", cv == cf)
            # inside the branch the upstream gradient arrives unattenuated
            gf = grads.get(fout.node.id, (None, LinComb()))[1]
            ok_f = len(gf.terms) == 1 and gf.terms[0][0].eq(g)
            ctx.oblige(f"{tag}:gradient_into_branch_output_is_g_unattenuated", (gf.terms[0][1] == 1) if ok_f else False, grad=str(gf)[:200])
            ctx.oblige(f"{tag}:shape_preserved", out.shape.eq(ctx, x.shape) is True)
            frame_obligations(ctx, f"{tag}:frame")
            return {"tau": t}

        return run_config(UF + ("residual_apply" if mode != "sequence" else "residual_split+residual_add"), {"mode": mode}, build, post)

    return run


for _m in ("apply", "sequence"):
    register(Job(f"c06:residual[{_m}]", ["C06"], UF + "residual_apply", {"mode": _m}, _residual_job(_m)))


def _stack_job(depth: int, nested: bool) -> Callable[[], Record]:
    """Stacks of residual layers (sequential or nested), through the CONTRACTS of
    residual_split/residual_add only (compositionality): the squared weights of all
    contributions sum to 1 and each layer's gradient path carries its forward weight."""

    def run() -> Record:
        tag = f"C06:functional.residual_stack[{'nested' if nested else 'sequential'},{depth}]"

        def build(ctx: Ctx) -> Any:
            it = mk_interp(ctx, verifying=[UF + "residual_apply"])
            x = leaf(ctx, "x", Shape([Run(ctx, "a")]))
            taus = [pos_real(ctx, f"tau{i}") for i in range(depth)]
            fs = [ProbeFun(f"f{i}") for i in range(depth)]
            U = it.get_module("unit_scaling.functional")
            ra = it.getattr(U, "residual_apply")

            class Nest:
                def __init__(self, i: int):
                    self.i = i

                def pyvc_call(self, interp: Any, args: List[Any], kwargs: Dict[str, Any]) -> Any:
                    y = interp.call(fs[self.i], [args[0]], {})
                    if self.i + 1 < depth:
                        y = interp.call(ra, [Nest(self.i + 1), y], {"tau": taus[self.i + 1]})
                    return y

            def thunk() -> Any:
                if nested:
                    out = it.call(ra, [Nest(0), x], {"tau": taus[0]})
                else:
                    out = x
                    for i in range(depth):
                        out = it.call(ra, [fs[i], out], {"tau": taus[i]})
                return out, x

            return it, thunk

        def post(p: PathResult, i: int) -> Any:
            ctx = p.ctx
            if p.outcome != "return":
                ctx.oblige(f"{tag}:no_exception", False, exc=str(p.exc))
                return None
            out, x = p.value
            cs = [c for _, c in out.val.terms]
            ctx.oblige(f"{tag}:one_term_per_contribution", len(cs) == depth + 1, n=len(cs))
            tot = cs[0] * cs[0]
            for c in cs[1:]:
                tot = tot + c * c
            ctx.oblige(f"{tag}:squared_contributions_sum_to_1", tot == 1)
            g = z3.Const("g", tz.T)
            gx = tz.backward(ctx, out, LinComb.of(g), p.interp).get(x.node.id, (None, LinComb()))[1]
            cg = next((c for term, c in gx.terms if term.eq(g)), None)
            cx = next((c for term, c in out.val.terms if term.eq(x.val.terms[0][0])), None)
            ctx.oblige(f"{tag}:direct_gradient_path_carries_forward_weight", cg == cx if cg is not None and cx is not None else False)
            return None

        return run_config(UF + "residual_apply", {"depth": depth, "nested": nested}, build, post)

    return run


for _d, _n in ((2, False), (2, True), (3, False)):
    if True:
        register(Job(f"c06:stack[{'nested' if _n else 'seq'},{_d}]", ["C06"], UF + "residual_apply", {"depth": _d, "nested": _n}, _stack_job(_d, _n), ))
