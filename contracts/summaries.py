"""Sidecar contracts (functional specifications) of repo functions, keyed by qualified
name.  A *summary* is what a CALLER sees instead of the callee's body; every summary is
itself verified against the real body in `contracts/verify_summaries.py` (obligation
family `<prop>:<qualname>:body==contract[...]`).

Nothing here is a copy of repo code: each summary states the intended behaviour taken
from the property statements / docstrings, in the specification vocabulary of pyvc
(ScaleNode, spec means, torch catalogue).
"""
from __future__ import annotations

from fractions import Fraction
from typing import Any, Callable, Dict, List

import z3

from pyvc.sym import SB, SV, OutOfReach, PyRaise, num_binop, num_cmp, num_exp, num_log, num_pow, zreal
from pyvc import tensor as tz
from pyvc.tensor import LinComb, ScaleNode, SymTensor

S = "unit_scaling.scale."
C = "unit_scaling.constraints."
CF = "unit_scaling.core.functional."
UF = "unit_scaling.functional."

CONSTRAINT_RULES = ("gmean", "hmean", "amean", "to_output_scale", "to_grad_input_scale", "to_left_grad_scale", "to_right_grad_scale")


# ---------------------------------------------------------------- scale.py


def _need_tensor(x: Any, what: str) -> None:
    if not isinstance(x, SymTensor):
        # 1.0 * None etc.: TypeError in the real code
        raise PyRaise("TypeError", f"{what}: not a tensor")


def scale_fwd(interp: Any, b: Dict[str, Any]) -> Any:
    """ensures result.val == scale * input.val ; vjp(g) == g ; fresh storage; same shape/dtype.
    For every real `scale` (zero and negative included)."""
    x, s = b["input"], b["scale"]
    _need_tensor(x, "scale_fwd")
    return SymTensor(x.shape, x.dtype, x.val.scale(s), ScaleNode(x.node, zreal(s), z3.RealVal(1)))


def scale_bwd(interp: Any, b: Dict[str, Any]) -> Any:
    """ensures result.val == input.val ; vjp(g) == scale * g ; fresh storage; same shape/dtype."""
    x, s = b["input"], b["scale"]
    _need_tensor(x, "scale_bwd")
    return SymTensor(x.shape, x.dtype, x.val.scale(1), ScaleNode(x.node, z3.RealVal(1), zreal(s)))


# ---------------------------------------------------------------- constraints.py


def spec_gmean(ctx: Any, scales: List[Any]) -> Any:
    p: Any = 1
    for s in scales:
        p = num_binop(ctx, "*", p, s)
    return num_pow(ctx, _fl(p), Fraction(1, len(scales)))


def spec_hmean(ctx: Any, scales: List[Any]) -> Any:
    tot: Any = 0
    for s in scales:
        tot = num_binop(ctx, "+", tot, num_binop(ctx, "/", 1, s))
    return num_binop(ctx, "/", len(scales), tot)


def spec_amean(ctx: Any, scales: List[Any]) -> Any:
    tot: Any = 0
    for s in scales:
        tot = num_binop(ctx, "+", tot, s)
    return num_binop(ctx, "/", tot, len(scales))


def _fl(x: Any) -> Any:
    if isinstance(x, int):
        return Fraction(x)
    if isinstance(x, SV) and x.kind == "int":
        return SV(z3.ToReal(x.z), "real")
    return x


def spec_rule(ctx: Any, name: str, scales: List[Any]) -> Any:
    """The value the named rule assigns to a group of scales (property C05)."""
    n = len(scales)
    if name == "gmean":
        return spec_gmean(ctx, scales)
    if name == "hmean":
        return spec_hmean(ctx, scales)
    if name == "amean":
        return spec_amean(ctx, scales)
    if name == "to_output_scale":
        if n < 1:
            raise PyRaise("TypeError", "arity")
        return scales[0]
    if name == "to_grad_input_scale":
        if n != 2:
            raise PyRaise("TypeError", "arity")
        return scales[1]
    if name == "to_left_grad_scale":
        if n != 3:
            raise PyRaise("TypeError", "arity")
        return scales[1]
    if name == "to_right_grad_scale":
        if n != 3:
            raise PyRaise("TypeError", "arity")
        return scales[2]
    raise PyRaise("ValueError", f"unknown constraint {name}")


def _mean_summary(which: str) -> Callable[..., Any]:
    def f(interp: Any, b: Dict[str, Any]) -> Any:
        scales = list(b["scales"])
        if not scales:
            raise PyRaise("ZeroDivisionError", "mean of no scales")
        return {"gmean": spec_gmean, "hmean": spec_hmean, "amean": spec_amean}[which](interp.ctx, scales)

    return f


def apply_constraint(interp: Any, b: Dict[str, Any]) -> Any:
    """None or "" -> scales unchanged; a documented rule -> len(scales) copies of the rule's
    value; ANY other string -> ValueError (property C05)."""
    name, scales = b["constraint_name"], tuple(b["scales"])
    if name is None or name == "":
        return scales
    if not isinstance(name, str):
        raise OutOfReach("symbolic constraint name (enumerate it)")
    if name not in CONSTRAINT_RULES:
        raise PyRaise("ValueError", f"Constraint: {name} is not a valid constraint")
    v = spec_rule(interp.ctx, name, list(scales))
    return tuple(v for _ in scales)


# ---------------------------------------------------------------- core/functional.py


def logarithmic_interpolation(interp: Any, b: Dict[str, Any]) -> Any:
    """requires lower > 0, upper > 0 (else ValueError: math domain error)
    ensures result == exp(alpha*ln(upper) + (1-alpha)*ln(lower))"""
    ctx = interp.ctx
    alpha, lower, upper = b["alpha"], b["lower"], b["upper"]
    lu = num_log(ctx, _fl(upper))
    ll = num_log(ctx, _fl(lower))
    e = num_binop(ctx, "+", num_binop(ctx, "*", alpha, lu), num_binop(ctx, "*", num_binop(ctx, "-", 1, alpha), ll))
    return num_exp(ctx, e)


class ScaledElementwise:
    """Contract of scale_elementwise: the returned callable h satisfies
    h(x, *a, **k) == scale_fwd(f(scale_bwd(x, gs'), *a, **k), os')
    with (os', gs') = apply_constraint(constraint, os, gs)."""

    def __init__(self, f: Any, os_: Any, gs: Any):
        self.f, self.os, self.gs = f, os_, gs

    def pyvc_call(self, interp: Any, args: List[Any], kwargs: Dict[str, Any]) -> Any:
        if not args:
            raise PyRaise("TypeError", "scaled_f() missing 'input'")
        x = scale_bwd(interp, {"input": args[0], "scale": self.gs})
        y = interp.call(self.f, [x] + list(args[1:]), kwargs)
        return scale_fwd(interp, {"input": y, "scale": self.os})


def scale_elementwise(interp: Any, b: Dict[str, Any]) -> Any:
    os_, gs = apply_constraint(interp, {"constraint_name": b["constraint"], "scales": (b["output_scale"], b["grad_input_scale"])})
    return ScaledElementwise(b["f"], os_, gs)


def rms(interp: Any, b: Dict[str, Any]) -> Any:
    """ensures result == sqrt(mean(x^2, dims, keepdim) + eps)  (in the catalogue's primitive ops)"""
    from pyvc.harness import eval_expr

    names = dict(x=b["x"], dims=b["dims"], keepdim=b["keepdim"], eps=b["eps"])
    return eval_expr(interp, "(x.float().pow(2).mean(dims, keepdim=keepdim) + eps).sqrt().to(x.dtype)", names)


# ---------------------------------------------------------------- functional.py (those that have callers)


def get_broadcast_sizes(interp: Any, b: Dict[str, Any]) -> Any:
    """ensures result[i] == m_i, the positive integer with
    numel(broadcast(args)) == m_i * numel(args[i])   (torch.broadcast_shapes, assumed)"""
    from pyvc import torchmodel

    args = list(b["args"])
    _, mults = torchmodel.broadcast_info(interp.ctx, [a.shape for a in args])
    return tuple(mults)


def linear(interp: Any, b: Dict[str, Any]) -> Any:
    """ensures result == out * F.linear(input, weight, bias)
            grad_input == gin * ref, grad_weight == gw * ref, grad_bias == gw * ref
       where (out, gin) = apply_constraint(constraint, fan_in^-sp0, fan_out^-sp1),
             gw = (numel(input)/fan_in)^-sp2"""
    from pyvc import torchmodel

    ctx = interp.ctx
    x, w, bias, con, sp = b["input"], b["weight"], b["bias"], b["constraint"], b["scale_power"]
    if w.shape.concrete_rank() != 2:
        raise PyRaise("ValueError", "weight must be 2-D")
    fan_out, fan_in = w.shape.segs
    batch = num_binop(ctx, "//", x.shape.numel(ctx), fan_in)
    sp = list(interp.iterate(sp))
    out = num_binop(ctx, "/", 1, num_pow(ctx, fan_in, sp[0]))
    gin = num_binop(ctx, "/", 1, num_pow(ctx, fan_out, sp[1]))
    gw = num_binop(ctx, "/", 1, num_pow(ctx, batch, sp[2]))
    out, gin = apply_constraint(interp, {"constraint_name": con, "scales": (out, gin)})
    x2 = scale_bwd(interp, {"input": x, "scale": gin})
    w2 = scale_bwd(interp, {"input": w, "scale": gw})
    b2 = scale_bwd(interp, {"input": bias, "scale": gw}) if bias is not None else None
    y = torchmodel.F_linear(interp, [x2, w2, b2], {})
    return scale_fwd(interp, {"input": y, "scale": out})


def _tau_weights(ctx: Any, tau: Any) -> Any:
    denom = num_pow(ctx, _fl(num_binop(ctx, "+", 1, num_binop(ctx, "*", tau, tau))), Fraction(1, 2))
    return num_binop(ctx, "/", tau, denom), num_binop(ctx, "/", 1, denom)


def residual_split(interp: Any, b: Dict[str, Any]) -> Any:
    """ensures residual.val == skip.val == input.val ;
               vjp_residual(g) == tau/sqrt(1+tau^2) * g ; vjp_skip(g) == 1/sqrt(1+tau^2) * g"""
    wr, ws = _tau_weights(interp.ctx, b["tau"])
    x = b["input"]
    return (scale_bwd(interp, {"input": x, "scale": wr}), scale_bwd(interp, {"input": x, "scale": ws}))


def residual_add(interp: Any, b: Dict[str, Any]) -> Any:
    """ensures result.val == tau/sqrt(1+tau^2) * residual + 1/sqrt(1+tau^2) * skip ; gradients pass unscaled"""
    from pyvc import torchmodel

    wr, ws = _tau_weights(interp.ctx, b["tau"])
    r = scale_fwd(interp, {"input": b["residual"], "scale": wr})
    s = scale_fwd(interp, {"input": b["skip"], "scale": ws})
    return torchmodel.tensor_binop(interp, "+", r, s)


SUMMARIES: Dict[str, Callable[..., Any]] = {
    S + "scale_fwd": scale_fwd,
    S + "scale_bwd": scale_bwd,
    C + "gmean": _mean_summary("gmean"),
    C + "hmean": _mean_summary("hmean"),
    C + "amean": _mean_summary("amean"),
    C + "apply_constraint": apply_constraint,
    CF + "logarithmic_interpolation": logarithmic_interpolation,
    CF + "scale_elementwise": scale_elementwise,
    CF + "rms": rms,
    UF + "_get_broadcast_sizes": get_broadcast_sizes,
    UF + "linear": linear,
    UF + "residual_split": residual_split,
    UF + "residual_add": residual_add,
}

# one-expression private helpers treated as part of their single caller's body (DESIGN 2.6)
INLINE = [
    S + "_scale",
    S + "_ScaledGrad.forward",
    S + "_ScaledGrad.backward",
    UF + "_unscaled_gelu",
    UF + "_unscaled_silu",
    UF + "_unscaled_softmax",
    UF + "_unscaled_rms_norm",
    C + "to_output_scale",
    C + "to_grad_input_scale",
    C + "to_left_grad_scale",
    C + "to_right_grad_scale",
]
