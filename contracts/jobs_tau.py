"""C07: transformer_residual_scaling_rule and its closure `_tau` (real source), all depths.

ensures  tau > 0  and  tau^2 * S(index) == a(index)^2
  where  a(i) = alpha_attn if i even else alpha_mlp,
         alpha_mlp^2 * (1 + ratio^2) == 2 * mult^2,  alpha_attn == ratio * alpha_mlp,
         S(i) = layers/2 + ((i+1) div 2) * alpha_attn^2 + (i div 2) * alpha_mlp^2
Step facts (the hypotheses of lean/Telescoping.lean):
         S(i+1) == S(i) + a(i)^2       (1 + tau_i^2) * S(i) == S(i+1)
"""
from __future__ import annotations

from typing import Any, Callable, Dict

import z3

from pyvc.harness import Record, lookup_fn, run_config
from pyvc.interp import PathResult
from pyvc.sym import SV, Ctx, zreal

from .common import mk_interp, pos_real
from .registry import Job, register

CF = "unit_scaling.core.functional."


def _spec_S(i: z3.ArithRef, layers: z3.ArithRef, aa2: z3.ArithRef, am2: z3.ArithRef) -> z3.ArithRef:
    return z3.ToReal(layers) / 2 + z3.ToReal((i + 1) / 2) * aa2 + z3.ToReal(i / 2) * am2


def _tau_job(parity: int) -> Callable[[], Record]:
    def run() -> Record:
        qual = CF + "transformer_residual_scaling_rule"
        tag = "C07:core.functional.transformer_residual_scaling_rule"

        def build(ctx: Ctx) -> Any:
            it = mk_interp(ctx, verifying=[qual])
            f = lookup_fn(it, qual)
            mult, ratio = pos_real(ctx, "residual_mult"), pos_real(ctx, "residual_attn_ratio")
            index, layers = ctx.fresh_int("index"), ctx.fresh_int("layers")
            ctx.inputs["index"], ctx.inputs["layers"] = index, layers
            ctx.assume(z3.And(layers.z >= 1, index.z >= 0, index.z < layers.z, index.z % 2 == parity))

            def thunk() -> Any:
                rule = it.call(f, [], {"residual_mult": mult, "residual_attn_ratio": ratio})
                # the rule object is shared by every stack built with the default argument: it must be
                # a pure function of (index, layers) -- state captured in its closure is protected
                env_ = getattr(rule, "env", None)
                while env_ is not None and env_ is not rule.module.env:
                    for v_ in env_.vars.values():
                        if isinstance(v_, (dict, list, set)):
                            ctx.protected[id(v_)] = "state captured by the residual scaling rule (shared between calls)"
                    env_ = env_.parent
                layers0 = ctx.fresh_int("layers_of_an_earlier_call")
                ctx.assume(z3.And(layers0.z > index.z, layers0.z != layers.z))
                it.call(rule, [index, layers0], {})  # an earlier query of the same rule object for another depth
                tau_i = it.call(rule, [index, layers], {})
                tau_n = None
                return tau_i, tau_n, mult, ratio, index, layers

            return it, thunk

        def post(p: PathResult, i: int) -> Any:
            ctx = p.ctx
            if p.outcome != "return":
                ctx.oblige(f"{tag}:no_exception_under_precondition", False, exc=str(p.exc))
                return None
            tau_i, tau_n, mult, ratio, index, layers = p.value
            t, m, r, ix, L = zreal(tau_i), mult.z, ratio.z, index.z, layers.z
            am2 = z3.Real("alpha_mlp_sq")
            aa2 = z3.Real("alpha_attn_sq")
            defs = z3.And(am2 * (1 + r * r) == 2 * m * m, aa2 == r * r * am2)
            a2 = aa2 if parity == 0 else am2
            a2n = am2 if parity == 0 else aa2
            S = _spec_S(ix, L, aa2, am2)
            Sn = _spec_S(ix + 1, L, aa2, am2)
            from .common import frame_obligations

            frame_obligations(ctx, f"{tag}:rule_is_a_pure_function_of_(index,layers)[parity={parity}]")
            ctx.oblige(f"{tag}:tau_positive[parity={parity}]", t > 0)
            ctx.oblige(f"{tag}:tau_sq_times_S_equals_a_sq[parity={parity}]", z3.Implies(defs, t * t * S == a2))
            ctx.oblige(f"{tag}:S_positive[parity={parity}]", z3.Implies(defs, S > 0))
            ctx.oblige(f"{tag}:S_step[parity={parity}]", z3.Implies(defs, Sn == S + a2))
            ctx.lemma(f"{tag}:one_plus_tau_sq_times_S_is_next_S[parity={parity}]", [t * t * S == a2, Sn == S + a2], (1 + t * t) * S == Sn)
            ctx.oblige(f"{tag}:S0_is_half_layers[parity={parity}]", z3.Implies(z3.And(defs, ix == 0), S == z3.ToReal(L) / 2))
            # the requested ratios, on squared quantities
            ctx.oblige(f"{tag}:attn_to_mlp_ratio[parity={parity}]", z3.Implies(defs, aa2 == r * r * am2))
            ctx.oblige(f"{tag}:mean_layer_contribution_vs_embedding[parity={parity}]", z3.Implies(defs, (aa2 + am2) / 2 == m * m))
            return {"index": ix, "layers": L, "residual_mult": m, "residual_attn_ratio": r}

        return run_config(qual, {"index_parity": parity}, build, post)

    return run


for _p in (0, 1):
    # C08: TransformerStack / TransformerDecoder use ONE rule object (a default argument) for every model
    # built in the process -- their delegation to the functional form depends on the rule being pure
    register(Job(f"c07:tau_rule[parity={_p}]", ["C07", "C08"], CF + "transformer_residual_scaling_rule", {"index_parity": _p}, _tau_job(_p), shared=True))
