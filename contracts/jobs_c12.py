"""C12: width-independent updates -- a lemma over the real code of three parts that must
agree: the layer's output scale (functional.linear / linear_readout / conv1d), the u-muP tag
its module gives the weight (_modules.py) and the Adam learning-rate factor for that tag and
shape (optim.py).  With |x_i| = 1 and Adam's first step dW = -lr * sign(grad_W) (assumed,
validated: group optim), grad_W[j,i] = b * g_j * x_i with b > 0 (C02), so
   |dy_j| = out_scale * lr_factor * eta * sum_i |x_i| = out_scale * lr_factor * fan * eta.
Obligation:  out_scale * lr_factor * fan == depth^-1/2   (== 1 without depth)."""
from __future__ import annotations

from fractions import Fraction
from typing import Any, Callable, Dict

import z3

from pyvc import nnmodel
from pyvc.harness import Record, eval_expr, lc_ratio, lookup_fn, run_config
from pyvc.interp import PathResult
from pyvc.sym import SV, Ctx, zreal
from pyvc.tensor import Run, Shape, SymTensor

from .common import dim, leaf, mk_interp
from .jobs_modules import class_methods, s_Parameter
from .registry import Job, register

M = "unit_scaling._modules."
UF = "unit_scaling.functional."
O = "unit_scaling.optim."


def _c12_job(layer: str, constraint: str, depth: str) -> Callable[[], Record]:
    def run() -> Record:
        tag = f"C12:{layer}[constraint={constraint},depth={depth}]"
        cls = {"Linear": "Linear", "LinearReadout": "LinearReadout", "Conv1d": "Conv1d"}[layer]
        verifying = class_methods(cls) + class_methods("Linear") + [UF + "conv1d", UF + "linear_readout", O + "lr_scale_func_adam"]

        def build(ctx: Ctx) -> Any:
            it = mk_interp(ctx, verifying=verifying, extra_contracts={"unit_scaling.parameter.Parameter": s_Parameter}, hook=nnmodel.hook)
            C = lookup_fn(it, M + cls)
            fi, fo = dim(ctx, "fan_in"), dim(ctx, "fan_out")
            kw: Dict[str, Any] = {}
            if constraint != "default":
                kw["constraint"] = None
            if layer == "Conv1d":
                K = dim(ctx, "kernel_size")
                pos = [fi, fo, K]
                x = leaf(ctx, "input", Shape([dim(ctx, "batch"), fi, K]))  # single output position
                fan = SV(fi.z * K.z, "int")
            else:
                pos = [fi, fo]
                x = leaf(ctx, "input", Shape([Run(ctx, "batch"), fi]))
                fan = fi

            def thunk() -> Any:
                mod = it.call(C, pos, kw)
                w = mod.attrs["weight"]
                if depth == "int":
                    d = dim(ctx, "depth")
                    w.attrs["mup_scaling_depth"] = d  # what a depth container records (C08)
                else:
                    d = None
                out = it.call(mod, [x], {})
                ref = eval_expr(it, "F.conv1d(input, weight)" if layer == "Conv1d" else "F.linear(input, weight)", {"input": x, "weight": w})
                factor = it.call(lookup_fn(it, O + "lr_scale_func_adam"), [w], {})
                return out, ref, factor, fan, d, w

            return it, thunk

        def post(p: PathResult, i: int) -> Any:
            ctx = p.ctx
            if p.outcome != "return":
                ctx.oblige(f"{tag}:no_exception", False, exc=str(p.exc))
                return None
            out, ref, factor, fan, d, w = p.value
            k, goal = lc_ratio(ctx, out.val, ref.val)
            ctx.oblige(f"{tag}:module_output_is_k_times_torch", goal)
            if k is None:
                return None
            f = zreal(factor)
            lhs = k * f * zreal(fan)
            ctx.oblige(f"{tag}:tag_is_{'output' if layer == 'LinearReadout' else 'weight'}", w.attrs.get("mup_type") == ("output" if layer == "LinearReadout" else "weight"))
            if d is None:
                ctx.oblige(f"{tag}:out_scale*lr_factor*fan==1(update_size_eta)", lhs == 1, k=str(k)[:120], factor=str(f)[:120])
            else:
                ctx.oblige(f"{tag}:out_scale*lr_factor*fan==depth^-1/2(update_size_eta/sqrt(depth))", z3.And(lhs > 0, lhs * lhs * zreal(d) == 1), k=str(k)[:120], factor=str(f)[:120])
            return {"fan_in": zreal(fan), "k": k, "lr_factor": f}

        return run_config(M + cls, {"layer": layer, "constraint": constraint, "depth": depth}, build, post)

    return run


for _l in ("Linear", "LinearReadout", "Conv1d"):
    for _c in ("default", "None"):
        for _d in ("None", "int"):
            register(Job(f"c12:{_l}[constraint={_c},depth={_d}]", ["C12"], M + _l, {"layer": _l, "constraint": _c, "depth": _d}, _c12_job(_l, _c, _d)))
