"""C10 / C11 (and the lr part of C12): unit_scaling/optim.py and parameter.has_parameter_data.

Spec table transcribed from the property statement (C10):
  Adam/AdamW and SGD(readout None):  weight -> fan_in^-1/2 ; bias, norm, output -> 1
  SGD(readout "to_output_scale"):    weight -> fan_in^1/2  ; bias, norm -> length ; output -> 1
  each multiplied by depth^-1/2 when a depth is recorded;
  fan_in = shape[0] (1-D), shape[1] (2-D), shape[1]*shape[2] (3-D); >= 4-D -> ValueError.
"""
from __future__ import annotations

from fractions import Fraction
from typing import Any, Callable, Dict, List, Optional

import z3

from pyvc import tensor as tz
from pyvc import torchmodel
from pyvc.harness import GenericSeq, Record, compare_values, lookup_fn, run_config
from pyvc.interp import Builtin, ExtClass, ObjVal, PathResult
from pyvc.sym import SB, SV, Ctx, OutOfReach, PyRaise, num_binop, num_cmp, num_pow, zint, zreal
from pyvc.tensor import DTYPES, LinComb, Opaque, Run, Shape, SymTensor

from .common import any_real, dim, frame_obligations, leaf, mk_interp, opaque, pos_real
from .registry import Job, register
from .summaries import SUMMARIES, _fl

O = "unit_scaling.optim."
P = "unit_scaling.parameter."
MUP_TYPES = ("weight", "bias", "norm", "output")


# ---------------------------------------------------------------- contracts (summaries)


def tagged(p: Any) -> bool:
    if not isinstance(p, SymTensor):
        return False
    mt = p.attrs.get("mup_type", None)
    if not (isinstance(mt, str) and mt in MUP_TYPES):
        return False
    if "mup_scaling_depth" not in p.attrs:
        return False
    d = p.attrs["mup_scaling_depth"]
    return d is None or isinstance(d, int) or (isinstance(d, SV) and d.kind == "int")


def s_has_parameter_data(interp: Any, b: Dict[str, Any]) -> Any:
    """ensures result == (mup_type is one of the four tags and mup_scaling_depth present, None or int)"""
    return tagged(b["parameter"])


def spec_fan_in(ctx: Ctx, shape: Shape) -> Any:
    rank = shape.concrete_rank()
    if rank == 1:
        return shape.segs[0]
    if rank == 2:
        return shape.segs[1]
    if rank == 3:
        return num_binop(ctx, "*", shape.segs[1], shape.segs[2])
    raise PyRaise("ValueError", "Cannot get fan_in of ndim >= 4 param")


def s_get_fan_in(interp: Any, b: Dict[str, Any]) -> Any:
    p = b["param"]
    sh = p.shape
    if sh.concrete_rank() is None:
        # symbolic rank: only the >= 4 case is modelled that way
        ln = sh.length(interp.ctx)
        if interp.ctx.branch(num_cmp(">=", ln, 4)):
            raise PyRaise("ValueError", "Cannot get fan_in of ndim >= 4 param")
        raise OutOfReach("symbolic rank < 4")
    return spec_fan_in(interp.ctx, sh)


def spec_depth_factor(ctx: Ctx, p: SymTensor) -> Any:
    d = p.attrs["mup_scaling_depth"]
    if d is None:
        return 1
    return num_pow(ctx, d, Fraction(-1, 2))


def s_lr_scale_for_depth(interp: Any, b: Dict[str, Any]) -> Any:
    return spec_depth_factor(interp.ctx, b["param"])


def spec_lr_factor(ctx: Ctx, p: SymTensor, mode: str) -> Any:
    """mode: 'adam' (also SGD with readout None) | 'sgd_output'"""
    mt = p.attrs["mup_type"]
    depth = spec_depth_factor(ctx, p)
    if mt not in MUP_TYPES:
        raise PyRaise("AssertionError", "Unexpected mup_type")
    if mode == "adam":
        if mt == "weight":
            return num_binop(ctx, "*", depth, num_pow(ctx, spec_fan_in(ctx, p.shape), Fraction(-1, 2)))
        return depth
    if mt in ("bias", "norm"):
        return num_binop(ctx, "*", depth, p.shape.getitem(ctx, 0))
    if mt == "weight":
        return num_binop(ctx, "*", depth, num_pow(ctx, spec_fan_in(ctx, p.shape), Fraction(1, 2)))
    return depth


def s_lr_scale_func_adam(interp: Any, b: Dict[str, Any]) -> Any:
    return spec_lr_factor(interp.ctx, b["param"], "adam")


class SgdOutputRule:
    def pyvc_call(self, interp: Any, args: List[Any], kwargs: Dict[str, Any]) -> Any:
        return spec_lr_factor(interp.ctx, args[0] if args else kwargs["param"], "sgd_output")


def s_lr_scale_func_sgd(interp: Any, b: Dict[str, Any]) -> Any:
    rc = b["readout_constraint"]
    if rc is None:
        return lookup_fn(interp, O + "lr_scale_func_adam")
    if rc == "to_output_scale":
        return SgdOutputRule()
    raise PyRaise("AssertionError", "Unhandled readout constraint")


class RecordedCall:
    def __init__(self, name: str, bound: Dict[str, Any]):
        self.name = name
        self.bound = bound


def s_scaled_parameters(interp: Any, b: Dict[str, Any]) -> Any:
    """call-site contract used only by the optimizer constructors: the groups are a
    function of the arguments (details: obligations on scaled_parameters itself)"""
    return RecordedCall("scaled_parameters", dict(b))


SUMMARIES.update(
    {
        P + "has_parameter_data": s_has_parameter_data,
        O + "_get_fan_in": s_get_fan_in,
        O + "lr_scale_for_depth": s_lr_scale_for_depth,
        O + "lr_scale_func_adam": s_lr_scale_func_adam,
        O + "lr_scale_func_sgd": s_lr_scale_func_sgd,
        O + "scaled_parameters": s_scaled_parameters,
    }
)


# ---------------------------------------------------------------- parameters


def mk_param(ctx: Ctx, rank: Any, mup_type: Any, depth: str, name: str = "param") -> SymTensor:
    if rank == "ge4":
        sh = Shape([Run(ctx, name + "_dims", min_len=4)])
    else:
        sh = Shape([dim(ctx, f"{name}_d{i}") for i in range(rank)])
    p = leaf(ctx, name, sh)
    p.is_parameter = True
    if mup_type != "<untagged>":
        p.attrs["mup_type"] = mup_type
        if depth == "None":
            p.attrs["mup_scaling_depth"] = None
        elif depth == "int":
            d = ctx.fresh_int(name + "_depth")
            ctx.assume(d.z >= 1)
            ctx.inputs[name + "_depth"] = d
            p.attrs["mup_scaling_depth"] = d
        elif depth == "missing":
            pass
        elif depth == "float":
            p.attrs["mup_scaling_depth"] = pos_real(ctx, name + "_depth")
    return p


def _expected_sq(ctx: Ctx, p: SymTensor, mode: str) -> Any:
    """(numerator, denominator) with factor^2 * den == num, from the statement's table"""
    mt = p.attrs["mup_type"]
    d = p.attrs["mup_scaling_depth"]
    den: Any = 1 if d is None else d
    numr: Any = 1
    rank = p.shape.concrete_rank()
    if mt == "weight":
        fi = p.shape.segs[0] if rank == 1 else p.shape.segs[1] if rank == 2 else num_binop(ctx, "*", p.shape.segs[1], p.shape.segs[2])
        if mode == "adam":
            den = num_binop(ctx, "*", den, fi)
        else:
            numr = fi
    elif mt in ("bias", "norm") and mode == "sgd_output":
        numr = num_binop(ctx, "*", p.shape.segs[0], p.shape.segs[0])
    return numr, den


def _lr_func_job(which: str, rank: Any, mup_type: str, depth: str) -> Callable[[], Record]:
    """which: adam | sgd_none | sgd_output | sgd_other"""

    def run() -> Record:
        qual = O + ("lr_scale_func_adam" if which == "adam" else "lr_scale_func_sgd")
        tag = f"C10:optim.{qual.rsplit('.', 1)[-1]}"
        verifying = [qual]

        def build(ctx: Ctx) -> Any:
            it = mk_interp(ctx, verifying=verifying)
            p = mk_param(ctx, rank, mup_type, depth)
            f = lookup_fn(it, qual)

            def thunk() -> Any:
                if which == "adam":
                    return it.call(f, [p], {}), p
                rc = {"sgd_none": None, "sgd_output": "to_output_scale", "sgd_other": "to_grad_input_scale"}[which]
                inner = it.call(f, [rc], {})
                if which == "sgd_none":
                    adam = lookup_fn(it, O + "lr_scale_func_adam")
                    ctx.oblige(f"{tag}:readout_None_is_the_adam_rule", inner is adam)
                    # its behaviour is then the adam rule's contract
                    return it.call(inner, [p], {}), p
                return it.call(inner, [p], {}), p

            return it, thunk

        def post(pr: PathResult, i: int) -> Any:
            ctx = pr.ctx
            wit = {k: v.z for k, v in ctx.inputs.items() if isinstance(v, SV)}
            bad_type = mup_type not in MUP_TYPES
            expect_exc = None
            if which == "sgd_other":
                expect_exc = "AssertionError"
            elif bad_type:
                expect_exc = "AssertionError"
            elif rank == "ge4" and mup_type == "weight":
                expect_exc = "ValueError"
            elif rank == "ge4" and which == "sgd_output" and mup_type in ("bias", "norm"):
                expect_exc = None
            if pr.outcome == "raise":
                ctx.oblige(f"{tag}:raises[{which}]", pr.exc is not None and pr.exc.exc == expect_exc, got=str(pr.exc), want=str(expect_exc))
                return wit
            if expect_exc is not None:
                ctx.oblige(f"{tag}:raises[{which}]", False, got="returned", want=expect_exc)
                return wit
            r, p = pr.value
            if rank == "ge4":
                ctx.oblige(f"{tag}:factor[{which}]", True)
                return wit
            mode = "adam" if which in ("adam", "sgd_none") else "sgd_output"
            numr, den = _expected_sq(ctx, p, mode)
            rz = zreal(r)
            ctx.oblige(f"{tag}:factor_positive[{which}]", rz > 0)
            ctx.oblige(f"{tag}:factor_squared_matches_u-muP_table[{which}]", rz * rz * zreal(den) == zreal(numr), factor=str(rz)[:200], expected=f"sqrt({numr}/{den})")
            wit["factor"] = rz
            return wit

        return run_config(qual, {"which": which, "rank": rank, "mup_type": mup_type, "depth": depth}, build, post)

    return run


for _which in ("adam", "sgd_none", "sgd_output"):
    for _rank in (1, 2, 3, "ge4"):
        for _mt in MUP_TYPES + ("other_tag",):
            for _d in ("None", "int"):
                register(Job(f"c10:lr_rule[{_which},rank={_rank},{_mt},depth={_d}]", ["C10", "C12"], O + "lr_scale_func", {"which": _which, "rank": _rank, "mup_type": _mt, "depth": _d}, _lr_func_job(_which, _rank, _mt, _d)))
register(Job("c10:lr_rule[sgd_other]", ["C10"], O + "lr_scale_func_sgd", {"which": "sgd_other"}, _lr_func_job("sgd_other", 2, "weight", "None")))


def _helper_job(fn: str, rank: Any, mup_type: str, depth: str) -> Callable[[], Record]:
    from .jobs_core import body_vs_contract

    def run() -> Record:
        def make(ctx: Ctx) -> Any:
            return {"p": mk_param(ctx, rank, mup_type, depth)}

        return body_vs_contract("C10", (P if fn == "has_parameter_data" else O) + fn, {"rank": rank, "mup_type": mup_type, "depth": depth}, make, call_with=lambda a: ([a["p"]], {}))

    return run


for _rank in (1, 2, 3, "ge4"):
    register(Job(f"c10:_get_fan_in[rank={_rank}]", ["C10", "C12"], O + "_get_fan_in", {"rank": _rank}, _helper_job("_get_fan_in", _rank, "weight", "None")))
for _d in ("None", "int"):
    register(Job(f"c10:lr_scale_for_depth[{_d}]", ["C10", "C12"], O + "lr_scale_for_depth", {"depth": _d}, _helper_job("lr_scale_for_depth", 2, "weight", _d)))
for _mt in MUP_TYPES + ("other_tag", "<untagged>"):
    for _d in ("None", "int", "missing", "float"):
        register(Job(f"c10:has_parameter_data[{_mt},{_d}]", ["C10", "C09", "C11", "C08"], P + "has_parameter_data", {"mup_type": _mt, "depth": _d}, _helper_job("has_parameter_data", 2, _mt, _d)))


# ---------------------------------------------------------------- scaled_parameters (C10 + C11)


class PrefixMarker:
    """stands for the groups appended by earlier loop iterations (loop invariant)"""

    def __init__(self, name: str):
        self.name = name


class FactorFun:
    """an arbitrary lr_scale_func: positive real, a function of the parameter"""

    def pyvc_call(self, interp: Any, args: List[Any], kwargs: Dict[str, Any]) -> Any:
        f = z3.Function("lr_factor", tz.T, z3.RealSort())
        p = args[0]
        v = f(p.val.terms[0][0])
        interp.ctx.axiom(v > 0)
        return SV(v, "real")


def _sp_job(cfg: Dict[str, Any]) -> Callable[[], Record]:
    """One generic iteration of both loops of scaled_parameters, from an arbitrary earlier
    state (preservation of the invariant
       result == concat over processed entries e of [mk(e, p) for p in params(e)]),
    with initiation (result == [] at loop entry) and use (the list returned)."""

    def run() -> Record:
        qual = O + "scaled_parameters"
        tag = "optim.scaled_parameters"
        entry_kind, lr_kind, glr_kind = cfg["entry"], cfg["group_lr"], cfg["global_lr"]
        is_tagged, allow, indep = cfg["tagged"], cfg["allow"], cfg["independent"]

        def mk_lr(ctx: Ctx, kind: str, name: str) -> Any:
            if kind == "absent":
                return None
            if kind == "float":
                return pos_real(ctx, name)
            t = leaf(ctx, name, Shape([]))
            iv = z3.Function("item", tz.T, z3.RealSort())(t.val.terms[0][0])
            ctx.assume(iv > 0)
            return t

        def build(ctx: Ctx) -> Any:
            it = mk_interp(ctx, verifying=[qual])
            f = lookup_fn(it, qual)
            p = mk_param(ctx, 2, "weight" if is_tagged else "<untagged>", "int")
            state: Dict[str, Any] = {"init_ok": True}
            glr = mk_lr(ctx, glr_kind, "global_lr")
            gwd = any_real(ctx, "global_weight_decay")
            ctx.assume(gwd.z >= 0)

            def enter_inner(interp: Any, env: Any) -> None:
                res = env.lookup("result")
                res.append(PrefixMarker("earlier params of this group"))

            if entry_kind == "tensor":
                entry: Any = p
                src_lr, src_wd = glr, gwd
                params_obj = None
            else:
                params_obj = GenericSeq(p, enter_inner, "group['params']")
                entry = {"params": params_obj}
                src_lr, src_wd = glr, gwd
                if lr_kind != "absent":
                    entry["lr"] = mk_lr(ctx, lr_kind, "group_lr")
                    src_lr = entry["lr"]
                if cfg["group_wd"]:
                    w = any_real(ctx, "group_weight_decay")
                    ctx.assume(w.z >= 0)
                    entry["weight_decay"] = w
                    src_wd = w
                entry["betas"] = opaque(ctx, "betas")
                entry["momentum"] = opaque(ctx, "momentum")
                ctx.protected[id(entry)] = "caller's parameter group dict"
            entry_snapshot = dict(entry) if isinstance(entry, dict) else None

            def enter_outer(interp: Any, env: Any) -> None:
                res = env.lookup("result")
                state["init_ok"] = isinstance(res, list) and len(res) == 0
                res.append(PrefixMarker("groups of earlier entries"))

            params = GenericSeq(entry, enter_outer, "params")
            factor = FactorFun()

            def thunk() -> Any:
                out = it.call(f, [params, factor], {"lr": glr, "weight_decay": gwd, "independent_weight_decay": indep, "allow_non_unit_scaling_params": allow})
                return out, p, entry, entry_snapshot, src_lr, src_wd, state, factor, params_obj

            return it, thunk

        def post(pr: PathResult, i: int) -> Any:
            ctx = pr.ctx
            it = pr.interp
            wit = {k: v.z for k, v in ctx.inputs.items() if isinstance(v, SV)}
            no_lr = (lr_kind == "absent" or entry_kind == "tensor") and glr_kind == "absent"
            expect_exc = None
            if no_lr:
                expect_exc = "ValueError"
            elif not is_tagged and not allow:
                expect_exc = "ValueError"
            if pr.outcome == "raise":
                ok = pr.exc is not None and pr.exc.exc == expect_exc
                ctx.oblige(f"C10:{tag}:error_cases", ok, got=str(pr.exc), want=str(expect_exc))
                return wit
            if expect_exc is not None:
                ctx.oblige(f"C10:{tag}:error_cases", False, got="returned", want=expect_exc)
                return wit
            out, p, entry, snap, src_lr, src_wd, state, factor, params_obj = pr.value
            ctx.oblige(f"C11:{tag}:loop_invariant_initiation_result_empty", bool(state["init_ok"]))
            n_markers = 1 if entry_kind == "tensor" else 2
            shape_ok = isinstance(out, list) and len(out) == n_markers + 1 and all(isinstance(x, PrefixMarker) for x in out[:n_markers]) and isinstance(out[-1], dict)
            ctx.oblige(f"C11:{tag}:each_parameter_appends_exactly_one_group_after_earlier_ones", shape_ok, result=str(out)[:200])
            if not shape_ok:
                return wit
            if params_obj is not None:
                ctx.oblige(f"C11:{tag}:group_params_iterated_once", params_obj.entered == 1)
            G = out[-1]
            ctx.oblige(f"C11:{tag}:group_holds_exactly_this_parameter", isinstance(G.get("params"), list) and len(G["params"]) == 1 and G["params"][0] is p)
            extra = {k for k in (snap or {}) if k not in ("params", "lr", "weight_decay")}
            ctx.oblige(f"C11:{tag}:group_keys_are_params_lr_wd_plus_source_options", set(G.keys()) == {"params", "lr", "weight_decay"} | extra, keys=sorted(map(str, G.keys())))
            for k in sorted(extra):
                ctx.oblige(f"C11:{tag}:other_option_carried_over[{k}]", G[k] is snap[k])
            # ---- learning rate (C10)
            fz = zreal(factor.pyvc_call(it, [p], {})) if is_tagged else z3.RealVal(1)
            lr = G["lr"]

            def as_real(v: Any) -> Any:
                if isinstance(v, SymTensor):
                    return zreal(torchmodel.tensor_item(it, v))
                return zreal(v)

            ctx.oblige(f"C10:{tag}:group_lr_is_source_lr_times_factor", as_real(lr) == as_real(src_lr) * fz, lr=str(lr)[:200])
            ctx.oblige(f"C10:{tag}:lr_kind_preserved(float_or_tensor)", isinstance(lr, SymTensor) == isinstance(src_lr, SymTensor))
            if isinstance(src_lr, SymTensor) and is_tagged:
                ctx.oblige(f"C11:{tag}:scaled_tensor_lr_is_a_fresh_tensor", isinstance(lr, SymTensor) and lr.storage is not src_lr.storage and lr is not src_lr)
            # ---- weight decay (C11)
            wd = zreal(G["weight_decay"])
            if indep:
                ctx.oblige(f"C11:{tag}:independent_weight_decay_lr_times_wd_is_requested_decay", as_real(lr) * wd == zreal(src_wd))
            else:
                ctx.oblige(f"C11:{tag}:weight_decay_passed_through", wd == zreal(src_wd))
            # ---- frame
            if snap is not None:
                same = set(entry.keys()) == set(snap.keys()) and all(entry[k] is snap[k] for k in snap)
                ctx.oblige(f"C11:{tag}:callers_group_dict_unchanged", same)
            frame_obligations(ctx, f"C11:{tag}:frame_no_caller_state_written")
            return wit

        return run_config(qual, cfg, build, post)

    return run


def _sp_configs() -> List[Dict[str, Any]]:
    out = []
    for entry in ("tensor", "dict"):
        for glr in ("absent", "float", "tensor"):
            for lr in (("absent",) if entry == "tensor" else ("absent", "float", "tensor")):
                for tagged_ in (True, False):
                    for allow in (False, True):
                        for indep in (True, False):
                            for gwd in ((False,) if entry == "tensor" else (False, True)):
                                out.append({"entry": entry, "global_lr": glr, "group_lr": lr, "tagged": tagged_, "allow": allow, "independent": indep, "group_wd": gwd})
    return out


for _cfg in _sp_configs():
    _k = "c11:scaled_parameters[" + ",".join(f"{k}={_cfg[k]}" for k in sorted(_cfg)) + "]"
    register(Job(_k, ["C10", "C11", "C12"], O + "scaled_parameters", _cfg, _sp_job(_cfg), shared=True))


def _sp_initiation_use_job() -> Record:
    """Zero iterations: an empty iterable yields an empty list (initiation + use)."""
    qual = O + "scaled_parameters"

    def build(ctx: Ctx) -> Any:
        it = mk_interp(ctx, verifying=[qual])
        f = lookup_fn(it, qual)
        return it, lambda: it.call(f, [[], FactorFun()], {"lr": pos_real(ctx, "lr")})

    def post(pr: PathResult, i: int) -> Any:
        pr.ctx.oblige("C11:optim.scaled_parameters:empty_input_gives_empty_result", pr.outcome == "return" and isinstance(pr.value, list) and pr.value == [])
        return None

    return run_config(qual, {"params": "[]"}, build, post)


register(Job("c11:scaled_parameters[empty]", ["C11", "C10"], O + "scaled_parameters", {"params": "[]"}, _sp_initiation_use_job))


# ---------------------------------------------------------------- optimizer subclasses


def _optim_hook(interp: Any, name: str) -> Any:
    if name == "torch.optim":
        def base_init(kind: str) -> Callable[..., Any]:
            def init(it: Any, args: List[Any], kwargs: Dict[str, Any]) -> Any:
                obj = args[0]
                obj.attrs["__base_init__"] = (kind, list(args[1:]), dict(kwargs))
                return None

            return init

        return {k: ExtClass(k, (), {"__init__": base_init(k)}) for k in ("SGD", "Adam", "AdamW")}
    if name == "torch.optim.optimizer":
        return {}
    return None


def _optim_class_job(cls: str, rc: Any) -> Callable[[], Record]:
    def run() -> Record:
        qual = O + cls + ".__init__"
        tag = f"C10:optim.{cls}.__init__"

        def build(ctx: Ctx) -> Any:
            it = mk_interp(ctx, verifying=[qual], hook=_optim_hook)
            C = lookup_fn(it, O + cls)
            params = opaque(ctx, "params")
            lr = pos_real(ctx, "lr")
            wd = any_real(ctx, "weight_decay")
            indep, allow = opaque(ctx, "independent_weight_decay"), opaque(ctx, "allow_non_unit_scaling_params")
            extra_pos = opaque(ctx, "momentum_positional")
            extra_kw = opaque(ctx, "nesterov")
            kw = {"weight_decay": wd, "independent_weight_decay": indep, "allow_non_unit_scaling_params": allow, "nesterov": extra_kw}
            if cls == "SGD":
                kw["readout_constraint"] = rc

            def thunk() -> Any:
                obj = it.call(C, [params, lr, extra_pos], kw)
                return obj, params, lr, wd, indep, allow, extra_pos, extra_kw

            return it, thunk

        def post(pr: PathResult, i: int) -> Any:
            ctx = pr.ctx
            it = pr.interp
            if pr.outcome != "return":
                ok = cls == "SGD" and rc not in (None, "to_output_scale") and pr.exc is not None and pr.exc.exc == "AssertionError"
                ctx.oblige(f"{tag}:no_exception", ok, exc=str(pr.exc))
                return None
            obj, params, lr, wd, indep, allow, extra_pos, extra_kw = pr.value
            kind, bargs, bkw = obj.attrs.get("__base_init__", (None, [], {}))
            ctx.oblige(f"{tag}:base_class_constructed", kind == cls)
            rec = bargs[0] if bargs else None
            ok = isinstance(rec, RecordedCall)
            ctx.oblige(f"{tag}:base_receives_scaled_parameter_groups", ok)
            if ok:
                b = rec.bound
                ctx.oblige(f"{tag}:forwards_params", b["params"] is params)
                ctx.oblige(f"{tag}:forwards_lr", b["lr"] is lr)
                ctx.oblige(f"{tag}:forwards_weight_decay", b["weight_decay"] is wd)
                ctx.oblige(f"{tag}:forwards_independent_weight_decay", b["independent_weight_decay"] is indep)
                ctx.oblige(f"{tag}:forwards_allow_non_unit_scaling_params", b["allow_non_unit_scaling_params"] is allow)
                fn = b["lr_scale_func"]
                adam = lookup_fn(it, O + "lr_scale_func_adam")
                if cls == "SGD" and rc == "to_output_scale":
                    ctx.oblige(f"{tag}:uses_sgd_output_scaled_readout_rule", isinstance(fn, SgdOutputRule))
                else:
                    ctx.oblige(f"{tag}:uses_adam_rule", fn is adam)
            ctx.oblige(f"{tag}:extra_positional_args_forwarded", len(bargs) == 2 and bargs[1] is extra_pos)
            ctx.oblige(f"{tag}:extra_keyword_args_forwarded_without_lr_or_weight_decay", set(bkw.keys()) == {"nesterov"} and bkw.get("nesterov") is extra_kw, keys=sorted(bkw.keys()))
            return None

        return run_config(qual, {"class": cls, "readout_constraint": rc}, build, post)

    return run


for _cls, _rcs in (("SGD", (None, "to_output_scale", "gmean")), ("Adam", (None,)), ("AdamW", (None,))):
    for _rc in _rcs:
        register(Job(f"c10:{_cls}.__init__[rc={_rc}]", ["C10", "C12"], O + _cls + ".__init__", {"readout_constraint": _rc}, _optim_class_job(_cls, _rc)))
