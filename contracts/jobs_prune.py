"""C19: graph pruning helpers of transforms/_track_scales.py under the assumed fx contracts
(pyvc/fxmodel.py).  FX arguments are arbitrary nestings of tuples / lists / dicts / slices
over nodes; `users` is deep (assumed, validated)."""
from __future__ import annotations

from fractions import Fraction
from typing import Any, Callable, Dict, List, Optional, Tuple

import z3

from pyvc import fxmodel
from pyvc.fxmodel import FxGraph, FxNode, map_arg, nodes_in
from pyvc.harness import Record, lookup_fn, run_config
from pyvc.interp import Builtin, ObjVal, PathResult
from pyvc.sym import SB, SV, Ctx, PyRaise, zreal

from .common import any_real, mk_interp, opaque, pos_real
from .registry import Job, register

TS = "unit_scaling.transforms._track_scales."


def _hook(interp: Any, name: str) -> Any:
    r = fxmodel.hook(interp, name)
    if name == "torch.fx.node":
        r = dict(r or {})
        r["map_arg"] = Builtin("torch.fx.node.map_arg", lambda it, a, k: map_arg(a[0], lambda n: it.call(a[1], [n], {})))
    if name == "copy":
        r = dict(r or {})
        r["deepcopy"] = Builtin("copy.deepcopy", fxmodel.b_deepcopy)
    if name == "tabulate":
        r = {"tabulate": Builtin("tabulate", lambda it, a, k: None)}
    if name in ("torch.utils._pytree", "torch.utils"):
        # ASSUMED torch.utils._pytree: containers are tuple / list / dict; everything else (slices
        # included) is a LEAF
        def tree_map_only(it: Any, a: List[Any], k: Dict[str, Any]) -> Any:
            ty, fn, tree = a[0], a[1], a[2]

            def rec(x: Any) -> Any:
                if isinstance(x, tuple):
                    return tuple(rec(y) for y in x)
                if isinstance(x, list):
                    return [rec(y) for y in x]
                if isinstance(x, dict):
                    return {kk: rec(v) for kk, v in x.items()}
                if isinstance(x, FxNode):
                    return it.call(fn, [x], {})
                return x

            return rec(tree)

        def tree_map(it: Any, a: List[Any], k: Dict[str, Any]) -> Any:
            return tree_map_only(it, [None, a[0], a[1]], k)

        ents = {"tree_map_only": Builtin("tree_map_only", tree_map_only), "tree_map": Builtin("tree_map", tree_map)}
        if name == "torch.utils":
            from pyvc.torchmodel import _mod

            return {"_pytree": _mod("torch.utils._pytree", ents)}
        return ents
    return r


USER_SHAPES = {
    "positional": lambda n, o: ((n, o), {}),
    "keyword": lambda n, o: ((o,), {"other": n}),
    "both": lambda n, o: ((n,), {"again": n}),
    "nested_list": lambda n, o: (([o, n],), {"dim": 0}),
    "nested_tuple_in_kwarg": lambda n, o: ((o,), {"tensors": (n, o)}),
    "index_tuple": lambda n, o: ((o, (slice(None), n)), {}),
    "slice_bound": lambda n, o: ((o, slice(None, n)), {}),
    "dict_value": lambda n, o: ((o,), {"m": {"k": n}}),
}


def _prune_job(shape: str, replacement: str, user_is_output: bool) -> Callable[[], Record]:
    def run() -> Record:
        qual = TS + "_prune"
        tag = "C19:transforms._track_scales._prune"

        def build(ctx: Ctx) -> Any:
            it = mk_interp(ctx, verifying=[qual], hook=_hook)
            g = FxGraph()
            x = g.add("placeholder", "x", name="x")
            o = g.add("call_function", "other_op", (x,), {}, name="other")
            node = g.add("call_function", "pruned_op", (x,), {}, name="pruned")
            if user_is_output:
                user = g.add("output", "output", ((node, o),) if shape == "positional" else ((o, [node]),), {}, name="output")
            else:
                a, k = USER_SHAPES[shape](node, o)
                user = g.add("call_function", "consumer", a, k, name="consumer")
                g.add("output", "output", ((user,),), {}, name="output")
            second = None
            if not user_is_output:
                second = g.add("call_function", "second_consumer", (node,), {}, name="second") if shape == "positional" else None
            rep = x if replacement == "node" else None
            old = {id(u): (u._args, u._kwargs) for u in node.users_list()}
            users = node.users_list()

            def thunk() -> Any:
                it.call(lookup_fn(it, qual), [g, node] + ([rep] if replacement != "default" else []), {})
                return g, node, rep, users, old

            return it, thunk

        def post(p: PathResult, i: int) -> Any:
            ctx = p.ctx
            cfgs = f"[{shape},replacement={replacement},user_is_output={user_is_output}]"
            if p.outcome != "return":
                ctx.oblige(f"{tag}:never_raises{cfgs}", False, exc=str(p.exc))
                return None
            g, node, rep, users, old = p.value
            ctx.oblige(f"{tag}:never_raises{cfgs}", True)
            ctx.oblige(f"{tag}:node_removed{cfgs}", node.erased and not any(n is node for n in g.nodes))
            ok = True
            for u in users:
                a0, k0 = old[id(u)]
                want = (map_arg(a0, lambda n: rep if n is node else n), map_arg(k0, lambda n: rep if n is node else n))
                if not _deep_same(want, (u._args, u._kwargs)):
                    ok = False
            ctx.oblige(f"{tag}:every_user_argument_is_the_deep_substitution_node->replacement{cfgs}", ok)
            ctx.oblige(f"{tag}:no_dangling_reference_to_the_removed_node{cfgs}", not any(m is node for n in g.nodes for m in nodes_in((n._args, n._kwargs))))
            try:
                g.lint(p.interp)
                ctx.oblige(f"{tag}:graph_well_formed{cfgs}", True)
            except PyRaise as e:
                ctx.oblige(f"{tag}:graph_well_formed{cfgs}", False, exc=str(e))
            return None

        return run_config(qual, {"user_argument": shape, "replacement": replacement, "user_is_output": user_is_output}, build, post)

    return run


def _deep_same(a: Any, b: Any) -> bool:
    if isinstance(a, FxNode) or isinstance(b, FxNode):
        return a is b
    if isinstance(a, (tuple, list)) and isinstance(b, (tuple, list)):
        return type(a) is type(b) and len(a) == len(b) and all(_deep_same(x, y) for x, y in zip(a, b))
    if isinstance(a, dict) and isinstance(b, dict):
        return set(a) == set(b) and all(_deep_same(a[k], b[k]) for k in a)
    if isinstance(a, slice) and isinstance(b, slice):
        return _deep_same(a.start, b.start) and _deep_same(a.stop, b.stop) and _deep_same(a.step, b.step)
    return a is b or a == b


for _sh in USER_SHAPES:
    for _rep in ("node", "None", "default"):
        register(Job(f"c19:_prune[{_sh},rep={_rep}]", ["C19"], TS + "_prune", {"user_argument": _sh, "replacement": _rep}, _prune_job(_sh, _rep, False)))
for _sh in ("positional", "nested_list"):
    register(Job(f"c19:_prune[output,{_sh}]", ["C19"], TS + "_prune", {"user_argument": _sh, "user_is_output": True}, _prune_job(_sh, "node", True)))


# ---------------------------------------------------------------- selection predicates + whole helpers (generic node)


def mk_metrics(it: Any, ctx: Ctx, name: str, has_bwd: bool) -> Any:
    M = lookup_fn(it, TS + "Metrics")
    D = it.getattr(M, "Data")

    def data(tag_: str) -> Any:
        return it.call(D, [], {"mean_abs": pos_real(ctx, f"{name}_{tag_}_mean_abs"), "abs_mean": opaque(ctx, "am"), "std": opaque(ctx, "std"), "abs_max": opaque(ctx, "mx"), "abs_min": opaque(ctx, "mn"), "numel": opaque(ctx, "numel")})

    m = ObjVal(M)
    m.attrs["fwd"] = data("fwd")
    m.attrs["bwd"] = data("bwd") if has_bwd else None
    return m


def _isclose_spec(a: Any, b: Any, rtol: Any) -> z3.BoolRef:
    za, zb, zr = zreal(a), zreal(b), zreal(rtol)
    ab = lambda x: z3.If(x >= 0, x, -x)  # noqa: E731
    mx = z3.If(ab(za) >= ab(zb), ab(za), ab(zb))
    return ab(za - zb) <= zr * mx


def _helper_job(helper: str, cfg: Dict[str, Any]) -> Callable[[], Record]:
    state: Dict[str, Any] = {}

    def run() -> Record:
        qual = TS + helper
        tag = f"C19:transforms._track_scales.{helper}"
        verifying = [qual, TS + "_prune", TS + "_filter_float_tensors", TS + "_metrics_same_scale", TS + "_directions_same_scale"]

        def build(ctx: Ctx) -> Any:
            it = mk_interp(ctx, verifying=verifying, hook=_hook)
            g = FxGraph()
            x = g.add("placeholder", "x", name="x")
            idx = g.add("placeholder", "idx", name="idx")
            prev = g.add("call_function", "earlier_op", (x,), {}, name="earlier")
            n_float_args = cfg.get("float_args", 1)
            # with two float inputs the second one is a float node read by N ONLY (it must survive N's removal)
            side = g.add("call_function", "side_op", (x,), {}, name="side") if n_float_args == 2 else None
            nargs: Tuple[Any, ...] = {0: (idx,), 1: (prev, idx), 2: (prev, side)}[n_float_args]
            target = opaque(ctx, "target_N") if helper != "prune_selected_nodes" else ("selected_fn" if cfg["selected"] else "kept_fn")
            node = g.add("call_function", target, nargs, {}, name=_names(cfg)[0])
            a, k = USER_SHAPES[cfg.get("user", "positional")](node, prev)
            cons = g.add("call_function", "consumer", a, k, name="consumer")
            g.add("output", "output", ((cons,),), {}, name=_names(cfg)[1])
            for n in g.nodes:
                n.meta["clean_name"] = n.name
                # (the fx output node returns a tuple: _get_tracking_meta records False for it)
                n.meta["outputs_float_tensor"] = n.name not in ("idx",) and n.op != "output"
            node.meta["outputs_float_tensor"] = cfg.get("node_is_float", True)
            rtol = pos_real(ctx, "rtol")
            if helper == "prune_same_scale_tensors":
                for n in g.nodes:
                    if n.meta["outputs_float_tensor"] and n.op != "output":
                        n.meta["metrics"] = mk_metrics(it, ctx, n.name, cfg.get("bwd", "both") in ("both",) or (cfg.get("bwd") == "only_node" and n is node) or (cfg.get("bwd") == "only_arg" and n is prev))
                # keep every other node's scale different from its input so only N is in question
                for n in [m_ for m_ in (prev, cons, side) if m_ is not None]:
                    if "metrics" in n.meta and n.input_nodes() and "metrics" in n.input_nodes()[0].meta:
                        m1, m0 = n.meta["metrics"].attrs["fwd"].attrs["mean_abs"], n.input_nodes()[0].meta["metrics"].attrs["fwd"].attrs["mean_abs"]
                        ctx.assume(z3.Not(_isclose_spec(m1, m0, rtol)))
            sig0 = g.signature()
            state.clear()

            def thunk() -> Any:
                f = lookup_fn(it, qual)
                if cfg.get("history") == "input_is_an_earlier_result":
                    # the graph handed in is itself what a copying helper returned earlier (chained passes)
                    nonlocal_g = it.call(lookup_fn(it, TS + "prune_non_float_tensors"), [g], {})
                    state["input"] = nonlocal_g
                    state["sig_in"] = nonlocal_g.signature()
                    gin = nonlocal_g
                else:
                    gin = g
                if helper == "prune_non_float_tensors":
                    out = it.call(f, [gin], {})
                elif helper == "prune_same_scale_tensors":
                    out = it.call(f, [gin], {"rtol": rtol})
                else:
                    out = it.call(f, [gin, ["selected_fn", "another_selected_fn"]], {})
                return out, g, sig0, node, prev, cons, rtol

            return it, thunk

        def post(p: PathResult, i: int) -> Any:
            ctx = p.ctx
            cs = "[" + ",".join(f"{k}={cfg[k]}" for k in sorted(cfg)) + "]"
            if p.outcome != "return":
                ctx.oblige(f"{tag}:never_raises_on_a_tracked_graph{cs}", False, exc=str(p.exc))
                return None
            out, g, sig0, node, prev, cons, rtol = p.value
            ctx.oblige(f"{tag}:never_raises_on_a_tracked_graph{cs}", True)
            copying = helper != "prune_selected_nodes"
            if copying:
                ctx.oblige(f"{tag}:input_graph_unchanged{cs}", g.signature() == sig0 and out is not g)
                if "input" in state:
                    gin = state["input"]
                    ctx.oblige(f"{tag}:input_graph_unchanged_also_when_it_is_an_earlier_result{cs}", gin.signature() == state["sig_in"] and out is not gin, same_object=out is gin)
            else:
                ctx.oblige(f"{tag}:returns_the_same_graph_object{cs}", out is g)
            if cfg.get("history"):
                # the structural clauses are decided on the un-chained configurations; here only the frame
                try:
                    out.lint(p.interp)
                    ctx.oblige(f"{tag}:result_well_formed{cs}", True)
                except PyRaise as e:
                    ctx.oblige(f"{tag}:result_well_formed{cs}", False, exc=str(e))
                return None
            names = [n.name for n in out.nodes]
            nN, nOut = _names(cfg)
            removed = nN not in names
            # ---- which nodes must go
            if helper == "prune_non_float_tensors":
                must = not cfg["node_is_float"]
                bypass = prev if cfg["float_args"] == 1 else None
            elif helper == "prune_selected_nodes":
                must = cfg["selected"]
                bypass = None
            else:
                must = None
                bypass = prev
            if must is not None:
                ctx.oblige(f"{tag}:node_removed_iff_documented_condition{cs}", removed == must, removed=removed)
            else:
                # same-scale: single float-tensor input whose mean |x| agrees within rtol, forward and (when recorded) backward
                fa = cfg["float_args"] == 1 and cfg["node_is_float"]
                if not fa:
                    ctx.oblige(f"{tag}:node_kept_unless_exactly_one_float_input{cs}", not removed)
                else:
                    mN, mA = node.meta["metrics"], prev.meta["metrics"]
                    cond = _isclose_spec(mN.attrs["fwd"].attrs["mean_abs"], mA.attrs["fwd"].attrs["mean_abs"], rtol)
                    bN, bA = mN.attrs["bwd"], mA.attrs["bwd"]
                    if bN is not None and bA is not None:
                        cond = z3.And(cond, _isclose_spec(bN.attrs["mean_abs"], bA.attrs["mean_abs"], rtol))
                    elif (bN is None) != (bA is None):
                        cond = z3.BoolVal(False)
                    ctx.oblige(f"{tag}:node_removed_iff_same_scale_within_rtol{cs}", cond if removed else z3.Not(cond), removed=removed)
            ctx.oblige(f"{tag}:surviving_nodes_keep_their_order_and_nothing_is_added{cs}", names == [n for n in ["x", "idx", "earlier", "side", nN, "consumer", nOut] if (n != nN or not removed) and not (n == "idx" and helper == "prune_non_float_tensors") and (n != "side" or cfg.get("float_args", 1) == 2)], names=names)
            if removed:
                c2 = next(n for n in out.nodes if n.name == "consumer")
                e2 = next(n for n in out.nodes if n.name == "earlier")
                want_rep = e2 if bypass is not None else None
                a0, k0 = USER_SHAPES[cfg.get("user", "positional")]("N!", e2)
                want = (map_arg_plain(a0, want_rep), map_arg_plain(k0, want_rep))
                lbl = "bypassed_to_its_single_float_input" if bypass is not None else "edge_cut(replaced_by_None)"
                ctx.oblige(f"{tag}:consumer_{lbl}_wherever_the_node_appeared{cs}", _deep_same(want, (c2._args, c2._kwargs)), got=str((c2._args, c2._kwargs))[:160])
            try:
                out.lint(p.interp)
                ctx.oblige(f"{tag}:result_well_formed{cs}", True)
            except PyRaise as e:
                ctx.oblige(f"{tag}:result_well_formed{cs}", False, exc=str(e))
            return None

        return run_config(qual, cfg, build, post, max_paths=64)

    return run


def _names(cfg: Dict[str, Any]) -> Tuple[str, str]:
    """(name of the generic node, name of the fx output node).  TorchDynamo names nodes after
    the user's variables: a module that assigns a variable called `output` yields a
    call_function node named `output` and an output node named `output_1`."""
    return ("output", "output_1") if cfg.get("names") == "user_variable_called_output" else ("N", "output")


def map_arg_plain(a: Any, rep: Any) -> Any:
    if a == "N!":
        return rep
    if isinstance(a, tuple):
        return tuple(map_arg_plain(x, rep) for x in a)
    if isinstance(a, list):
        return [map_arg_plain(x, rep) for x in a]
    if isinstance(a, dict):
        return {k: map_arg_plain(v, rep) for k, v in a.items()}
    if isinstance(a, slice):
        return slice(map_arg_plain(a.start, rep), map_arg_plain(a.stop, rep), map_arg_plain(a.step, rep))
    return a


_USERS = ("positional", "keyword", "nested_list", "index_tuple")
for _u in _USERS:
    for _nf in (True, False):
        for _fa in (0, 1, 2):
            _c = {"node_is_float": _nf, "float_args": _fa, "user": _u}
            register(Job("c19:prune_non_float_tensors[" + ",".join(f"{k}={_c[k]}" for k in sorted(_c)) + "]", ["C19"], TS + "prune_non_float_tensors", _c, _helper_job("prune_non_float_tensors", _c)))
    for _sel in (True, False):
        _c = {"selected": _sel, "user": _u}
        register(Job("c19:prune_selected_nodes[" + ",".join(f"{k}={_c[k]}" for k in sorted(_c)) + "]", ["C19"], TS + "prune_selected_nodes", _c, _helper_job("prune_selected_nodes", _c)))
    for _bwd in ("both", "none", "only_node", "only_arg"):
        for _fa in (1, 2):
            _c = {"node_is_float": True, "float_args": _fa, "user": _u, "bwd": _bwd}
            register(Job("c19:prune_same_scale_tensors[" + ",".join(f"{k}={_c[k]}" for k in sorted(_c)) + "]", ["C19"], TS + "prune_same_scale_tensors", _c, _helper_job("prune_same_scale_tensors", _c)))
for _nf in (True, False):
    _c = {"node_is_float": _nf, "float_args": 1, "user": "positional", "names": "user_variable_called_output"}
    register(Job("c19:prune_non_float_tensors[" + ",".join(f"{k}={_c[k]}" for k in sorted(_c)) + "]", ["C19"], TS + "prune_non_float_tensors", _c, _helper_job("prune_non_float_tensors", _c)))
for _sel in (True, False):
    _c = {"selected": _sel, "user": "positional", "names": "user_variable_called_output"}
    register(Job("c19:prune_selected_nodes[" + ",".join(f"{k}={_c[k]}" for k in sorted(_c)) + "]", ["C19"], TS + "prune_selected_nodes", _c, _helper_job("prune_selected_nodes", _c)))
_c = {"node_is_float": True, "float_args": 1, "user": "positional", "bwd": "both", "names": "user_variable_called_output"}
register(Job("c19:prune_same_scale_tensors[" + ",".join(f"{k}={_c[k]}" for k in sorted(_c)) + "]", ["C19"], TS + "prune_same_scale_tensors", _c, _helper_job("prune_same_scale_tensors", _c)))
for _h, _c in (("prune_same_scale_tensors", {"node_is_float": True, "float_args": 1, "user": "positional", "bwd": "both", "history": "input_is_an_earlier_result"}), ("prune_non_float_tensors", {"node_is_float": False, "float_args": 1, "user": "positional", "history": "input_is_an_earlier_result"}), ("prune_non_float_tensors", {"node_is_float": True, "float_args": 1, "user": "positional", "history": "input_is_an_earlier_result"})):
    register(Job(f"c19:{_h}[" + ",".join(f"{k}={_c[k]}" for k in sorted(_c)) + "]", ["C19"], TS + _h, _c, _helper_job(_h, _c)))

