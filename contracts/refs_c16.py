"""C16: the User-Guide recipe for unit-scaling a traced graph, written from the property
statement as a function over an engine-neutral graph description.  Shared by the VC side
(contracts/jobs_unitscale.py: the model graph the symbolic executor produced from the real
source of unit_scaling_backend is compared with it) and by the replay side
(replay/replay_c16.py: the real torch.fx graph produced by the real backend is compared
with it).  Pure Python, no z3 / torch.

A graph is a list of nodes in definition order
    {"name": str, "op": "placeholder" | "call_function" | "output" | ..., "target": key,
     "args": [...], "kwargs": {...}}
arguments are JSON-like values in which ("ref", name) denotes another node.  Target keys
are strings: "F.<name>", "torch.<name>", "operator.<name>", "U.<name>", "user.<name>".

RECIPE (property C16):
  R1  every call_function whose target is a key of the user's `replace` map is replaced by
      its image; otherwise every call_function whose target has a unit-scaled counterpart
      (TORCH_MAP) is replaced by it; same arguments -- except private (underscore) keyword
      arguments the counterpart does not have: torch.nn modules pass e.g. `_stacklevel`
      to F.softmax, which only steers a warning.  User replacements take precedence.
  R2  every addition (builtin function named add / iadd) with two node operands one of
      which is computed from the other is a residual connection: the operand that is an
      ancestor is the skip, the other the residual branch;
          split = U.residual_split(skip, tau); the branch reads split[0];
          the addition becomes U.residual_add(residual, split[1], tau);
      tau = 0.01 when the branch contains softmax / attention, else 0.5.
  R3  every other addition becomes U.add(*operands, constraint=None).
  R4  every operation that is not an ancestor of (or itself) a residual addition and has a
      `constraint` parameter gets constraint=None.
  R5  everything else is untouched.
"""
from __future__ import annotations

import itertools
from typing import Any, Callable, Dict, Iterator, List, Optional, Sequence, Set, Tuple

# name-based map (unit_scaling.functional.torch_map): validated against the real object by
# the `torch_map` component of the C16 check on every run
TORCH_MAP: Dict[str, str] = {
    "torch.add": "U.add",
    "F.conv1d": "U.conv1d",
    "F.cross_entropy": "U.cross_entropy",
    "F.dropout": "U.dropout",
    "F.embedding": "U.embedding",
    "F.gelu": "U.gelu",
    "F.layer_norm": "U.layer_norm",
    "F.linear": "U.linear",
    "torch.matmul": "U.matmul",
    "F.mse_loss": "U.mse_loss",
    "F.rms_norm": "U.rms_norm",
    "F.scaled_dot_product_attention": "U.scaled_dot_product_attention",
    "F.silu": "U.silu",
    "F.softmax": "U.softmax",
}
SELF_ATTENTION = {"F.scaled_dot_product_attention", "U.scaled_dot_product_attention", "F.softmax", "U.softmax"}
# builtin (C-implemented) functions named add / iadd
ADD_KEYS = {"operator.add", "operator.iadd", "torch.add"}
# C-implemented functions (types.BuiltinFunctionType) of the vocabulary: inspect.signature
# cannot be taken of these
C_BUILTINS = {"operator.add", "operator.iadd", "operator.mul", "operator.getitem", "torch.add", "torch.matmul", "torch.tanh", "torch.softmax", "F.gelu", "F.linear", "F.conv1d", "F.scaled_dot_product_attention"}
# parameters of the Python-level torch functions of the vocabulary (none is called `constraint`)
PY_PARAMS: Dict[str, List[str]] = {
    "F.cross_entropy": ["input", "target", "weight", "size_average", "ignore_index", "reduce", "reduction", "label_smoothing"],
    "F.dropout": ["input", "p", "training", "inplace"],
    "F.embedding": ["input", "weight", "padding_idx", "max_norm", "norm_type", "scale_grad_by_freq", "sparse"],
    "F.layer_norm": ["input", "normalized_shape", "weight", "bias", "eps"],
    "F.mse_loss": ["input", "target", "size_average", "reduce", "reduction", "weight"],
    "F.rms_norm": ["input", "normalized_shape", "weight", "eps"],
    "F.silu": ["input", "inplace"],
    "F.softmax": ["input", "dim", "_stacklevel", "dtype"],
    "F.relu": ["input", "inplace"],
}

Ref = Tuple[str, str]
Node = Dict[str, Any]


def is_ref(a: Any) -> bool:
    return isinstance(a, tuple) and len(a) == 2 and a[0] == "ref" and isinstance(a[1], str)


def ref(n: str) -> Ref:
    return ("ref", n)


def deep_map(a: Any, f: Callable[[str], Any]) -> Any:
    if is_ref(a):
        return f(a[1])
    if isinstance(a, tuple):
        return tuple(deep_map(x, f) for x in a)
    if isinstance(a, list):
        return [deep_map(x, f) for x in a]
    if isinstance(a, dict):
        return {k: deep_map(v, f) for k, v in a.items()}
    return a


def refs_in(a: Any) -> List[str]:
    out: List[str] = []

    def add(n: str) -> Any:
        if n not in out:
            out.append(n)
        return ref(n)

    deep_map(a, add)
    return out


def inputs_of(n: Node) -> List[str]:
    return refs_in((tuple(n["args"]), dict(n["kwargs"])))


def node(name: str, op: str, target: str, args: Sequence[Any] = (), kwargs: Optional[Dict[str, Any]] = None) -> Node:
    return {"name": name, "op": op, "target": target, "args": list(args), "kwargs": dict(kwargs or {})}


def ancestors(nodes: List[Node]) -> Dict[str, Set[str]]:
    anc: Dict[str, Set[str]] = {}
    for n in nodes:  # definition order is topological
        s: Set[str] = set()
        for i in inputs_of(n):
            s.add(i)
            s |= anc[i]
        anc[n["name"]] = s
    return anc


def users_of(nodes: List[Node], name: str) -> List[str]:
    return [n["name"] for n in nodes if name in inputs_of(n)]


def is_add(n: Node) -> bool:
    return n["op"] == "call_function" and n["target"] in ADD_KEYS


def classify_adds(nodes: List[Node]) -> Dict[str, Optional[Dict[str, Any]]]:
    """for every addition: None (plain) or {"skip", "residual", "idx" (position of the
    residual operand), "branch" (names of the nodes of the residual branch)}"""
    anc = ancestors(nodes)
    by = {n["name"]: n for n in nodes}
    out: Dict[str, Optional[Dict[str, Any]]] = {}
    for n in nodes:
        if not is_add(n):
            continue
        out[n["name"]] = None
        a = n["args"]
        if len(a) == 2:
            l, r = a
            if is_ref(l) and is_ref(r):
                ln, rn = l[1], r[1]
                if ln in anc[rn] or rn in anc[ln]:
                    skip, res, idx = (ln, rn, 1) if ln in anc[rn] else (rn, ln, 0)
                    # the residual branch: everything feeding the residual operand, not looking past the skip
                    branch: List[str] = []
                    todo = [res]
                    while todo:
                        p = todo.pop()
                        if p == skip or p in branch:
                            continue
                        branch.append(p)
                        todo += inputs_of(by[p])
                    out[n["name"]] = {"skip": skip, "residual": res, "idx": idx, "branch": branch}
    return out


def well_nested(nodes: List[Node]) -> bool:
    """precondition of R2 (the property quantifies over well-nested residual blocks): the
    skip tensor of a residual addition is read only by that addition and by its branch"""
    for name, c in classify_adds(after_r1(nodes, {})).items():
        if c is None:
            continue
        for u in users_of(nodes, c["skip"]):
            if u != name and u not in c["branch"]:
                return False
    return True


def after_r1(nodes: List[Node], replace: Dict[str, str], sigs: Optional[Callable[[str], Optional[List[str]]]] = None) -> List[Node]:
    out = []
    for n in nodes:
        m = dict(n)
        if n["op"] == "call_function":
            if n["target"] in replace:
                m["target"] = replace[n["target"]]
            elif n["target"] in TORCH_MAP:
                m["target"] = TORCH_MAP[n["target"]]
                params = sigs(m["target"]) if sigs is not None else None
                if params is not None:
                    m["kwargs"] = {k: v for k, v in n["kwargs"].items() if not k.startswith("_") or k in params}
        out.append(m)
    return out


def spec_rewrite(nodes: List[Node], replace: Dict[str, str], has_constraint: Callable[[str], bool], sigs: Optional[Callable[[str], Optional[List[str]]]] = None) -> List[Node]:
    """the graph the recipe prescribes (node names are fresh where nodes are new)"""
    g = after_r1(nodes, replace, sigs)
    cls = classify_adds(g)
    # R2 / R3, in definition order
    k = 0
    for name in [n["name"] for n in g]:
        if name not in cls:
            continue
        c = cls[name]
        i = next(j for j, n in enumerate(g) if n["name"] == name)
        n = g[i]
        if c is None:
            g[i] = {**n, "target": "U.add", "force": {"constraint": None}}
            continue
        tau = 0.01 if any(by_t in SELF_ATTENTION for by_t in [m["target"] for m in g if m["name"] in c["branch"]]) else 0.5
        k += 1
        split, r0, s1 = f"_split{k}", f"_split{k}_residual", f"_split{k}_skip"
        skip = c["skip"]
        # the branch reads split[0] instead of the skip
        for m in g:
            if m["name"] != name and skip in inputs_of(m):
                m["args"] = deep_map(m["args"], lambda x: ref(r0) if x == skip else ref(x))
                m["kwargs"] = deep_map(m["kwargs"], lambda x: ref(r0) if x == skip else ref(x))
        j = next(jj for jj, m in enumerate(g) if m["name"] == skip)
        g[j + 1 : j + 1] = [
            node(split, "call_function", "U.residual_split", [ref(skip), tau]),
            node(r0, "call_function", "operator.getitem", [ref(split), 0]),
            node(s1, "call_function", "operator.getitem", [ref(split), 1]),
        ]
        i = next(jj for jj, m in enumerate(g) if m["name"] == name)
        g[i] = {**g[i], "target": "U.residual_add", "args": [ref(c["residual"]), ref(s1), tau], "kwargs": {}}
    # R4
    anc = ancestors(g)
    keep: Set[str] = set()
    for n in g:
        if n["op"] == "call_function" and n["target"] == "U.residual_add":
            keep.add(n["name"])
            keep |= anc[n["name"]]
    for n in g:
        if n["name"] not in keep and n["op"] == "call_function" and has_constraint(n["target"]):
            n["force"] = {**n.get("force", {}), "constraint": None}
    return g


# ----------------------------------------------------------------------------------
# canonical form (node names, positional-vs-keyword passing and definition order are
# immaterial; ill-formed calls are reported)


class IllFormed(Exception):
    pass


def _num(v: Any) -> Any:
    if isinstance(v, bool) or v is None or isinstance(v, str):
        return v
    if isinstance(v, int):
        return v
    try:
        return round(float(v), 12)
    except Exception:
        return repr(v)


def bind(target: str, params: Optional[List[str]], args: Sequence[Any], kwargs: Dict[str, Any]) -> Dict[str, Any]:
    """the arguments as the call would bind them (explicitly passed ones only)"""
    if params is None:
        return {**{f"#{i}": a for i, a in enumerate(args)}, **kwargs}
    if len(args) > len(params):
        raise IllFormed(f"{target}() takes {len(params)} positional arguments but {len(args)} were given")
    b = dict(zip(params, args))
    for k, v in kwargs.items():
        if k in b:
            raise IllFormed(f"{target}() got multiple values for argument '{k}'")
        if k not in params:
            raise IllFormed(f"{target}() got an unexpected keyword argument '{k}'")
        b[k] = v
    return b


def canon(nodes: List[Node], sigs: Callable[[str], Optional[List[str]]]) -> Any:
    """expression tree of the output node"""
    by = {n["name"]: n for n in nodes}
    memo: Dict[str, Any] = {}

    def val(a: Any) -> Any:
        if is_ref(a):
            return tree(a[1])
        if isinstance(a, (tuple, list)):
            return tuple(val(x) for x in a)
        if isinstance(a, dict):
            return tuple(sorted((k, val(v)) for k, v in a.items()))
        return _num(a)

    def tree(name: str) -> Any:
        if name in memo:
            return memo[name]
        n = by[name]
        if n["op"] == "placeholder":
            r: Any = ("placeholder", n["target"])
        elif n["op"] == "output":
            r = ("output", val(n["args"]))
        else:
            params = sigs(n["target"]) if n["op"] == "call_function" else None
            b = bind(n["target"], params, n["args"], n["kwargs"])
            for k, v in n.get("force", {}).items():
                if params is not None and k not in params:
                    raise IllFormed(f"{n['target']} has no parameter {k}")
                b[k] = v
            r = (n["op"], n["target"], tuple(sorted((k, val(v)) for k, v in b.items())))
        memo[name] = r
        return r

    outs = [n for n in nodes if n["op"] == "output"]
    if len(outs) != 1:
        raise IllFormed(f"{len(outs)} output nodes")
    # every node must be well-formed, reachable or not
    for n in nodes:
        tree(n["name"])
    return tree(outs[0]["name"])


def lint(nodes: List[Node]) -> Optional[str]:
    seen: Set[str] = set()
    for n in nodes:
        for i in inputs_of(n):
            if i not in seen:
                return f"argument {i} of {n['name']} is not defined before its use"
        if n["name"] in seen:
            return f"duplicate name {n['name']}"
        seen.add(n["name"])
    return None


# ----------------------------------------------------------------------------------
# graph families


UNARY = {
    "gelu": lambda x: ("F.gelu", [x], {}),
    "softmax": lambda x: ("F.softmax", [x], {"dim": -1}),
    "tanh": lambda x: ("torch.tanh", [x], {}),
    "layer_norm": lambda x: ("F.layer_norm", [x, (8,)], {}),
    "silu": lambda x: ("F.silu", [x], {}),
    "relu": lambda x: ("F.relu", [x], {}),
    "dropout": lambda x: ("F.dropout", [x], {"p": 0.0}),
    "attention": lambda x: ("F.scaled_dot_product_attention", [x, x, x], {}),
    "add_scalar": lambda x: ("operator.add", [x, 1.5], {}),
    "radd_scalar": lambda x: ("operator.add", [1.5, x], {}),
    "user": lambda x: ("user.fn", [x], {}),
    "torch_softmax": lambda x: ("torch.softmax", [x, -1], {}),
}
BINARY = {
    "add": lambda x, y: ("operator.add", [x, y], {}),
    "iadd": lambda x, y: ("operator.iadd", [x, y], {}),
    "matmul": lambda x, y: ("torch.matmul", [x, y], {}),
    "mul": lambda x, y: ("operator.mul", [x, y], {}),
    "torch_add": lambda x, y: ("torch.add", [x, y], {}),
    "linear": lambda x, y: ("F.linear", [x, y], {}),
}


def build(ops: Sequence[Tuple[Any, ...]], n_inputs: int = 1) -> List[Node]:
    """ops: (kind, i) / (kind, i, j) with i, j indices into the list of values so far
    (inputs first).  The output returns every value nobody reads."""
    g: List[Node] = [node(f"x{i}", "placeholder", f"x{i}") for i in range(n_inputs)]
    vals = [n["name"] for n in g]
    for k, op in enumerate(ops):
        kind = op[0]
        if kind in UNARY:
            t, a, kw = UNARY[kind](ref(vals[op[1]]))
        else:
            t, a, kw = BINARY[kind](ref(vals[op[1]]), ref(vals[op[2]]))
        name = f"v{k}"
        g.append(node(name, "call_function", t, a, kw))
        vals.append(name)
    unread = [v for v in vals if not users_of(g, v)]
    g.append(node("output", "output", "output", [tuple(ref(v) for v in unread)]))
    return g


def enumerate_ops(max_ops: int, unary: Sequence[str], binary: Sequence[str], n_inputs: int = 1) -> Iterator[Tuple[Tuple[Any, ...], ...]]:
    def rec(prefix: Tuple[Tuple[Any, ...], ...]) -> Iterator[Tuple[Tuple[Any, ...], ...]]:
        if prefix:
            yield prefix
        if len(prefix) == max_ops:
            return
        nv = n_inputs + len(prefix)
        for u in unary:
            for i in range(nv):
                yield from rec(prefix + ((u, i),))
        for b in binary:
            for i in range(nv):
                for j in range(nv):
                    yield from rec(prefix + ((b, i, j),))

    yield from rec(())


def residual_chains(max_blocks: int) -> Iterator[Tuple[str, List[Node]]]:
    """the families the property names: 0-4 well-nested residual blocks whose skip tensor is
    an input, a residual output, or a plain sum; branches with / without softmax or
    attention; either operand order; an optional trailing op / plain add after the last block"""
    branches = {
        "mlp": ["linear", "gelu"],
        "softmax": ["linear", "softmax", "linear"],
        "attention": ["layer_norm", "attention"],
        "unmapped": ["tanh"],
    }
    tails = {"none": [], "linear": ["linear"], "plain_add": ["linear", "add_scalar"], "add_of_two": ["add_two"]}
    starts = ["input", "plain_sum"]
    for nb in range(max_blocks + 1):
        for start in starts:
            for combo in itertools.product(sorted(branches), repeat=nb):
                for order in (["skip_first", "branch_first"] if nb else ["skip_first"]):
                    for tail in sorted(tails):
                        g: List[Node] = [node("x0", "placeholder", "x0"), node("x1", "placeholder", "x1"), node("w", "placeholder", "w")]
                        k = itertools.count()

                        def emit(t: str, a: List[Any], kw: Dict[str, Any]) -> str:
                            name = f"v{next(k)}"
                            g.append(node(name, "call_function", t, a, kw))
                            return name

                        def apply(kind: str, cur: str) -> str:
                            if kind == "linear":
                                return emit("F.linear", [ref(cur), ref("w")], {})
                            if kind == "add_two":
                                return emit("operator.add", [ref(cur), ref("x1")], {})
                            t, a, kw = UNARY[kind](ref(cur))
                            return emit(t, a, kw)

                        if start == "plain_sum":
                            e0 = emit("F.embedding", [ref("x0"), ref("w")], {})
                            e1 = emit("F.embedding", [ref("x1"), ref("w")], {})
                            cur = emit("operator.add", [ref(e0), ref(e1)], {})
                        else:
                            cur = "x0"
                        for b in combo:
                            skip = cur
                            h = skip
                            for kind in branches[b]:
                                h = apply(kind, h)
                            cur = emit("operator.add", [ref(skip), ref(h)] if order == "skip_first" else [ref(h), ref(skip)], {})
                        for kind in tails[tail]:
                            cur = apply(kind, cur)
                        g.append(node("output", "output", "output", [(ref(cur),)]))
                        yield f"blocks={'+'.join(combo) or 'none'},start={start},order={order},tail={tail}", g


# one generic node between an opaque earlier and later part, with / without a later residual add
GENERIC_NODES: Dict[str, Tuple[str, str, List[Any], Dict[str, Any]]] = {
    "mapped_with_constraint": ("call_function", "F.gelu", ["IN"], {}),
    "mapped_with_constraint_kwargs": ("call_function", "F.gelu", [], {"input": "IN", "approximate": "tanh"}),
    "mapped_softmax": ("call_function", "F.softmax", ["IN"], {"dim": -1}),
    "mapped_without_constraint": ("call_function", "F.layer_norm", ["IN", (8,)], {}),
    "mapped_c_builtin": ("call_function", "F.linear", ["IN", "W"], {}),
    "mapped_torch_add": ("call_function", "torch.add", ["IN", "W"], {"alpha": 2}),
    "mapped_torch_matmul": ("call_function", "torch.matmul", ["IN", "W"], {}),
    "unmapped_c_builtin": ("call_function", "torch.tanh", ["IN"], {}),
    "unmapped_python": ("call_function", "F.relu", ["IN"], {}),
    "unmapped_torch_softmax": ("call_function", "torch.softmax", ["IN", -1], {}),
    "user_replaced": ("call_function", "user.fn", ["IN"], {}),
    "user_overrides_builtin_map": ("call_function", "F.gelu", ["IN"], {}),
    "already_unit_scaled": ("call_function", "U.gelu", ["IN", 2.0, "to_grad_input_scale"], {}),
    "plain_add_nodes": ("call_function", "operator.add", ["IN", "W"], {}),
    "plain_add_scalar": ("call_function", "operator.add", ["IN", 1.5], {}),
    "plain_radd_scalar": ("call_function", "operator.add", [1.5, "IN"], {}),
    "plain_iadd": ("call_function", "operator.iadd", ["IN", "W"], {}),
    "mul": ("call_function", "operator.mul", ["IN", "W"], {}),
    "method_add": ("call_method", "add", ["IN", "W"], {}),
    "method_softmax": ("call_method", "softmax", ["IN", -1], {}),
    # the calls the torch.nn wrappers of the property's quantifier emit (torch 2.x sources; validated by
    # bounded/c16_realgraphs.py end to end)
    "nn.Softmax": ("call_function", "F.softmax", ["IN", -1], {"_stacklevel": 5}),
    "nn.GELU": ("call_function", "F.gelu", ["IN"], {"approximate": "tanh"}),
    "nn.LayerNorm": ("call_function", "F.layer_norm", ["IN", (8,), "W", "V", 1e-5], {}),
    "nn.Embedding": ("call_function", "F.embedding", ["IN", "W", None, None, 2.0, False, False], {}),
    "nn.Dropout": ("call_function", "F.dropout", ["IN", 0.0, False, False], {}),
    "nn.SiLU": ("call_function", "F.silu", ["IN"], {"inplace": False}),
    "nn.RMSNorm": ("call_function", "F.rms_norm", ["IN", (8,), "W", 1e-5], {}),
    "nn.CrossEntropyLoss": ("call_function", "F.cross_entropy", ["IN", "W"], {"weight": None, "ignore_index": -100, "reduction": "mean", "label_smoothing": 0.0}),
    "nn.MSELoss": ("call_function", "F.mse_loss", ["IN", "W"], {"reduction": "mean"}),
    "mapped_conv1d": ("call_function", "F.conv1d", ["IN", "W"], {"stride": 2}),
    "mapped_attention": ("call_function", "F.scaled_dot_product_attention", ["IN", "IN", "IN"], {"is_causal": True}),
    "mapped_embedding": ("call_function", "F.embedding", ["IN", "W"], {"padding_idx": 0}),
    "slicing": ("call_function", "operator.getitem", ["IN", 0], {}),
    "method_reshape": ("call_method", "reshape", ["IN", -1, 8], {}),
    "residual_skip_first": ("call_function", "operator.add", ["IN", "BRANCH"], {}),
    "residual_branch_first": ("call_function", "operator.add", ["BRANCH", "IN"], {}),
    "residual_iadd": ("call_function", "operator.iadd", ["IN", "BRANCH"], {}),
    "residual_softmax_branch": ("call_function", "operator.add", ["IN", "SBRANCH"], {}),
}


def generic_graph(kind: str, later_residual: bool, skip_source: str) -> Tuple[List[Node], Dict[str, str]]:
    op, t, args, kwargs = GENERIC_NODES[kind]
    g = [node("x", "placeholder", "x"), node("W", "placeholder", "W"), node("V", "placeholder", "V")]
    if skip_source == "plain_sum":  # the earlier part ends in a plain addition
        g.append(node("e0", "call_function", "user.plain", [ref("x")]))
        g.append(node("earlier", "call_function", "operator.add", [ref("e0"), ref("V")]))
    elif skip_source == "residual_output":  # ... or in a residual addition
        g.append(node("e0", "call_function", "F.gelu", [ref("x")]))
        g.append(node("earlier", "call_function", "operator.add", [ref("x"), ref("e0")]))
    else:
        g.append(node("earlier", "call_function", "user.plain", [ref("x")]))
    uses = str(args) + str(kwargs)
    if "'BRANCH'" in uses:
        g.append(node("b0", "call_function", "F.linear", [ref("earlier"), ref("W")]))
        g.append(node("BRANCH", "call_function", "F.gelu", [ref("b0")]))
    if "'SBRANCH'" in uses:
        g.append(node("b0", "call_function", "torch.matmul", [ref("earlier"), ref("W")]))
        g.append(node("b1", "call_function", "F.softmax", [ref("b0")], {"dim": -1}))
        g.append(node("SBRANCH", "call_function", "torch.matmul", [ref("b1"), ref("W")]))
    sub = lambda a: ref({"IN": "earlier", "W": "W", "V": "V", "BRANCH": "BRANCH", "SBRANCH": "SBRANCH"}[a]) if isinstance(a, str) and a in ("IN", "W", "V", "BRANCH", "SBRANCH") else a
    g.append(node("n", op, t, [sub(a) for a in args], {k: sub(v) for k, v in kwargs.items()}))
    g.append(node("later", "call_function", "user.plain", [ref("n")], {"y": [ref("n")]}))
    cur = "later"
    if later_residual:
        g.append(node("r0", "call_function", "F.silu", [ref("later")]))
        g.append(node("radd", "call_function", "operator.add", [ref("later"), ref("r0")]))
        g.append(node("tail", "call_function", "F.linear", [ref("radd"), ref("W")]))
        cur = "tail"
    g.append(node("output", "output", "output", [(ref(cur),)]))
    rep = {"user.fn": "user.scaled"}
    if kind == "user_overrides_builtin_map":
        rep["F.gelu"] = "user.gelu"
    return g, rep



def towers(max_towers: int) -> Iterator[Tuple[str, List[Node]]]:
    """DAGs that are not a single residual stream: 2-3 parallel towers, each a chain of 1-2
    residual blocks on its own input (or on a shared input through an opaque op), merged by
    mul / a plain add / matmul, optionally followed by an op; every op of every tower has a
    later residual add, whatever the program order of the towers"""
    branches = {"mlp": ["linear", "gelu", "linear"], "softmax": ["linear", "softmax"], "unmapped": ["tanh"]}
    merges = {"mul": "operator.mul", "plain_add": "operator.add", "matmul": "torch.matmul"}
    tower_kinds = [("mlp",), ("unmapped",), ("softmax",), ("mlp", "mlp"), ("softmax", "unmapped")]
    for nt in range(2, max_towers + 1):
        for combo in itertools.product(tower_kinds, repeat=nt):
            if nt == 3 and sum(len(t) for t in combo) > 4:
                continue
            for merge in sorted(merges):
                for tail in ("none", "gelu"):
                    for shared in (False, True):
                        g: List[Node] = [node("w", "placeholder", "w")]
                        k = itertools.count()

                        def emit(t: str, a: List[Any], kw: Optional[Dict[str, Any]] = None) -> str:
                            name = f"v{next(k)}"
                            g.append(node(name, "call_function", t, a, kw or {}))
                            return name

                        outs = []
                        if shared:
                            g.append(node("x", "placeholder", "x"))
                        for ti, blocks in enumerate(combo):
                            if shared:
                                cur = emit("user.plain", [ref("x")])
                            else:
                                g.insert(ti, node(f"x{ti}", "placeholder", f"x{ti}"))
                                cur = f"x{ti}"
                            for b in blocks:
                                skip = cur
                                h = skip
                                for kind in branches[b]:
                                    if kind == "linear":
                                        h = emit("F.linear", [ref(h), ref("w")])
                                    else:
                                        t, a, kw = UNARY[kind](ref(h))
                                        h = emit(t, a, kw)
                                cur = emit("operator.add", [ref(skip), ref(h)])
                            outs.append(cur)
                        cur = outs[0]
                        for o in outs[1:]:
                            cur = emit(merges[merge], [ref(cur), ref(o)])
                        if tail == "gelu":
                            cur = emit("F.gelu", [ref(cur)])
                        g.append(node("output", "output", "output", [(ref(cur),)]))
                        yield f"towers={'|'.join('+'.join(t) for t in combo)},merge={merge},tail={tail},shared_input={shared}", g


def families(tier: str) -> List[Tuple[str, List[Node], Dict[str, str]]]:
    out: List[Tuple[str, List[Node], Dict[str, str]]] = []
    for label, g in residual_chains(2 if tier == "quick" else 3):
        out.append((label, g, {}))
    for ops in enumerate_ops(3 if tier == "quick" else 4, ["gelu", "softmax", "tanh"], ["add", "matmul"]):
        out.append((f"ops={ops}", build(ops), {}))
    for ops in enumerate_ops(2 if tier == "quick" else 3, ["user", "gelu", "add_scalar", "radd_scalar", "layer_norm"], ["iadd", "torch_add", "add"]):
        out.append((f"ops={ops},replace", build(ops), {"user.fn": "user.scaled", "F.gelu": "user.gelu"}))
    for label, g in towers(2 if tier == "quick" else 3):
        out.append((label, g, {}))
    for kind in GENERIC_NODES:
        for later_residual, skip_source in itertools.product([False, True], ["opaque", "plain_sum", "residual_output"]):
            g, rep = generic_graph(kind, later_residual, skip_source)
            out.append((f"node={kind},later_residual_add={later_residual},earlier_part_ends_in={skip_source}", g, rep))
    return out


