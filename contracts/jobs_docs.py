"""C01 (argument guard) / C08 (constructor guard): unit_scaling.docs._validate.

Contract (from the property: "an argument the library does not implement is rejected with
an error rather than silently ignored"):  for a function f with argument spec A and an
unsupported list U, the wrapper returned by _validate(f, U)
   * raises ValueError iff some u in U is passed (positionally or by keyword) with a value
     != its default,
   * otherwise tail-calls f(*args, **kwargs) with exactly the caller's arguments.
Checked for EVERY call shape of every public op and module constructor (each parameter
passed positionally, by keyword, or omitted: a finite space, enumerated exhaustively;
argument values symbolic).  This is the contract the executor applies for the decorators
docstring_from / inherit_docstring (interp._validate_contract).
"""
from __future__ import annotations

import itertools
from typing import Any, Callable, Dict, List, Tuple

import z3

from pyvc import tensor as tz
from pyvc.harness import Record, lookup_fn, run_config
from pyvc.interp import Builtin, FuncVal, ObjVal, PathResult, TypeTok
from pyvc.sym import Ctx, PyRaise

from .common import mk_interp, opaque
from .jobs_functional import OPS, _unsupported_of
from .registry import Job, register
from .summaries import UF

D = "unit_scaling.docs."


class NonDefault:
    """an arbitrary value of which only one thing is known: it is != the default"""

    def __init__(self, name: str):
        self.name = name

    def pyvc_equals(self, interp: Any, a: Any, b: Any) -> Any:
        return a is b


class Stub:
    """stands for the decorated function: records how it is called"""

    def __init__(self, fv: FuncVal, interp: Any):
        a = fv.node.args
        self.args = [x.arg for x in a.posonlyargs + a.args]
        nd = len(a.defaults)
        self.defaults = tuple(interp.eval(d, fv.env) for d in a.defaults) if nd else None
        self.calls: List[Tuple[List[Any], Dict[str, Any]]] = []
        self.name = fv.name

    def pyvc_call(self, interp: Any, args: List[Any], kwargs: Dict[str, Any]) -> Any:
        self.calls.append((list(args), dict(kwargs)))
        return ("stub-result", len(self.calls))

    def pyvc_getattr(self, interp: Any, name: str) -> Any:
        if name in ("__name__", "__qualname__"):
            return self.name
        if name in ("__doc__", "__module__", "__dict__", "__wrapped__", "__annotations__"):
            return None
        raise PyRaise("AttributeError", name)


def _hook(interp: Any, name: str) -> Any:
    if name == "inspect":
        def getfullargspec(it: Any, a: List[Any], k: Dict[str, Any]) -> Any:
            f = a[0]
            o = ObjVal(TypeTok("FullArgSpec"))
            o.cls = type("C", (), {"mro": lambda self=None: [], "name": "FullArgSpec"})()
            o.attrs["args"] = list(f.args)
            o.attrs["defaults"] = f.defaults
            return o

        return {"getfullargspec": Builtin("inspect.getfullargspec", getfullargspec)}
    if name == "functools":
        return {"wraps": Builtin("functools.wraps", lambda it, a, k: Builtin("wraps-decorator", lambda it2, a2, k2: a2[0]))}
    if name == "itertools":
        def zip_longest(it: Any, a: List[Any], k: Dict[str, Any]) -> Any:
            return list(itertools.zip_longest(*[it.iterate(x) for x in a], fillvalue=k.get("fillvalue")))

        return {"zip_longest": Builtin("itertools.zip_longest", zip_longest)}
    return None


def _validate_job(kind: str, name: str) -> Callable[[], Record]:
    def run() -> Record:
        qual = D + "_validate"
        tag = f"C01:docs._validate[{name}]"

        def build(ctx: Ctx) -> Any:
            it = mk_interp(ctx, verifying=[qual], hook=_hook)
            # decorators are applied by name: FunctionDef decorators inside _validate (wraps) must run
            target = lookup_fn(it, (UF + name) if kind == "op" else ("unit_scaling._modules." + name))
            if kind == "module":
                fv = target.attrs["__init__"]
                import ast as _ast

                unsupported: List[str] = []
                for d in target.decorators:
                    if isinstance(d, _ast.Call):
                        for kw in d.keywords:
                            if kw.arg == "unsupported_args":
                                unsupported += [e.value for e in kw.value.elts]  # type: ignore[attr-defined]
            else:
                fv = target
                unsupported = _unsupported_of(fv)
            v = lookup_fn(it, qual)

            def thunk() -> Any:
                stub = Stub(fv, it)
                wrapper = it.call(v, [stub, list(unsupported)], {})
                n = len(stub.args)
                nd = len(stub.defaults) if stub.defaults else 0
                results = []
                syms = {a: opaque(ctx, f"v_{a}") for a in stub.args}
                for kpos in range(n + 1):
                    rest = stub.args[kpos:]
                    for mask in itertools.product((0, 1), repeat=len(rest)):
                        passed = stub.args[:kpos] + [a for a, m in zip(rest, mask) if m]
                        us = [u for u in unsupported if u in passed]
                        for flags in itertools.product((False, True), repeat=len(us)):
                            nondef = {u for u, f_ in zip(us, flags) if f_}
                            vals = {}
                            for a in passed:
                                if a in unsupported and a not in nondef:
                                    j = stub.args.index(a) - (n - nd)
                                    vals[a] = stub.defaults[j]  # the default value itself
                                elif a in unsupported:
                                    j = stub.args.index(a) - (n - nd)
                                    vals[a] = NonDefault(a)
                                else:
                                    vals[a] = syms[a]
                            pos = [vals[a] for a in stub.args[:kpos]]
                            kw = {a: vals[a] for a, m in zip(rest, mask) if m}
                            before = len(stub.calls)
                            try:
                                r = it.call(wrapper, list(pos), dict(kw))
                                outcome = ("return", r)
                            except PyRaise as e:
                                outcome = ("raise", e.exc)
                            forwarded = stub.calls[before:] if len(stub.calls) > before else []
                            results.append((kpos, tuple(kw), sorted(nondef), outcome, forwarded, pos, kw))
                return results, unsupported

            return it, thunk

        def post(p: PathResult, i: int) -> Any:
            ctx = p.ctx
            if p.outcome != "return":
                ctx.oblige(f"{tag}:harness", False, exc=str(p.exc))
                return None
            results, unsupported = p.value
            bad_reject, bad_forward = [], []
            for kpos, kws, nondef, outcome, forwarded, pos, kw in results:
                if nondef:
                    if outcome != ("raise", "ValueError") or forwarded:
                        bad_reject.append((kpos, kws, nondef, str(outcome)[:60]))
                else:
                    ok = outcome[0] == "return" and len(forwarded) == 1 and len(forwarded[0][0]) == len(pos) and all(x is y for x, y in zip(forwarded[0][0], pos)) and set(forwarded[0][1]) == set(kw) and all(forwarded[0][1][k_] is kw[k_] for k_ in kw)
                    if not ok:
                        bad_forward.append((kpos, kws, str(outcome)[:60]))
            ctx.oblige(f"{tag}:nondefault_unsupported_argument_raises_ValueError_for_every_call_shape", not bad_reject, call_shapes=len(results), failing=bad_reject[:3])
            ctx.oblige(f"{tag}:otherwise_forwards_the_call_unchanged_for_every_call_shape", not bad_forward, call_shapes=len(results), failing=bad_forward[:3])
            ctx.oblige(f"{tag}:call_shapes_enumerated", len(results) > 0, n=len(results))
            return None

        return run_config(qual, {"target": name, "kind": kind}, build, post, max_paths=8)

    return run


for _spec in OPS:
    register(Job(f"docs:_validate[{_spec.name}]", ["C01", "C08"], D + "_validate", {"target": _spec.name}, _validate_job("op", _spec.name)))
for _m in ("GELU", "SiLU", "Softmax", "Dropout", "Linear", "LinearReadout", "Conv1d", "LayerNorm", "Embedding", "CrossEntropyLoss"):
    register(Job(f"docs:_validate[{_m}.__init__]", ["C08"], D + "_validate", {"target": _m}, _validate_job("module", _m)))


# ---------------------------------------------------------------- the decorators themselves


def _decorator_job(which: str) -> Callable[[], Record]:
    """docstring_from(...)(f) returns _validate(f, unsupported_args); inherit_docstring(...)(cls)
    replaces cls.__init__ by _validate(cls.__init__, unsupported_args); format_docstring(...)(f)
    returns f itself.  (This is the contract the executor applies instead of running decorators.)"""

    def run() -> Record:
        qual = D + which
        tag = f"C01:docs.{which}"

        def build(ctx: Ctx) -> Any:
            rec: List[Any] = []

            def s_validate(interp: Any, b: Dict[str, Any]) -> Any:
                rec.append(("_validate", b["f"], b["unsupported_args"]))
                return ("validated", b["f"], tuple(b["unsupported_args"]))

            def s_getdoc(interp: Any, b: Dict[str, Any]) -> Any:
                rec.append(("_get_docstring_from_target", b["source"], b["target"]))
                return b["source"]

            it = mk_interp(ctx, verifying=[qual], extra_contracts={D + "_validate": s_validate, D + "_get_docstring_from_target": s_getdoc}, hook=_hook)
            from pyvc.interp import ClassVal

            f = Stub(lookup_fn(it, UF + "silu"), it)
            f.doc = None
            parent = ClassVal("Parent", [], it.get_module("unit_scaling.docs"), "Parent")
            cls = ClassVal("Child", [parent], it.get_module("unit_scaling.docs"), "Child")
            cls.attrs["__init__"] = f
            cls.attrs["__doc__"] = "a {0} doc"
            U_ = ["inplace"]

            def thunk() -> Any:
                dec = lookup_fn(it, qual)
                if which == "docstring_from":
                    out = it.call(it.call(dec, [opaque(ctx, "target")], {"unsupported_args": U_}), [f], {})
                    return out, f, U_, rec, None
                if which == "inherit_docstring":
                    out = it.call(it.call(dec, [], {"unsupported_args": U_}), [cls], {})
                    return out, f, U_, rec, cls
                out = it.call(it.call(dec, ["x"], {}), [cls], {})
                return out, f, U_, rec, cls

            return it, thunk

        def post(p: PathResult, i: int) -> Any:
            ctx = p.ctx
            if p.outcome != "return":
                ctx.oblige(f"{tag}:no_exception", False, exc=str(p.exc))
                return None
            out, f, U_, rec, cls = p.value
            if which == "docstring_from":
                ctx.oblige(f"{tag}:returns__validate(f, unsupported_args)", out == ("validated", f, tuple(U_)), got=repr(out)[:120])
            elif which == "inherit_docstring":
                ctx.oblige(f"{tag}:returns_the_class_with___init___wrapped_by__validate", out is cls and cls.attrs.get("__init__") == ("validated", f, tuple(U_)), got=repr(cls.attrs.get("__init__"))[:120])
            else:
                ctx.oblige(f"{tag}:returns_its_argument_unchanged(only __doc__ is written)", out is cls and cls.attrs.get("__init__") is f and set(k for k in cls.attrs) == {"__init__", "__doc__"})
            return None

        return run_config(qual, {}, build, post)

    return run


for _w in ("docstring_from", "inherit_docstring", "format_docstring"):
    register(Job(f"docs:{_w}", ["C01", "C08"], D + _w, {}, _decorator_job(_w)))
