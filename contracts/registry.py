"""Registry of verification jobs.  A job is one (function, discrete configuration) run
of the VC generator; it returns a pyvc.harness.Record."""
from __future__ import annotations

from typing import Any, Callable, Dict, List


class Job:
    def __init__(self, key: str, props: List[str], fn: str, cfg: Dict[str, Any], run: Callable[[], Any], tier: str = "quick", shared: Any = None):
        self.key = key
        self.props = props
        self.fn = fn
        self.cfg = cfg
        self.run = run
        self.tier = tier
        # shared jobs verify a contract several properties build on: ALL their obligations
        # count for every property in `props` (whatever the obligation's own prefix)
        if shared is None:
            shared = key.split(":", 1)[0] in ("core", "docs") or (key.startswith(("c10:", "mod:Linear", "mod:Conv1d", "c09:Parameter")) and len(props) > 1)
        self.shared = shared


JOBS: Dict[str, Job] = {}


def register(job: Job) -> None:
    if job.key in JOBS:
        raise RuntimeError(f"duplicate job {job.key}")
    JOBS[job.key] = job
