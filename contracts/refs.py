"""Reference expressions of the public ops (Python syntax over torch / F), shared by the
contracts (evaluated symbolically against the torch catalogue) and by the replay script
(evaluated by CPython against the real torch).  Pure data: no imports."""

REFS = {
    "gelu": dict(ref="F.gelu(input * mult, approximate=approximate) / mult", diff=["input"], constrained=["input"]),
    "silu": dict(ref="F.silu(input * mult) / mult", diff=["input"], constrained=["input"]),
    "silu_glu": dict(ref="input * (F.silu(gate * mult) / mult)", diff=["input", "gate"], constrained=["input", "gate"]),
    "softmax": dict(ref="F.softmax(input * mult, dim=dim, dtype=dtype)", diff=["input"], constrained=["input"]),
    "dropout": dict(ref="F.dropout(input, p, training)", diff=["input"], constrained=["input"]),
    "matmul": dict(ref="torch.matmul(left, right)", diff=["left", "right"], constrained=["left", "right"]),
    "linear": dict(ref="F.linear(input, weight, bias)", diff=["input", "weight", "bias"], constrained=["input"]),
    "linear_readout": dict(ref="F.linear(input, weight, bias)", diff=["input", "weight", "bias"], constrained=["input"]),
    "conv1d": dict(ref="F.conv1d(input, weight, bias, stride, padding, dilation, groups)", diff=["input", "weight", "bias"], constrained=["input"]),
    "layer_norm": dict(ref="F.layer_norm(input, normalized_shape, weight, bias, eps)", diff=["input", "weight", "bias"], constrained=[]),
    "rms_norm": dict(ref="F.rms_norm(input, normalized_shape, weight, eps)", diff=["input", "weight"], constrained=[]),
    "add": dict(ref="torch.add(input, other)", diff=["input", "other"], constrained=["input", "other"]),
    "embedding": dict(ref="F.embedding(input, weight, padding_idx, max_norm, norm_type)", diff=["weight"], constrained=[]),
    "scaled_dot_product_attention": dict(
        ref="F.scaled_dot_product_attention(query, key, value, attn_mask=attn_mask, dropout_p=dropout_p, is_causal=is_causal, scale=mult / value.shape[-1])",
        diff=["query", "key", "value"],
        constrained=["query", "key", "value"],
    ),
    "cross_entropy": dict(
        ref="F.cross_entropy(input * mult, target, ignore_index=ignore_index, reduction=reduction)",
        ref_grad='F.cross_entropy(input * mult, target, ignore_index=ignore_index, reduction="sum")',
        diff=["input"],
        constrained=[],
    ),
    "mse_loss": dict(
        ref="F.mse_loss(input, target, reduction=reduction)",
        ref_grad='F.mse_loss(input, target, reduction="sum")',
        diff=["input", "target"],
        constrained=[],
    ),
}
