"""C17: transforms are non-destructive and compose in any order.
apply_transform / _compose_backends / _order_backends / unit_scale /
torch_nn_modules_to_user_modules under ASSUMED contracts for copy.deepcopy (deep; functions
and closures atomic; bound methods re-bound to the copied instance; parameter storage
cloned -- see C09) and for TorchDynamo (a deterministic function of module, inputs and the
backend list; trusted, A5)."""
from __future__ import annotations

import itertools
from typing import Any, Callable, Dict, List, Optional, Tuple

import z3

from pyvc import fxmodel
from pyvc import tensor as tz
from pyvc.harness import GenericSeq, Record, lookup_fn, run_config
from pyvc.interp import BoundMethod, Builtin, ClassVal, Env, ExtClass, FuncVal, ObjVal, PathResult, TypeTok
from pyvc.sym import Ctx, OutOfReach, PyRaise
from pyvc.tensor import Opaque, Run, Shape, Storage, SymTensor

from .common import frame_obligations, leaf, mk_interp, opaque
from .registry import Job, register

TU = "unit_scaling.transforms.utils."
US = "unit_scaling.transforms._unit_scale."


# ---------------------------------------------------------------- assumed: copy.deepcopy


def deepcopy_model(v: Any, memo: Dict[int, Any]) -> Any:
    if id(v) in memo:
        return memo[id(v)]
    if isinstance(v, ObjVal):
        n = ObjVal(v.cls)
        memo[id(v)] = n
        n.attrs = {k: deepcopy_model(x, memo) for k, x in v.attrs.items()}
        return n
    if isinstance(v, BoundMethod):
        return BoundMethod(deepcopy_model(v.obj, memo), v.func)
    if isinstance(v, SymTensor):
        n = SymTensor(v.shape, v.dtype, v.val, tz.Leaf("copy"), Storage("fresh"), v.name, v.requires_grad)
        n.is_parameter = v.is_parameter
        n.attrs = dict(v.attrs)
        memo[id(v)] = n
        return n
    if isinstance(v, list):
        n2: List[Any] = []
        memo[id(v)] = n2
        n2.extend(deepcopy_model(x, memo) for x in v)
        return n2
    if isinstance(v, dict):
        d: Dict[Any, Any] = {}
        memo[id(v)] = d
        for k, x in v.items():
            d[k] = deepcopy_model(x, memo)
        return d
    if isinstance(v, tuple):
        return tuple(deepcopy_model(x, memo) for x in v)
    # functions, closures, classes, opaque values, numbers, strings: atomic
    return v


def reachable(v: Any, acc: Optional[Dict[int, Any]] = None) -> Dict[int, Any]:
    acc = {} if acc is None else acc
    if id(v) in acc:
        return acc
    if isinstance(v, ObjVal):
        acc[id(v)] = v
        for x in v.attrs.values():
            reachable(x, acc)
    elif isinstance(v, (list, tuple)):
        acc[id(v)] = v
        for x in v:
            reachable(x, acc)
    elif isinstance(v, dict):
        acc[id(v)] = v
        for x in v.values():
            reachable(x, acc)
    elif isinstance(v, SymTensor):
        acc[id(v)] = v
    elif isinstance(v, BoundMethod):
        reachable(v.obj, acc)
    return acc


def snapshot(v: Any) -> Any:
    r = reachable(v)
    out = {}
    for i, o in r.items():
        if isinstance(o, ObjVal):
            out[i] = ("obj", {k: id(x) if isinstance(x, (ObjVal, list, dict, SymTensor)) else x for k, x in o.attrs.items()})
        elif isinstance(o, list):
            out[i] = ("list", [id(x) if isinstance(x, (ObjVal, list, dict, SymTensor)) else x for x in o])
        elif isinstance(o, dict):
            out[i] = ("dict", {k: id(x) if isinstance(x, (ObjVal, list, dict, SymTensor)) else x for k, x in o.items()})
        elif isinstance(o, SymTensor):
            out[i] = ("tensor", id(o.storage), str(o.val), dict(o.attrs), o.requires_grad)
    return out


class DynamoForward:
    def __init__(self, backend: Any, module: Any, log: List[Any]):
        self.backend, self.module, self.log = backend, module, log

    def pyvc_call(self, interp: Any, args: List[Any], kwargs: Dict[str, Any]) -> Any:
        # ASSUMED TorchDynamo: traces module.forward as it is AT CALL TIME and runs backend(graph, inputs)
        fwd = interp.getattr(self.module, "forward")
        self.log.append(("run", self.backend, fwd, list(args)))
        return ("dynamo-result", len(self.log))


def _hook_factory(log: List[Any]) -> Callable[[Any, str], Any]:
    def hook(interp: Any, name: str) -> Any:
        if name == "copy":
            return {"deepcopy": Builtin("copy.deepcopy", lambda it, a, k: deepcopy_model(a[0], {}))}
        if name == "torch._dynamo":
            def optimize(it: Any, a: List[Any], k: Dict[str, Any]) -> Any:
                backend = a[0]

                def wrap(it2: Any, a2: List[Any], k2: Dict[str, Any]) -> Any:
                    log.append(("optimize", backend, a2[0]))
                    o = ObjVal(TypeTok("OptimizedModule"))
                    o.cls = type("C", (), {"mro": lambda self=None: [], "name": "OptimizedModule"})()
                    o.attrs["forward"] = DynamoForward(backend, a2[0], log)
                    return o

                return Builtin("optimize-decorator", wrap)

            return {
                "optimize": Builtin("torch._dynamo.optimize", optimize),
                "reset": Builtin("torch._dynamo.reset", lambda it, a, k: log.append(("reset",))),
                "allow_in_graph": Builtin("torch._dynamo.allow_in_graph", lambda it, a, k: log.append(("allow_in_graph", a[0]))),
            }
        if name == "unittest.mock":
            class PatchObject:
                def __init__(self, obj: Any, attr: str, new: Any):
                    self.obj, self.attr, self.new, self.old = obj, attr, new, None

                def pyvc_getattr(self, it: Any, n: str) -> Any:
                    if n == "__enter__":
                        def enter(it2: Any, a: Any, k: Any) -> Any:
                            self.old = self.obj.attrs.get(self.attr, "<absent>")
                            self.obj.attrs[self.attr] = self.new
                            log.append(("patch", self.attr))

                        return Builtin("enter", enter)
                    if n == "__exit__":
                        def exit_(it2: Any, a: Any, k: Any) -> Any:
                            if self.old == "<absent>":
                                self.obj.attrs.pop(self.attr, None)
                            else:
                                self.obj.attrs[self.attr] = self.old
                            log.append(("unpatch", self.attr))

                        return Builtin("exit", exit_)
                    raise PyRaise("AttributeError", n)

            class Patch:
                def pyvc_getattr(self, it: Any, n: str) -> Any:
                    if n == "object":
                        return Builtin("patch.object", lambda it2, a, k: PatchObject(a[0], a[1], a[2]))
                    raise PyRaise("AttributeError", n)

                def pyvc_call(self, it: Any, a: List[Any], k: Dict[str, Any]) -> Any:
                    return PatchObject(ObjVal(TypeTok("x")), "x", None)

            return {"patch": Patch()}
        if name == "functools":
            return {"wraps": Builtin("functools.wraps", lambda it, a, k: Builtin("wraps-decorator", lambda it2, a2, k2: a2[0]))}
        return fxmodel.hook(interp, name)

    return hook


class StaleForward:
    """the cached dynamo_forward of the SOURCE module (copied atomically by deepcopy)"""

    def pyvc_call(self, interp: Any, args: List[Any], kwargs: Dict[str, Any]) -> Any:
        return "result-of-the-stale-dynamo_forward-of-the-source"


MODULE_CLS = ExtClass("Module", (), {})


def mk_module(ctx: Ctx, name: str, transformed_before: bool, it: Any, root: str = "user_class") -> ObjVal:
    """an arbitrary module: one parameter, one child, a forward method; optionally the state a
    previous apply_transform leaves behind.  root: its class is a user class, or a class of
    torch.nn (whose forward lives in a file TorchDynamo does not start tracing in)"""
    home = it.get_module("unit_scaling.transforms.utils")
    if root == "torch_nn_layer":
        from pyvc.interp import ModuleVal

        home = ModuleVal("torch.nn.modules.linear")
        home.loaded = True
        home.env.vars["__name__"] = "torch.nn.modules.linear"
    cls = ClassVal("UserModel" if root == "user_class" else "Linear", [MODULE_CLS], home, "UserModel" if root == "user_class" else "Linear")
    import ast

    fdef = ast.parse("def forward(self, x):\n    return x\n").body[0]
    cls.attrs["forward"] = FuncVal(fdef, home.env, home, cls.name + ".forward", cls=cls)
    m = ObjVal(cls)
    m.attrs["weight"] = leaf(ctx, name + "_weight", Shape([Run(ctx, "w")]))
    m.attrs["weight"].is_parameter = True
    child = ObjVal(cls)
    child.attrs["bias"] = leaf(ctx, name + "_child_bias", Shape([Run(ctx, "b")]))
    m.attrs["child"] = child
    m.attrs["training"] = True
    if transformed_before:
        m.attrs["backends"] = [opaque(ctx, "earlier_backend")]
        m.attrs["rerun_transform"] = False
        m.attrs["base_forward"] = BoundMethod(m, cls.attrs["forward"])
        m.attrs["forward"] = opaque(ctx, "stale_new_forward_closure_of_the_source")
        m.attrs["dynamo_forward"] = StaleForward()
    return m


def s_to_user_modules(interp: Any, b: Dict[str, Any]) -> Any:
    """contract of torch_nn_modules_to_user_modules (verified below): only re-homes children of
    the module it is given; parameters stay the same objects"""
    interp.ctx.__dict__.setdefault("to_user_calls", []).append(b["mod"])
    return None


def _apply_transform_job(transformed_before: bool, root: str = "user_class") -> Callable[[], Record]:
    def run() -> Record:
        qual = TU + "apply_transform"
        tag = "C17:transforms.utils.apply_transform"
        cs = f"[source_already_transformed={transformed_before}]" if root == "user_class" else f"[source_already_transformed={transformed_before},root={root}]"

        def build(ctx: Ctx) -> Any:
            log: List[Any] = []
            it = mk_interp(ctx, verifying=[qual, TU + "_compose_backends", TU + "patch_to_expand_modules"], extra_contracts={TU + "torch_nn_modules_to_user_modules": s_to_user_modules}, hook=_hook_factory(log))
            m = mk_module(ctx, "m", transformed_before, it, root)
            snap = snapshot(m)
            backend = opaque(ctx, "new_backend")
            nrf = [opaque(ctx, "fn1"), opaque(ctx, "fn2")]
            for o in reachable(m).values():
                ctx.protected[id(o)] = "the caller's module (or something reachable from it)"

            def thunk() -> Any:
                res = it.call(lookup_fn(it, qual), [m, backend], {"non_recurse_functions": nrf})
                log_apply = list(log)
                # first and second call of the transformed module
                x = opaque(ctx, "x")
                r1 = it.call(interp_getattr(it, res, "forward"), [x], {})
                n1 = len(log)
                r2 = it.call(interp_getattr(it, res, "forward"), [x], {})
                return res, m, snap, backend, nrf, log_apply, list(log), n1

            return it, thunk

        def post(p: PathResult, i: int) -> Any:
            ctx = p.ctx
            if p.outcome != "return":
                ctx.oblige(f"{tag}:no_exception{cs}", False, exc=str(p.exc))
                return None
            res, m, snap, backend, nrf, log_apply, log, n1 = p.value
            ctx.oblige(f"{tag}:returns_a_new_module{cs}", isinstance(res, ObjVal) and res is not m)
            ctx.oblige(f"{tag}:argument_and_everything_reachable_from_it_unchanged{cs}", snapshot(m) == snap)
            frame_obligations(ctx, f"{tag}:frame_no_write_to_the_callers_module{cs}")
            shared = set(reachable(res)) & set(reachable(m))
            ctx.oblige(f"{tag}:no_object_or_storage_shared_with_the_original{cs}", not shared and not ({id(t.storage) for t in reachable(res).values() if isinstance(t, SymTensor)} & {id(t.storage) for t in reachable(m).values() if isinstance(t, SymTensor)}), shared=len(shared))
            old = m.attrs.get("backends", [])
            nb = res.attrs.get("backends")
            ctx.oblige(f"{tag}:backends_are_the_earlier_ones_then_the_new_one{cs}", isinstance(nb, list) and len(nb) == len(old) + 1 and all(a is b for a, b in zip(nb, old)) and nb[-1] is backend and nb is not old)
            ctx.oblige(f"{tag}:retrace_on_first_call{cs}", res.attrs.get("rerun_transform") is False and any(e[0] == "optimize" for e in log[: n1]))
            bf = res.attrs.get("base_forward")
            orig_fwd = m.cls.attrs["forward"]

            def is_original(f: Any) -> bool:
                """the original forward itself, or (root of a torch.nn class) a user-code function that
                delegates to it with the same arguments"""
                if f is orig_fwd:
                    return True
                if root == "user_class" or not isinstance(f, FuncVal) or f.module.name.startswith("torch.nn"):
                    return False
                probe = opaque(ctx, "probe_argument")
                try:
                    return p.interp.call(f, [res, probe], {}) is probe  # the model's original forward returns its argument
                except PyRaise:
                    return False

            ctx.oblige(f"{tag}:base_forward_is_the_ORIGINAL_forward_bound_to_the_copy(earlier wrappers not wrapped again){cs}", isinstance(bf, BoundMethod) and bf.obj is res and is_original(bf.func))
            # precondition of the ASSUMED TorchDynamo contract: tracing starts in user code only -- the module
            # handed to it must be of a user class whose forward is defined outside torch.nn (root included)
            rc = res.cls
            rmod = rc.attrs.get("__module__") or getattr(getattr(rc, "module", None), "name", "?")
            fwd = next((c.attrs["forward"] for c in rc.mro() if isinstance(c, ClassVal) and "forward" in c.attrs), None)
            ctx.oblige(f"{tag}:module_handed_to_dynamo_is_of_a_user_class_with_a_user_code_forward{cs}", not str(rmod).startswith(("torch.nn", "torch.ao")) and isinstance(fwd, FuncVal) and not fwd.module.name.startswith(("torch.nn", "torch.ao")), cls_module=str(rmod), forward_defined_in=getattr(getattr(fwd, "module", None), "name", "?"))
            ctx.oblige(f"{tag}:result_is_still_an_instance_of_the_source_class{cs}", m.cls in rc.mro())
            ctx.oblige(f"{tag}:non_recurse_functions_registered{cs}", [e[1] for e in log_apply if e[0] == "allow_in_graph"] == nrf)
            calls = ctx.__dict__.get("to_user_calls", [])
            ctx.oblige(f"{tag}:torch_nn_children_rehomed_on_the_copy_only{cs}", len(calls) == 1 and calls[0] is res)
            # ---- calling the transformed module
            opt = [e for e in log if e[0] == "optimize"]
            runs = [e for e in log if e[0] == "run"]
            ctx.oblige(f"{tag}:traced_exactly_once_over_two_calls(no stale dynamo_forward of the source is used){cs}", len(opt) == 1 and opt[0][2] is res and len(runs) == 2)
            # precondition of the ASSUMED TorchDynamo contract (A5: the compiled function depends only on
            # forward / inputs / backend list): no cache entry for forward's code object survives from
            # another transformed copy of the same class (beyond recompile_limit Dynamo silently runs eagerly)
            idx = [j for j, e in enumerate(log) if e[0] == "optimize"]
            def reset_before(j: int) -> bool:
                # a reset after the previous compilation / compiled run and before this compilation
                for e in reversed(log[:j]):
                    if e[0] == "reset":
                        return True
                    if e[0] in ("optimize", "run"):
                        return False
                return False

            ctx.oblige(f"{tag}:dynamo_cache_reset_immediately_before_each_compilation{cs}", bool(idx) and all(reset_before(j) for j in idx), log=str([e[0] for e in log]))
            if opt:
                comp = opt[0][1]
                same_list = isinstance(comp, FuncVal) and comp.env.has("backends") and comp.env.lookup("backends") is nb
                ctx.oblige(f"{tag}:composite_backend_closes_over_the_results_own_backend_list(in-place reordering is effective){cs}", same_list)
            if runs:
                ctx.oblige(f"{tag}:dynamo_sees_the_original_forward_not_the_wrapper{cs}", all(isinstance(r[2], BoundMethod) and r[2].obj is res and is_original(r[2].func) for r in runs))
            ctx.oblige(f"{tag}:wrapper_restored_after_each_call{cs}", isinstance(res.attrs.get("forward"), FuncVal) and res.attrs["forward"].qualname.endswith("new_forward"))
            return None

        return run_config(qual, {"source_already_transformed": transformed_before, "root": root}, build, post)

    return run


def interp_getattr(it: Any, obj: Any, name: str) -> Any:
    return it.getattr(obj, name)


for _t in (False, True):
    # simulate_format / unit_scale / track_scales are all built on apply_transform's contract
    register(Job(f"c17:apply_transform[transformed_before={_t}]", ["C17", "C09", "C15", "C16", "C18"], TU + "apply_transform", {"source_already_transformed": _t}, _apply_transform_job(_t), shared=True))
    register(Job(f"c17:apply_transform[transformed_before={_t},root=torch_nn_layer]", ["C17", "C15", "C16", "C18"], TU + "apply_transform", {"source_already_transformed": _t, "root": "torch_nn_layer"}, _apply_transform_job(_t, "torch_nn_layer"), shared=True))


class BackendFn:
    def __init__(self, name: str, qualname: str, log: List[Any]):
        self.name, self.qualname, self.log = name, qualname, log

    def pyvc_call(self, interp: Any, args: List[Any], kwargs: Dict[str, Any]) -> Any:
        gm, ex = args
        out = fxmodel.GraphModuleModel(("result of", self.name, gm), getattr(gm, "graph", None))
        self.log.append((self.name, gm, ex, out))
        return out

    def pyvc_getattr(self, interp: Any, name: str) -> Any:
        if name == "__qualname__":
            return self.qualname
        raise PyRaise("AttributeError", name)

    def __repr__(self) -> str:
        return self.name


def _compose_job() -> Record:
    """loop invariant of composite_backend: gm is the result of applying backends[0..i) in list
    order, each once (one generic iteration from an arbitrary earlier state)"""
    qual = TU + "_compose_backends"
    tag = "C17:transforms.utils._compose_backends"

    def build(ctx: Ctx) -> Any:
        log: List[Any] = []
        it = mk_interp(ctx, verifying=[qual], hook=_hook_factory([]))
        b = BackendFn("b_i", "x", log)
        prev = fxmodel.GraphModuleModel("result of backends[0..i)", None)
        prev.attrs["_param_name_to_source"] = opaque(ctx, "param_sources")
        gm0 = fxmodel.GraphModuleModel("captured graph", None)
        state = {"init": None}

        def enter(interp: Any, env: Any) -> None:
            state["init"] = env.lookup("gm")
            env.vars["gm"] = prev

        seq = GenericSeq(b, enter, "backends")
        ex = opaque(ctx, "example_inputs")

        def thunk() -> Any:
            comp = it.call(lookup_fn(it, qual), [seq], {})
            out = it.call(comp, [gm0, ex], {})
            n_first = len(log)
            # TorchDynamo calls the composite backend again on every re-compilation (new input
            # shapes, grad mode, after a reset): it must apply all backends every time
            out2 = it.call(comp, [gm0, ex], {})
            state["second"] = (len(log) - n_first, out2)
            del log[n_first:]
            seq.entered = 1 if seq.entered >= 1 else 0
            return out, log, prev, gm0, ex, state, seq

        return it, thunk

    def post(p: PathResult, i: int) -> Any:
        ctx = p.ctx
        if p.outcome != "return":
            ctx.oblige(f"{tag}:no_exception", False, exc=str(p.exc))
            return None
        out, log, prev, gm0, ex, state, seq = p.value
        ctx.oblige(f"{tag}:initiation_loop_starts_from_the_captured_graph", state["init"] is gm0)
        ctx.oblige(f"{tag}:each_backend_applied_exactly_once_to_the_result_of_the_earlier_ones", len(log) == 1 and log[0][1] is prev and log[0][2] is ex and seq.entered == 1)
        ctx.oblige(f"{tag}:use_returns_the_last_result", len(log) == 1 and out is log[0][3])
        n2, out2 = state.get("second", (0, None))
        ctx.oblige(f"{tag}:a_second_invocation(recompilation)_applies_the_backends_again", n2 == 1 and out2 is not gm0, applied=n2)
        ctx.oblige(f"{tag}:parameter_sources_carried_along", getattr(out, "attrs", {}).get("_param_name_to_source") is prev.attrs["_param_name_to_source"])
        return None

    return run_config(qual, {}, build, post)


register(Job("c17:_compose_backends", ["C17"], TU + "_compose_backends", {}, _compose_job))


def _order_job(max_len: int) -> Callable[[], Record]:
    def run() -> Record:
        qual = US + "_order_backends"
        tag = "C17:transforms._unit_scale._order_backends"

        def build(ctx: Ctx) -> Any:
            it = mk_interp(ctx, verifying=[qual], hook=_hook_factory([]))
            f = lookup_fn(it, qual)

            def thunk() -> Any:
                results = []
                alphabet = ["U", "Q", "X", "Y"]
                for n in range(0, max_len + 1):
                    for combo in itertools.product(alphabet, repeat=n):
                        if combo.count("U") > 1 or combo.count("Q") > 1:
                            continue
                        qn = {"U": "unit_scaling_backend.<locals>.inner_backend", "Q": "_quantisation_backend.<locals>.backend_fn", "X": "my_backend", "Y": "other.<locals>.fn"}
                        objs = [BackendFn(f"{c}{i}", qn[c], []) for i, c in enumerate(combo)]
                        lst = list(objs)
                        try:
                            r = it.call(f, [lst], {})
                            results.append((combo, objs, lst, r, None))
                        except PyRaise as e:
                            results.append((combo, objs, lst, None, e.exc))
                return results

            return it, thunk

        def post(p: PathResult, i: int) -> Any:
            ctx = p.ctx
            if p.outcome != "return":
                ctx.oblige(f"{tag}:harness", False, exc=str(p.exc))
                return None
            bad: Dict[str, List[str]] = {"raises": [], "perm": [], "order": [], "others": [], "identity": []}
            for combo, objs, lst, r, exc in p.value:
                key = "".join(combo)
                if exc is not None:
                    bad["raises"].append(key)
                    continue
                if len(lst) != len(objs) or {id(o) for o in lst} != {id(o) for o in objs}:
                    bad["perm"].append(key)
                    continue
                names = [o.name[0] for o in lst]
                if "U" in names and "Q" in names and names.index("U") > names.index("Q"):
                    bad["order"].append(key)
                if [o for o in lst if o.name[0] not in "U"] != [o for o in objs if o.name[0] not in "U"]:
                    bad["others"].append(key)
                already = not ("U" in combo and "Q" in combo and combo.index("U") > combo.index("Q"))
                if already and any(a is not b for a, b in zip(lst, objs)):
                    bad["identity"].append(key)
            n = len(p.value)
            ctx.oblige(f"{tag}:never_raises[lists up to {max_len}]", not bad["raises"], failing=bad["raises"][:5], lists=n)
            ctx.oblige(f"{tag}:result_is_a_permutation_in_place[lists up to {max_len}]", not bad["perm"], failing=bad["perm"][:5], lists=n)
            ctx.oblige(f"{tag}:unit_scaling_precedes_quantisation[lists up to {max_len}]", not bad["order"], failing=bad["order"][:5], lists=n)
            ctx.oblige(f"{tag}:relative_order_of_all_other_backends_unchanged[lists up to {max_len}]", not bad["others"], failing=bad["others"][:5], lists=n)
            ctx.oblige(f"{tag}:identity_when_already_ordered[lists up to {max_len}]", not bad["identity"], failing=bad["identity"][:5], lists=n)
            return None

        return run_config(qual, {"max_len": max_len}, build, post, max_paths=4)

    return run


register(Job("c17:_order_backends[<=4]", ["C17"], US + "_order_backends", {"max_len": 4}, _order_job(4)))
register(Job("c17:_order_backends[<=6]", ["C17"], US + "_order_backends", {"max_len": 6}, _order_job(6), tier="thorough"))


def _unit_scale_job() -> Record:
    qual = US + "unit_scale"
    tag = "C17:transforms._unit_scale.unit_scale"

    def build(ctx: Ctx) -> Any:
        rec: List[Any] = []
        result_obj = ObjVal(MODULE_CLS)
        result_obj.attrs["backends"] = [opaque(ctx, "q_backend"), opaque(ctx, "u_backend")]

        def s_apply(interp: Any, b: Dict[str, Any]) -> Any:
            rec.append(("apply_transform", b))
            return result_obj

        def s_rec(name: str) -> Callable[..., Any]:
            return lambda interp, b: rec.append((name, b)) or None

        def s_backend(interp: Any, b: Dict[str, Any]) -> Any:
            rec.append(("unit_scaling_backend", b))
            return ("the-unit-scaling-backend", b["replacement_map"])

        it = mk_interp(
            ctx,
            verifying=[qual],
            extra_contracts={TU + "apply_transform": s_apply, US + "_order_backends": s_rec("_order_backends"), US + "_unit_init_weights": s_rec("_unit_init_weights"), US + "_zero_init_biases": s_rec("_zero_init_biases"), US + "unit_scaling_backend": s_backend},
            hook=_hook_factory([]),
        )
        m = opaque(ctx, "module")
        k1, v1 = opaque(ctx, "user_fn"), opaque(ctx, "user_replacement")
        replace = {k1: v1}
        ctx.protected[id(replace)] = "the caller's replace dict"
        return it, lambda: (it.call(lookup_fn(it, qual), [m], {"replace": replace}), rec, m, result_obj, replace, k1)

    def post(p: PathResult, i: int) -> Any:
        ctx = p.ctx
        if p.outcome != "return":
            ctx.oblige(f"{tag}:no_exception", False, exc=str(p.exc))
            return None
        out, rec, m, res, replace, k1 = p.value
        names = [r[0] for r in rec]
        ctx.oblige(f"{tag}:sequence_backend_apply_order_init", names == ["unit_scaling_backend", "apply_transform", "_order_backends", "_unit_init_weights", "_zero_init_biases"], got=names)
        if names[:2] == ["unit_scaling_backend", "apply_transform"]:
            ctx.oblige(f"{tag}:user_replacements_passed_to_the_backend", rec[0][1]["replacement_map"] is replace)
            at = rec[1][1]
            ctx.oblige(f"{tag}:transform_applied_to_the_callers_module_with_the_unit_scaling_backend", at["module"] is m and at["backend"] == ("the-unit-scaling-backend", replace))
            ctx.oblige(f"{tag}:replaced_functions_are_not_recursed_into", list(at["non_recurse_functions"]) == [k1])
        if len(rec) == 5:
            ctx.oblige(f"{tag}:reorders_the_RESULTS_backend_list_in_place", rec[2][1]["backends"] is res.attrs["backends"])
            ctx.oblige(f"{tag}:initialisation_touches_the_result_only", rec[3][1]["m"] is res and rec[4][1]["m"] is res)
        ctx.oblige(f"{tag}:returns_the_transformed_copy", out is res)
        frame_obligations(ctx, f"{tag}:frame")
        return None

    return run_config(qual, {}, build, post)


register(Job("c17:unit_scale", ["C17", "C16"], US + "unit_scale", {}, _unit_scale_job, shared=True))


def _to_user_modules_job() -> Record:
    qual = TU + "torch_nn_modules_to_user_modules"
    tag = "C17:transforms.utils.torch_nn_modules_to_user_modules"

    def build(ctx: Ctx) -> Any:
        it = mk_interp(ctx, verifying=[qual], hook=_hook_factory([]))

        def named_children(interp: Any, a: List[Any], k: Dict[str, Any]) -> Any:
            return [(n, v) for n, v in a[0].attrs.items() if isinstance(v, ObjVal)]

        base = ExtClass("Module", (), {"named_children": named_children, "__getstate__": lambda it_, a, k: a[0].attrs, "__setstate__": lambda it_, a, k: a[0].attrs.update(a[1])})
        torch_linear = ExtClass("Linear", (base,), {})
        torch_linear.attrs["__module__"] = "torch.nn.modules.linear"
        user_cls = ClassVal("UserBlock", [base], it.get_module("unit_scaling.transforms.utils"), "UserBlock")
        user_cls.attrs["__module__"] = "__main__"
        root, blk, lin, inner = ObjVal(user_cls), ObjVal(user_cls), ObjVal(torch_linear), ObjVal(torch_linear)
        for o, nm in ((lin, "lin"), (inner, "inner")):
            o.attrs["weight"] = leaf(ctx, nm + "_weight", Shape([Run(ctx, nm)]))
            o.attrs["weight"].is_parameter = True
            o.attrs["weight"].attrs["mup_type"] = "weight"
        blk.attrs["inner"] = inner
        root.attrs["lin"], root.attrs["blk"] = lin, blk
        return it, lambda: (it.call(lookup_fn(it, qual), [root], {}), root, blk, lin, inner, torch_linear)

    def post(p: PathResult, i: int) -> Any:
        ctx = p.ctx
        if p.outcome != "return":
            ctx.oblige(f"{tag}:no_exception", False, exc=str(p.exc))
            return None
        _, root, blk, lin, inner, tl = p.value
        nl, ni = root.attrs.get("lin"), blk.attrs.get("inner")
        for name, new, old in (("child", nl, lin), ("grandchild", ni, inner)):
            ok = isinstance(new, ObjVal) and new is not old and isinstance(new.cls, ClassVal) and new.cls.bases == [tl] and new.cls.name == "trivial_subclass_modules_linear_Linear"
            ctx.oblige(f"{tag}:torch_nn_{name}_becomes_an_instance_of_a_trivial_subclass", ok, got=repr(getattr(new, "cls", None)))
            ctx.oblige(f"{tag}:{name}_keeps_the_same_parameter_objects(tags_survive)", isinstance(new, ObjVal) and new.attrs.get("weight") is old.attrs["weight"])
        ctx.oblige(f"{tag}:user_modules_are_left_as_they_are", root.attrs.get("blk") is blk)
        return None

    return run_config(qual, {}, build, post)


register(Job("c17:torch_nn_modules_to_user_modules", ["C17", "C09"], TU + "torch_nn_modules_to_user_modules", {}, _to_user_modules_job))


def _init_job(which: str) -> Callable[[], Record]:
    """_unit_init_weights / _zero_init_biases: only Linear / Embedding parameters of the module
    they are given are written; weights become w / std(w), biases b - b"""

    def run() -> Record:
        from pyvc import nnmodel
        from pyvc.harness import lc_equal_goal
        from pyvc.tensor import LinComb

        qual = US + which
        tag = f"C17:transforms._unit_scale.{which}"

        def build(ctx: Ctx) -> Any:
            it = mk_interp(ctx, verifying=[qual], hook=[nnmodel.hook, _hook_factory([])])
            nn_mod = it.get_module("torch.nn")
            Lin, Emb, Mod = it.getattr(nn_mod, "Linear"), it.getattr(nn_mod, "Embedding"), it.getattr(nn_mod, "Module")

            def mk(cls: Any, **attrs: Any) -> ObjVal:
                o = ObjVal(cls)
                o.attrs.update(attrs)
                return o

            def prm(name: str) -> SymTensor:
                t = leaf(ctx, name, Shape([Run(ctx, name + "_shape")]))
                t.is_parameter = True
                return t

            lin = mk(Lin, weight=prm("lin_w"), bias=prm("lin_b"))
            lin_nb = mk(Lin, weight=prm("lin2_w"), bias=None)
            emb = mk(Emb, weight=prm("emb_w"))
            other = mk(Mod, weight=prm("norm_w"), bias=prm("norm_b"))
            root = mk(Mod, a=lin, b=mk(Mod, inner=lin_nb, e=emb), c=other)
            outsider = prm("not_in_module")
            snap = {id(t): str(t.val) for t in (lin.attrs["weight"], lin.attrs["bias"], lin_nb.attrs["weight"], emb.attrs["weight"], other.attrs["weight"], other.attrs["bias"], outsider)}
            # what the property prescribes, computed by the same op models on the ORIGINAL values:  w / w.std()
            from pyvc import torchmodel as tm_

            want: Dict[int, Any] = {}
            for t in (lin.attrs["weight"], lin_nb.attrs["weight"], emb.attrs["weight"]):
                t0 = SymTensor(t.shape, t.dtype, t.val, None)
                want[id(t)] = tm_.tensor_binop(it, "/", t0, tm_._TENSOR_METHODS["std"](it, [t0], {})).val
            snap["want"] = want  # type: ignore[assignment]
            snap["objects"] = {"lin.weight": lin.attrs["weight"], "lin.bias": lin.attrs["bias"], "lin_nb.weight": lin_nb.attrs["weight"], "emb.weight": emb.attrs["weight"]}  # type: ignore[assignment]
            snap["holders"] = {"lin.weight": (lin, "weight"), "lin.bias": (lin, "bias"), "lin_nb.weight": (lin_nb, "weight"), "emb.weight": (emb, "weight")}  # type: ignore[assignment]
            return it, lambda: (it.call(lookup_fn(it, qual), [root], {}), lin, lin_nb, emb, other, outsider, snap)

        def post(p: PathResult, i: int) -> Any:
            ctx = p.ctx
            if p.outcome != "return":
                ctx.oblige(f"{tag}:no_exception", False, exc=str(p.exc))
                return None
            _, lin, lin_nb, emb, other, outsider, snap = p.value
            written = {e[1].id for e in ctx.effects if e[0] == "inplace"}
            allowed = {lin.attrs["weight"].storage.id, lin_nb.attrs["weight"].storage.id, emb.attrs["weight"].storage.id} if which == "_unit_init_weights" else {lin.attrs["bias"].storage.id}
            ctx.oblige(f"{tag}:writes_exactly_the_linear_and_embedding_{'weights' if which == '_unit_init_weights' else 'biases'}_of_its_argument", written == allowed, written=len(written), expected=len(allowed))
            # C09: the re-initialisation works IN PLACE -- every parameter stays the same (tagged) object
            for nm, obj in snap["objects"].items():
                holder, attr = snap["holders"][nm]
                ctx.oblige(f"{tag}:parameter_object_kept(tags survive)[{nm}]", holder.attrs.get(attr) is obj and obj.is_parameter)
            ctx.oblige(f"{tag}:other_modules_and_outside_tensors_untouched", all(str(t.val) == snap[id(t)] for t in (other.attrs["weight"], other.attrs["bias"], outsider)))
            if which == "_zero_init_biases":
                ctx.oblige(f"{tag}:bias_becomes_zero", len(lin.attrs["bias"].val.terms) == 0, val=str(lin.attrs["bias"].val))
            else:
                for nm, w in (("Linear", lin.attrs["weight"]), ("Linear_without_bias", lin_nb.attrs["weight"]), ("Embedding", emb.attrs["weight"])):
                    ctx.oblige(f"{tag}:weight_becomes_weight_over_its_std(default std: unit variance)[{nm}]", lc_equal_goal(ctx, w.val, snap["want"][id(w)]), val=str(w.val)[:160], want=str(snap["want"][id(w)])[:160])
            return None

        return run_config(qual, {}, build, post)

    return run


for _w in ("_unit_init_weights", "_zero_init_biases"):
    register(Job(f"c17:{_w}", ["C17", "C16", "C09"], US + _w, {}, _init_job(_w), shared=True))
